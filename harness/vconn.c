/* vconn — command server driving a REAL private DBusConnection whose peer is
 * this harness (scripted server side of SASL, raw bytes afterwards).
 * Serves C20 (object tree) and C17a (pending calls, single thread).
 *
 * Time is virtual (hook H1); a poll that would block advances the virtual
 * clock by its timeout instead of sleeping (hook H3), so blocking waits are
 * deterministic. */
#define _GNU_SOURCE
#include <config.h>
#include "vcommon.h"

#include <dbus/dbus.h>
#include <dbus/dbus-connection-internal.h>
#include <dbus/dbus-string.h>
#include <dbus/dbus-internals.h>
#include <dbus/dbus-sysdeps.h>

#include <sys/socket.h>
#include <sys/un.h>
#include <poll.h>
#include <fcntl.h>
#include <signal.h>

void _dbus_verif_connection_set_next_serial (DBusConnection *connection, dbus_uint32_t serial);

static OutBuf out, logb;
static DBusConnection *conn;
static int peer = -1, lsock = -1;
static long long vclock_us = 1000000LL * 1000000LL;
static int in_hook;
static int blocked_forever;

static void clock_hook (int which, long *tv_sec, long *tv_usec)
{
  long long t = vclock_us + (which ? 600000000LL * 1000000LL : 0);
  if (tv_sec) *tv_sec = (long) (t / 1000000);
  if (tv_usec) *tv_usec = (long) (t % 1000000);
}

static int sync_hook (int op, void *obj, void *obj2, int arg, int arg2, int *result)
{
  (void) obj2;
  if (op != DBUS_VERIF_OP_POLL || in_hook) return 0;
  {
    struct pollfd *fds = obj; int n = arg, timeout = arg2, r;
    in_hook = 1;
    r = poll (fds, (nfds_t) n, 0);
    in_hook = 0;
    if (r != 0 || timeout == 0) { *result = r; return 1; }
    if (timeout < 0)
      {
        /* would block forever: single-threaded harness cannot make progress */
        blocked_forever++;
        if (blocked_forever > 3) { fprintf (stderr, "vconn: blocked forever in poll\n"); printf ("HANG\n"); fflush (stdout); _exit (5); }
        vclock_us += 3600LL * 1000000LL;
        *result = 0;
        return 1;
      }
    vclock_us += (long long) timeout * 1000LL;
    *result = 0;
    return 1;
  }
}

/* ---- timeouts the "application main loop" has to drive ---------------- */
#define MAX_TO 64
static struct { DBusTimeout *t; long long due_us; } tos[MAX_TO];

static void to_rearm (int i)
{
  tos[i].due_us = vclock_us + (long long) dbus_timeout_get_interval (tos[i].t) * 1000LL;
}
static dbus_bool_t add_timeout (DBusTimeout *t, void *data)
{
  int i; (void) data;
  for (i = 0; i < MAX_TO; i++) if (!tos[i].t) { tos[i].t = t; to_rearm (i); return TRUE; }
  return FALSE;
}
static void remove_timeout (DBusTimeout *t, void *data)
{
  int i; (void) data;
  for (i = 0; i < MAX_TO; i++) if (tos[i].t == t) tos[i].t = NULL;
}
static void toggle_timeout (DBusTimeout *t, void *data)
{
  int i; (void) data;
  for (i = 0; i < MAX_TO; i++) if (tos[i].t == t) to_rearm (i);
}
static int fire_due_timeouts (void)
{
  int i, fired = 0;
  for (i = 0; i < MAX_TO; i++)
    if (tos[i].t && dbus_timeout_get_enabled (tos[i].t) && tos[i].due_us <= vclock_us)
      {
        DBusTimeout *t = tos[i].t;
        to_rearm (i);
        dbus_timeout_handle (t);
        fired++;
      }
  return fired;
}

/* ---- peer side ---------------------------------------------------------- */
static void peer_drain (OutBuf *o)
{
  unsigned char tmp[65536]; ssize_t r;
  if (peer < 0) return;
  while ((r = recv (peer, tmp, sizeof tmp, MSG_DONTWAIT)) > 0) ob_hex (o, tmp, (size_t) r);
}

static int peer_read_line (char *buf, size_t cap)
{
  size_t n = 0; int spins = 0;
  while (n + 1 < cap)
    {
      char c; ssize_t r = recv (peer, &c, 1, MSG_DONTWAIT);
      if (r == 1) { if (c == 0) continue; buf[n++] = c; if (c == '\n') break; continue; }
      /* let the client side make progress */
      if (++spins > 2000) return -1;
      dbus_connection_read_write (conn, 0);
    }
  buf[n] = 0;
  return (int) n;
}

/* ---- nested calls: a call made, and waited for, from INSIDE a callback that dbus_connection_dispatch() is running ----
 * NEST <where> <mode> arms it once: where = n (the next pending-call notify function), f (the filter, on the next
 * signal), h (the next object-path handler); mode = b (dbus_connection_send_with_reply_and_block) or p (send_with_reply +
 * dbus_pending_call_block + steal_reply).  The peer's reply is written to the socket before the wait starts (the serial is
 * fixed with hook H4), so the reply is there to be found (the explorer may have queued other messages ahead of it).  Logged as
 * "N<where><mode>:<type>:<reply_serial>:<error name>:<serial of the nested call>;". */
static int nest_where, nest_mode; static dbus_uint32_t nest_serial = 0x5000;
static void nest_write_reply (dbus_uint32_t rs)
{
  unsigned char m[160]; size_t n; static dbus_uint32_t myserial = 9000;
  memset (m, 0, sizeof m);
  m[0] = 'l'; m[1] = 2; m[2] = 1; m[3] = 1;
  { dbus_uint32_t s2 = ++myserial; memcpy (m + 8, &s2, 4); }
  n = 16;
  m[n++] = 5; m[n++] = 1; m[n++] = 'u'; m[n++] = 0; memcpy (m + n, &rs, 4); n += 4;
  { dbus_uint32_t fl = (dbus_uint32_t) (n - 16); memcpy (m + 12, &fl, 4); }
  while (n % 8) m[n++] = 0;
  if (send (peer, m, n, MSG_NOSIGNAL) < 0) {}
}

static void nested_call (DBusConnection *c, int where)
{
  DBusMessage *m, *r = NULL; DBusError err; dbus_uint32_t ser = ++nest_serial; int mode = nest_mode;
  nest_where = 0;                                   /* one shot */
  _dbus_verif_connection_set_next_serial (c, ser);
  m = dbus_message_new_method_call ("peer.name", "/x", "x.y", "Nested");
  if (!m) _exit (3);
  nest_write_reply (ser);
  dbus_error_init (&err);
  if (mode == 'b')
    r = dbus_connection_send_with_reply_and_block (c, m, 2000, &err);
  else
    {
      DBusPendingCall *p = NULL;
      if (dbus_connection_send_with_reply (c, m, &p, 2000) && p)
        {
          dbus_pending_call_block (p);
          r = dbus_pending_call_steal_reply (p);
          dbus_pending_call_unref (p);
          if (r && dbus_set_error_from_message (&err, r)) { dbus_message_unref (r); r = NULL; }
        }
    }
  ob_printf (&logb, "N%c%c:%d:%u:%s:%u;", where, mode, r ? dbus_message_get_type (r) : 0, r ? dbus_message_get_reply_serial (r) : 0,
             dbus_error_is_set (&err) ? err.name : "-", ser);
  if (r) dbus_message_unref (r);
  dbus_error_free (&err);
  dbus_message_unref (m);
}

static DBusHandlerResult filter_fn (DBusConnection *c, DBusMessage *m, void *data)
{
  (void) data;
  if (nest_where == 'f' && dbus_message_get_type (m) == DBUS_MESSAGE_TYPE_SIGNAL && !dbus_message_has_member (m, "Ahead")) nested_call (c, 'f');
  ob_printf (&logb, "f:%d:%s:%u;", dbus_message_get_type (m),
             dbus_message_get_member (m) ? dbus_message_get_member (m) : (dbus_message_get_error_name (m) ? dbus_message_get_error_name (m) : "-"),
             dbus_message_get_reply_serial (m));
  return DBUS_HANDLER_RESULT_NOT_YET_HANDLED;
}

static void cmd_open (int argc, char **argv)
{
  struct sockaddr_un sa; char addr[300], line[4096]; DBusError err; const char *dir = argc > 1 ? argv[1] : ".";
  _dbus_verif_clock_hook = clock_hook;
  _dbus_verif_sync_hook = sync_hook;
  memset (&sa, 0, sizeof sa); sa.sun_family = AF_UNIX;
  snprintf (sa.sun_path, sizeof sa.sun_path, "%s/conn-%d.sock", dir, (int) getpid ());
  unlink (sa.sun_path);
  lsock = socket (AF_UNIX, SOCK_STREAM | SOCK_CLOEXEC, 0);
  if (bind (lsock, (struct sockaddr *) &sa, sizeof sa) < 0 || listen (lsock, 4) < 0) { ob_printf (&out, "ERR listen %s", strerror (errno)); return; }
  snprintf (addr, sizeof addr, "unix:path=%s", sa.sun_path);
  dbus_error_init (&err);
  conn = dbus_connection_open_private (addr, &err);
  if (!conn) { ob_printf (&out, "ERR open %s", err.message); return; }
  dbus_connection_set_exit_on_disconnect (conn, FALSE);
  dbus_connection_set_timeout_functions (conn, add_timeout, remove_timeout, toggle_timeout, NULL, NULL);
  dbus_connection_add_filter (conn, filter_fn, NULL, NULL);
  peer = accept4 (lsock, NULL, NULL, SOCK_CLOEXEC);
  if (peer < 0) { ob_puts (&out, "ERR accept"); return; }
  /* scripted server side of SASL */
  for (;;)
    {
      if (peer_read_line (line, sizeof line) <= 0) { ob_puts (&out, "ERR handshake"); return; }
      if (strstr (line, "AUTH")) { if (send (peer, "OK 0123456789abcdef0123456789abcdef\r\n", 37, MSG_NOSIGNAL) < 0) {} }
      else if (strstr (line, "NEGOTIATE_UNIX_FD")) { if (send (peer, "AGREE_UNIX_FD\r\n", 15, MSG_NOSIGNAL) < 0) {} }
      else if (strstr (line, "BEGIN")) break;
      else { if (send (peer, "ERROR\r\n", 7, MSG_NOSIGNAL) < 0) {} }
    }
  {
    int i; for (i = 0; i < 50 && !dbus_connection_get_is_authenticated (conn); i++) dbus_connection_read_write (conn, 0);
  }
  ob_printf (&out, "OK auth=%d", dbus_connection_get_is_authenticated (conn));
}

/* ---- object tree ------------------------------------------------------------ */
typedef struct { char *path; int handles; int fallback; } Reg;

static void unreg_fn (DBusConnection *c, void *data)
{
  Reg *r = data; (void) c;
  ob_printf (&logb, "u:%s;", r->path);
  free (r->path); free (r);
}
static DBusHandlerResult msg_fn (DBusConnection *c, DBusMessage *m, void *data)
{
  Reg *r = data;
  ob_printf (&logb, "h:%s:%s:%s;", r->path, r->fallback ? "fb" : "ex", dbus_message_get_path (m));
  if (nest_where == 'h') nested_call (c, 'h');
  return r->handles ? DBUS_HANDLER_RESULT_HANDLED : DBUS_HANDLER_RESULT_NOT_YET_HANDLED;
}
static const DBusObjectPathVTable vtable = { unreg_fn, msg_fn, NULL, NULL, NULL, NULL };

static void cmd_reg (int argc, char **argv, int fallback)
{
  Reg *r; DBusError err; dbus_bool_t ok;
  if (argc < 3 || !conn) { ob_puts (&out, "ERR badargs"); return; }
  r = malloc (sizeof *r); r->path = strdup (argv[1]); r->handles = argv[2][0] == 'h'; r->fallback = fallback;
  dbus_error_init (&err);
  if (argc > 3 && !strcmp (argv[3], "plain"))
    {
      /* the older entry points without a DBusError (they report an occupied path by a warning and FALSE) */
      ok = fallback ? dbus_connection_register_fallback (conn, argv[1], &vtable, r)
                    : dbus_connection_register_object_path (conn, argv[1], &vtable, r);
      if (!ok) dbus_set_error_const (&err, "plain.Failed", "register returned FALSE");
    }
  else
  ok = fallback ? dbus_connection_try_register_fallback (conn, argv[1], &vtable, r, &err)
                : dbus_connection_try_register_object_path (conn, argv[1], &vtable, r, &err);
  if (ok) ob_puts (&out, "OK");
  else { ob_printf (&out, "ERR %s", err.name ? err.name : "?"); dbus_error_free (&err); free (r->path); free (r); }
}

/* DATA <path> : what dbus_connection_get_object_path_data() says is registered at exactly this path */
static void cmd_data (int argc, char **argv)
{
  void *d = (void *) 1; Reg *r;
  if (argc < 2 || !conn) { ob_puts (&out, "ERR badargs"); return; }
  if (!dbus_connection_get_object_path_data (conn, argv[1], &d)) { ob_puts (&out, "ERR oom"); return; }
  r = d;
  if (r) ob_printf (&out, "OK %s:%s:%s", r->path, r->fallback ? "fb" : "ex", r->handles ? "h" : "d"); else ob_puts (&out, "OK -");
}

static void cmd_list (int argc, char **argv)
{
  char **kids = NULL; int i;
  if (argc < 2 || !conn) { ob_puts (&out, "ERR badargs"); return; }
  if (!dbus_connection_list_registered (conn, argv[1], &kids)) { ob_puts (&out, "ERR oom"); return; }
  ob_puts (&out, "OK");
  for (i = 0; kids[i]; i++) ob_printf (&out, " %s", kids[i]);
  dbus_free_string_array (kids);
}

/* ---- pending calls -------------------------------------------------------------- */
#define MAX_PC 16
static struct { DBusPendingCall *p; int notified; dbus_uint32_t serial; int stolen; char result[200]; } pcs[MAX_PC];

static void notify_fn (DBusPendingCall *p, void *data)
{
  int i = (int) (intptr_t) data; (void) p;
  pcs[i].notified++;
  ob_printf (&logb, "n:%d;", i);
  if (nest_where == 'n' && conn) nested_call (conn, 'n');
}

static void describe_reply (int i)
{
  DBusMessage *r;
  if (!pcs[i].p || pcs[i].stolen || !dbus_pending_call_get_completed (pcs[i].p)) return;
  r = dbus_pending_call_steal_reply (pcs[i].p);
  pcs[i].stolen = 1;
  if (!r) { snprintf (pcs[i].result, sizeof pcs[i].result, "null"); return; }
  snprintf (pcs[i].result, sizeof pcs[i].result, "type=%d,rserial=%u,err=%s,sender=%s", dbus_message_get_type (r),
            dbus_message_get_reply_serial (r), dbus_message_get_error_name (r) ? dbus_message_get_error_name (r) : "-",
            dbus_message_get_sender (r) ? dbus_message_get_sender (r) : "-");
  dbus_message_unref (r);
}

static void cmd_call (int argc, char **argv)
{
  int i, timeout; DBusMessage *m; dbus_uint32_t v;
  if (argc < 3 || !conn) { ob_puts (&out, "ERR badargs"); return; }
  i = atoi (argv[1]); timeout = atoi (argv[2]);
  if (i < 0 || i >= MAX_PC || pcs[i].p) { ob_puts (&out, "ERR slot"); return; }
  m = dbus_message_new_method_call ("peer.name", "/x", "x.y", "M");
  v = (dbus_uint32_t) i;
  dbus_message_append_args (m, DBUS_TYPE_UINT32, &v, DBUS_TYPE_INVALID);
  if (!dbus_connection_send_with_reply (conn, m, &pcs[i].p, timeout)) { ob_puts (&out, "ERR oom"); dbus_message_unref (m); return; }
  pcs[i].serial = dbus_message_get_serial (m);
  pcs[i].notified = 0; pcs[i].stolen = 0; pcs[i].result[0] = 0;
  dbus_message_unref (m);
  if (pcs[i].p == NULL) { ob_printf (&out, "OK serial=%u pending=null", pcs[i].serial); return; }
  dbus_pending_call_set_notify (pcs[i].p, notify_fn, (void *) (intptr_t) i, NULL);
  ob_printf (&out, "OK serial=%u", pcs[i].serial);
}

static void pump (void)
{
  int i, idle = 0;
  for (i = 0; i < 200 && idle < 3; i++)
    {
      int did = 0;
      dbus_connection_read_write (conn, 0);
      while (dbus_connection_get_dispatch_status (conn) == DBUS_DISPATCH_DATA_REMAINS) { dbus_connection_dispatch (conn); did = 1; }
      if (did) idle = 0; else idle++;
    }
}

static void state_all (OutBuf *o)
{
  int i;
  for (i = 0; i < MAX_PC; i++)
    if (pcs[i].p)
      {
        describe_reply (i);
        ob_printf (o, " pc%d=%d/%d/%s", i, dbus_pending_call_get_completed (pcs[i].p), pcs[i].notified, pcs[i].result[0] ? pcs[i].result : "-");
      }
  if (conn)
    {
      /* hook H2: internal state of the connection for the explorer's state key (one token) */
      DBusString d; int k;
      if (!_dbus_string_init (&d)) _exit (3);
      if (!_dbus_verif_connection_dump (conn, &d)) _exit (3);
      ob_puts (o, " cdump=");
      for (k = 0; k < _dbus_string_get_length (&d); k++) { char c = _dbus_string_get_byte (&d, k); ob_putc (o, c == ' ' ? '~' : c); }
      _dbus_string_free (&d);
    }
}

static void finish (const char *status)
{
  ob_printf (&out, "%s connected=%d log=%s peer=", status, conn ? dbus_connection_get_is_connected (conn) : 0, logb.len ? logb.s : "-");
  { size_t before = out.len; peer_drain (&out); if (out.len == before) ob_putc (&out, '-'); }
  state_all (&out);
  ob_reset (&logb);
}

int main (int argc, char **argv)
{
  char *line; const char *dir = argc > 1 ? argv[1] : ".";
  signal (SIGPIPE, SIG_IGN);
  setvbuf (stdout, NULL, _IOFBF, 1 << 16);
  while ((line = read_line ()))
    {
      char *a[64]; int n;
      ob_reset (&out);
      blocked_forever = 0;
      n = split_args (line, a, 64);
      if (n == 0) { ob_puts (&out, "ERR empty"); reply (&out); continue; }
      if (!strcmp (a[0], "OPEN")) { char *av[2] = { a[0], (char *) dir }; cmd_open (2, av); }
      else if (!conn && strcmp (a[0], "QUIT")) ob_puts (&out, "ERR noconn");
      else if (!strcmp (a[0], "REG")) cmd_reg (n, a, 0);
      else if (!strcmp (a[0], "REGFB")) cmd_reg (n, a, 1);
      else if (!strcmp (a[0], "UNREG"))
        { if (n > 1 && dbus_connection_unregister_object_path (conn, a[1])) finish ("OK"); else ob_puts (&out, "ERR unregister"); }
      else if (!strcmp (a[0], "LIST")) cmd_list (n, a);
      else if (!strcmp (a[0], "DATA")) cmd_data (n, a);
      else if (!strcmp (a[0], "PEER"))
        {
          size_t len; unsigned char *b = n > 1 ? unhex (a[1], &len) : NULL;
          if (!b || peer < 0) ob_puts (&out, "ERR badargs");
          else { ssize_t w = send (peer, b, len, MSG_NOSIGNAL); free (b); pump (); ob_printf (&out, "w=%ld ", (long) w); finish ("OK"); }
        }
      else if (!strcmp (a[0], "PEERQ"))
        { /* queue bytes at the peer side without letting the connection run */
          size_t len; unsigned char *b = n > 1 ? unhex (a[1], &len) : NULL;
          if (!b || peer < 0) ob_puts (&out, "ERR badargs"); else { ssize_t w = send (peer, b, len, MSG_NOSIGNAL); free (b); ob_printf (&out, "OK w=%ld", (long) w); } }
      else if (!strcmp (a[0], "PEERCLOSE")) { if (peer >= 0) { close (peer); peer = -1; } if (n < 2) pump (); finish ("OK"); }
      else if (!strcmp (a[0], "PUMP")) { pump (); finish ("OK"); }
      else if (!strcmp (a[0], "RW")) { dbus_connection_read_write (conn, 0); finish ("OK"); }
      else if (!strcmp (a[0], "DISPATCH1")) { int st = dbus_connection_dispatch (conn); ob_printf (&out, "st=%d ", st); finish ("OK"); }
      else if (!strcmp (a[0], "CALL")) cmd_call (n, a);
      else if (!strcmp (a[0], "CANCEL"))
        { int i = n > 1 ? atoi (a[1]) : -1; if (i < 0 || i >= MAX_PC || !pcs[i].p) ob_puts (&out, "ERR slot"); else { dbus_pending_call_cancel (pcs[i].p); finish ("OK"); } }
      else if (!strcmp (a[0], "BLOCK"))
        { int i = n > 1 ? atoi (a[1]) : -1; if (i < 0 || i >= MAX_PC || !pcs[i].p) ob_puts (&out, "ERR slot"); else { dbus_pending_call_block (pcs[i].p); finish ("OK"); } }
      else if (!strcmp (a[0], "UNREF"))
        { int i = n > 1 ? atoi (a[1]) : -1; if (i < 0 || i >= MAX_PC || !pcs[i].p) ob_puts (&out, "ERR slot"); else { dbus_pending_call_unref (pcs[i].p); pcs[i].p = NULL; finish ("OK"); } }
      else if (!strcmp (a[0], "ADVANCE"))
        { int fired; vclock_us += (n > 1 ? atoll (a[1]) : 0) * 1000LL; fired = fire_due_timeouts (); if (n < 3) pump (); ob_printf (&out, "fired=%d ", fired); finish ("OK"); }
      else if (!strcmp (a[0], "SEED")) { _dbus_verif_connection_set_next_serial (conn, (dbus_uint32_t) strtoul (n > 1 ? a[1] : "1", NULL, 10)); ob_puts (&out, "OK"); }
      else if (!strcmp (a[0], "SENDSIG"))
        { DBusMessage *m = dbus_message_new_signal ("/s", "s.i", "S"); dbus_uint32_t ser = 0; dbus_connection_send (conn, m, &ser); dbus_message_unref (m); pump (); ob_printf (&out, "serial=%u ", ser); finish ("OK"); }
      else if (!strcmp (a[0], "NEST")) { nest_where = n > 1 ? a[1][0] : 0; nest_mode = n > 2 ? a[2][0] : 'b'; ob_puts (&out, "OK"); }
      else if (!strcmp (a[0], "STATE")) finish ("OK");
      else if (!strcmp (a[0], "QUIT")) { ob_puts (&out, "BYE"); reply (&out); break; }
      else ob_puts (&out, "ERR unknown-command");
      reply (&out);
    }
  return 0;
}
