/* vserve — libdbus as the SERVER end of a peer-to-peer connection (C11).
 *
 * A DBusServer listens on a unix socket in the run directory; the harness
 * itself is the raw client and writes the handshake and the message stream
 * in the chunks it is told to.  The accepted DBusConnection is driven either
 * by blocking iterations only (dbus_connection_read_write_dispatch with a
 * zero timeout: the transport's do_iteration path) or by its watches
 * (dbus_watch_handle: the handle_watch path the bus uses).
 *
 *   SERVE <rwd|watch> [dir]      fresh server + client socket
 *   W <hex>                      client writes the bytes, then the server side is pumped
 *   LOG                          -> OK connected=<0|1> n=<count> log=<type:member:serial:bodyhash;...>
 *   END                          tear everything down
 */
#define _GNU_SOURCE
#include <config.h>
#include "vcommon.h"

#include <dbus/dbus.h>
#include <sys/socket.h>
#include <sys/un.h>
#include <poll.h>
#include <signal.h>

static OutBuf out, logb;
static DBusServer *server; static DBusConnection *conn; static int cli = -1; static int nmsgs; static int mode_watch;
static char sockpath[300];

#define MAXW 16
static DBusWatch *swatch[MAXW], *cwatch[MAXW];

static dbus_bool_t add_w (DBusWatch *w, void *data) { DBusWatch **tab = data; int i; for (i = 0; i < MAXW; i++) if (!tab[i]) { tab[i] = w; return TRUE; } return FALSE; }
static void rm_w (DBusWatch *w, void *data) { DBusWatch **tab = data; int i; for (i = 0; i < MAXW; i++) if (tab[i] == w) tab[i] = NULL; }
static void tog_w (DBusWatch *w, void *data) { (void) w; (void) data; }

static int handle_watches (DBusWatch **tab)
{
  int i, did = 0;
  for (i = 0; i < MAXW; i++)
    {
      DBusWatch *w = tab[i]; struct pollfd p; unsigned int fl = 0, wf;
      if (!w || !dbus_watch_get_enabled (w)) continue;
      wf = dbus_watch_get_flags (w);
      p.fd = dbus_watch_get_unix_fd (w); p.events = 0; p.revents = 0;
      if (wf & DBUS_WATCH_READABLE) p.events |= POLLIN;
      if (wf & DBUS_WATCH_WRITABLE) p.events |= POLLOUT;
      if (poll (&p, 1, 0) <= 0) continue;
      if (p.revents & POLLIN) fl |= DBUS_WATCH_READABLE;
      if (p.revents & POLLOUT) fl |= DBUS_WATCH_WRITABLE;
      if (p.revents & POLLHUP) fl |= DBUS_WATCH_HANGUP;
      if (p.revents & POLLERR) fl |= DBUS_WATCH_ERROR;
      if (fl) { dbus_watch_handle (w, fl); did = 1; }
    }
  return did;
}

static unsigned body_hash (DBusMessage *m)
{
  char *buf = NULL; int len = 0, i; unsigned h = 2166136261u;
  if (!dbus_message_marshal (m, &buf, &len)) return 0;
  for (i = 16; i < len; i++) { h ^= (unsigned char) buf[i]; h *= 16777619u; }
  dbus_free (buf);
  return h;
}

static DBusHandlerResult filter_fn (DBusConnection *c, DBusMessage *m, void *data)
{
  (void) c; (void) data;
  if (dbus_message_is_signal (m, "org.freedesktop.DBus.Local", "Disconnected")) { ob_puts (&logb, "DISCONNECTED;"); return DBUS_HANDLER_RESULT_HANDLED; }
  nmsgs++;
  ob_printf (&logb, "%d:%s:%u:%08x;", dbus_message_get_type (m), dbus_message_get_member (m) ? dbus_message_get_member (m) : "-", dbus_message_get_serial (m), body_hash (m));
  /* method calls are left to libdbus, which answers them with an error: the reader then has something to WRITE to this peer */
  return dbus_message_get_type (m) == DBUS_MESSAGE_TYPE_METHOD_CALL ? DBUS_HANDLER_RESULT_NOT_YET_HANDLED : DBUS_HANDLER_RESULT_HANDLED;
}

static dbus_bool_t allow_user (DBusConnection *c, unsigned long uid, void *data) { (void) c; (void) uid; (void) data; return TRUE; }

static void new_conn (DBusServer *s, DBusConnection *c, void *data)
{
  (void) s; (void) data;
  if (conn) return;
  conn = dbus_connection_ref (c);
  dbus_connection_set_exit_on_disconnect (c, FALSE);
  dbus_connection_set_unix_user_function (c, allow_user, NULL, NULL);
  dbus_connection_set_allow_anonymous (c, TRUE);
  dbus_connection_add_filter (c, filter_fn, NULL, NULL);
  if (mode_watch) dbus_connection_set_watch_functions (c, add_w, rm_w, tog_w, cwatch, NULL);
}

static void teardown (void)
{
  if (cli >= 0) { close (cli); cli = -1; }
  if (conn) { dbus_connection_close (conn); while (dbus_connection_dispatch (conn) == DBUS_DISPATCH_DATA_REMAINS) {} dbus_connection_unref (conn); conn = NULL; }
  if (server) { dbus_server_disconnect (server); dbus_server_unref (server); server = NULL; }
  memset (swatch, 0, sizeof swatch); memset (cwatch, 0, sizeof cwatch);
  if (sockpath[0]) unlink (sockpath);
}

static void pump (void)
{
  int i;
  if (!conn) { for (i = 0; i < 4 && !conn; i++) handle_watches (swatch); }
  if (!conn) return;
  {
    int idle = 0, fd = -1;
    dbus_connection_get_unix_fd (conn, &fd);
    for (i = 0; i < 4000 && idle < 2; i++)
      {
        struct pollfd p; int readable;
        if (mode_watch)
          {
            handle_watches (cwatch);
            while (dbus_connection_get_dispatch_status (conn) == DBUS_DISPATCH_DATA_REMAINS) dbus_connection_dispatch (conn);
          }
        else if (!dbus_connection_read_write_dispatch (conn, 0)) break;
        p.fd = fd; p.events = POLLIN; p.revents = 0;
        readable = fd >= 0 && dbus_connection_get_is_connected (conn) && poll (&p, 1, 0) > 0 && (p.revents & POLLIN);
        if (!readable && dbus_connection_get_dispatch_status (conn) == DBUS_DISPATCH_COMPLETE) idle++; else idle = 0;
      }
  }
  /* drain what the server wrote to the client (OK, AGREE_UNIX_FD ...) so that nothing ever blocks */
  { unsigned char tmp[4096]; while (cli >= 0 && recv (cli, tmp, sizeof tmp, MSG_DONTWAIT) > 0) {} }
}

static void cmd_serve (int argc, char **argv)
{
  char addr[400]; DBusError err; struct sockaddr_un sa; const char *dir = argc > 2 ? argv[2] : ".";
  teardown ();
  ob_reset (&logb); nmsgs = 0;
  mode_watch = argc > 1 && !strcmp (argv[1], "watch");
  snprintf (sockpath, sizeof sockpath, "%s/serve-%d.sock", dir, (int) getpid ());
  unlink (sockpath);
  snprintf (addr, sizeof addr, "unix:path=%s", sockpath);
  dbus_error_init (&err);
  server = dbus_server_listen (addr, &err);
  if (!server) { ob_printf (&out, "ERR listen %s", err.message); dbus_error_free (&err); return; }
  dbus_server_set_new_connection_function (server, new_conn, NULL, NULL);
  dbus_server_set_watch_functions (server, add_w, rm_w, tog_w, swatch, NULL);
  memset (&sa, 0, sizeof sa); sa.sun_family = AF_UNIX; strncpy (sa.sun_path, sockpath, sizeof sa.sun_path - 1);
  cli = socket (AF_UNIX, SOCK_STREAM | SOCK_CLOEXEC, 0);
  if (connect (cli, (struct sockaddr *) &sa, sizeof sa) < 0) { ob_printf (&out, "ERR connect %s", strerror (errno)); return; }
  pump ();
  ob_printf (&out, "OK accepted=%d", conn != NULL);
}

/* W <hex> : write, then let the server side run.  WCLOSE <hex> : write everything, close the client end, and only THEN let the
 * server side run (it finds data and the hang-up at the same time). */
static void cmd_w (int argc, char **argv)
{
  size_t n, off = 0; unsigned char *buf; int then_close = !strcmp (argv[0], "WCLOSE");
  if (argc < 2 || cli < 0 || !(buf = unhex (argv[1], &n))) { ob_puts (&out, "ERR badargs"); return; }
  while (off < n)
    {
      ssize_t r = send (cli, buf + off, n - off, MSG_NOSIGNAL | MSG_DONTWAIT);
      if (r > 0) { off += (size_t) r; continue; }
      if (r < 0 && (errno == EAGAIN || errno == EWOULDBLOCK) && !then_close) { pump (); continue; }
      break;
    }
  free (buf);
  if (then_close) { close (cli); cli = -1; }
  pump ();
  ob_printf (&out, "OK wrote=%zu n=%d", off, nmsgs);
}

int main (void)
{
  char *line;
  signal (SIGPIPE, SIG_IGN);
  setvbuf (stdout, NULL, _IOFBF, 1 << 16);
  while ((line = read_line ()))
    {
      char *a[8]; int n;
      ob_reset (&out);
      n = split_args (line, a, 8);
      if (n == 0) { ob_puts (&out, "ERR empty"); reply (&out); continue; }
      if (!strcmp (a[0], "SERVE")) cmd_serve (n, a);
      else if (!strcmp (a[0], "W") || !strcmp (a[0], "WCLOSE")) cmd_w (n, a);
      else if (!strcmp (a[0], "LOG")) { pump (); ob_printf (&out, "OK connected=%d n=%d log=%s", conn ? (int) dbus_connection_get_is_connected (conn) : -1, nmsgs, logb.len ? logb.s : "-"); }
      else if (!strcmp (a[0], "END")) { teardown (); ob_puts (&out, "OK"); }
      else if (!strcmp (a[0], "QUIT")) { teardown (); ob_puts (&out, "BYE"); reply (&out); break; }
      else ob_puts (&out, "ERR unknown-command");
      reply (&out);
    }
  return 0;
}
