/* vbox — command server over stdin/stdout driving the REAL dbus code.
 *
 * Two faces:
 *   library face: DEMARSHAL, LOADER, LOADERCUTS, BUILD, EDIT, VALENUM, VALIDATE
 *   bus face    : RESET, CONNECT, RAWCONNECT, SEND, PUMP, RECV, RECVALL, STEP,
 *                 CLOSE, ADVANCE, DUMP, FAILALLOC, BLOCKS, FDCOUNT, MKFD, SOCKBUF
 *
 * One request line -> one response line.  Binary data travels as hex.
 * The Python side (pyv/) owns all enumeration and all oracles.
 */
#define _GNU_SOURCE
#include <config.h>
#include "vcommon.h"

#include <dbus/dbus.h>
#include <dbus/dbus-internals.h>
#include <dbus/dbus-string.h>
#include <dbus/dbus-message-internal.h>
#include <dbus/dbus-message-private.h>
#include <dbus/dbus-marshal-validate.h>
#include <dbus/dbus-mainloop.h>
#include <dbus/dbus-sysdeps.h>
#include <dbus/dbus-signature.h>
#include <bus/bus.h>
#include <bus/connection.h>
#include <bus/services.h>
#include <bus/signals.h>
#include <bus/activation.h>

#include <sys/socket.h>
#include <sys/un.h>
#include <netinet/in.h>
#include <arpa/inet.h>
#include <sys/stat.h>
#include <sys/types.h>
#include <fcntl.h>
#include <dirent.h>
#include <signal.h>

/* hooks (guarded by DBUS_VERIF in /repo) */
extern dbus_bool_t bus_verif_unique_name_seed_pending;
extern int bus_verif_unique_name_seed_major, bus_verif_unique_name_seed_minor;
dbus_bool_t bus_verif_dump_registry (BusRegistry *registry, DBusString *out);
dbus_bool_t bus_verif_dump_connections (BusConnections *connections, DBusString *out);
dbus_bool_t bus_verif_dump_matchmaker (BusMatchmaker *matchmaker, const char *tag, DBusString *out);
dbus_bool_t bus_verif_dump_activation (BusActivation *activation, DBusString *out);

static OutBuf out;

/* ------------------------------------------------------------------ */
/* canonical message text                                              */

static void canon_str_field (OutBuf *o, const char *name, const char *v)
{
  ob_printf (o, " %s", name);
  if (v == NULL) ob_putc (o, '-');
  else { ob_putc (o, '='); ob_hex (o, (const unsigned char *) v, strlen (v)); }
}

static int n_fixed_mismatch;
static int fixed_size_of_code (int code)
{
  switch (code) { case 'y': return 1; case 'n': case 'q': return 2; case 'b': case 'i': case 'u': return 4; case 'x': case 't': case 'd': return 8; }
  return 0;
}

static void canon_iter (DBusMessageIter *it, OutBuf *o)
{
  int t, first = 1;
  while ((t = dbus_message_iter_get_arg_type (it)) != DBUS_TYPE_INVALID)
    {
      if (!first) ob_putc (o, ',');
      first = 0;
      switch (t)
        {
        case DBUS_TYPE_BYTE: { unsigned char v; dbus_message_iter_get_basic (it, &v); ob_printf (o, "y:%u", v); break; }
        case DBUS_TYPE_BOOLEAN: { dbus_bool_t v; dbus_message_iter_get_basic (it, &v); ob_printf (o, "b:%u", v); break; }
        case DBUS_TYPE_INT16: { dbus_int16_t v; dbus_message_iter_get_basic (it, &v); ob_printf (o, "n:%d", v); break; }
        case DBUS_TYPE_UINT16: { dbus_uint16_t v; dbus_message_iter_get_basic (it, &v); ob_printf (o, "q:%u", v); break; }
        case DBUS_TYPE_INT32: { dbus_int32_t v; dbus_message_iter_get_basic (it, &v); ob_printf (o, "i:%d", v); break; }
        case DBUS_TYPE_UINT32: { dbus_uint32_t v; dbus_message_iter_get_basic (it, &v); ob_printf (o, "u:%u", v); break; }
        case DBUS_TYPE_INT64: { dbus_int64_t v; dbus_message_iter_get_basic (it, &v); ob_printf (o, "x:%lld", (long long) v); break; }
        case DBUS_TYPE_UINT64: { dbus_uint64_t v; dbus_message_iter_get_basic (it, &v); ob_printf (o, "t:%llu", (unsigned long long) v); break; }
        case DBUS_TYPE_DOUBLE: { union { double d; dbus_uint64_t u; } v; dbus_message_iter_get_basic (it, &v.d); ob_printf (o, "d:%016llx", (unsigned long long) v.u); break; }
        case DBUS_TYPE_UNIX_FD:
          { int v = -2; dbus_message_iter_get_basic (it, &v); if (v >= 0) close (v); ob_puts (o, "h:?"); break; }
        case DBUS_TYPE_STRING: case DBUS_TYPE_OBJECT_PATH: case DBUS_TYPE_SIGNATURE:
          { const char *v = NULL; dbus_message_iter_get_basic (it, &v); ob_printf (o, "%c:", t); ob_hex (o, (const unsigned char *) v, strlen (v)); break; }
        case DBUS_TYPE_VARIANT:
          {
            DBusMessageIter sub; char *sig;
            dbus_message_iter_recurse (it, &sub);
            sig = dbus_message_iter_get_signature (&sub);
            ob_printf (o, "v:%s=", sig ? sig : "=OOM");
            dbus_free (sig);
            canon_iter (&sub, o);
            break;
          }
        case DBUS_TYPE_ARRAY:
          {
            DBusMessageIter sub; char *sig; int et;
            dbus_message_iter_recurse (it, &sub);
            sig = dbus_message_iter_get_signature (&sub);
            ob_printf (o, "a%s[", sig ? sig : "=OOM");
            dbus_free (sig);
            et = dbus_message_iter_get_element_type (it);
            if (dbus_type_is_fixed (et) && et != DBUS_TYPE_UNIX_FD)
              {
                /* cross-check the two read paths: element-wise vs fixed-array */
                DBusMessageIter sub2; const void *data = NULL; int n = -1; int cnt;
                size_t before = o->len;
                dbus_message_iter_recurse (it, &sub2);
                dbus_message_iter_get_fixed_array (&sub2, &data, &n);
                cnt = dbus_message_iter_get_element_count (it);
                canon_iter (&sub, o);
                {
                  /* count commas+1 in what element-wise printed */
                  int elems = 0; size_t k;
                  if (o->len > before) { elems = 1; for (k = before; k < o->len; k++) if (o->s[k] == ',') elems++; }
                  if (elems != n || elems != cnt) n_fixed_mismatch++;
                  else if (n > 0)
                    {
                      /* compare raw element bytes with the element-wise values by re-printing */
                      OutBuf t2 = { 0 }; int i; int sz = 0;
                      switch (et) { case DBUS_TYPE_BYTE: sz = 1; break; case DBUS_TYPE_INT16: case DBUS_TYPE_UINT16: sz = 2; break;
                        case DBUS_TYPE_BOOLEAN: case DBUS_TYPE_INT32: case DBUS_TYPE_UINT32: sz = 4; break; default: sz = 8; }
                      for (i = 0; i < n; i++)
                        {
                          const unsigned char *p = (const unsigned char *) data + (size_t) i * sz;
                          if (i) ob_putc (&t2, ',');
                          switch (et)
                            {
                            case DBUS_TYPE_BYTE: ob_printf (&t2, "y:%u", *p); break;
                            case DBUS_TYPE_BOOLEAN: { dbus_uint32_t v; memcpy (&v, p, 4); ob_printf (&t2, "b:%u", v); break; }
                            case DBUS_TYPE_INT16: { dbus_int16_t v; memcpy (&v, p, 2); ob_printf (&t2, "n:%d", v); break; }
                            case DBUS_TYPE_UINT16: { dbus_uint16_t v; memcpy (&v, p, 2); ob_printf (&t2, "q:%u", v); break; }
                            case DBUS_TYPE_INT32: { dbus_int32_t v; memcpy (&v, p, 4); ob_printf (&t2, "i:%d", v); break; }
                            case DBUS_TYPE_UINT32: { dbus_uint32_t v; memcpy (&v, p, 4); ob_printf (&t2, "u:%u", v); break; }
                            case DBUS_TYPE_INT64: { dbus_int64_t v; memcpy (&v, p, 8); ob_printf (&t2, "x:%lld", (long long) v); break; }
                            case DBUS_TYPE_UINT64: { dbus_uint64_t v; memcpy (&v, p, 8); ob_printf (&t2, "t:%llu", (unsigned long long) v); break; }
                            default: { dbus_uint64_t v; memcpy (&v, p, 8); ob_printf (&t2, "d:%016llx", (unsigned long long) v); break; }
                            }
                        }
                      if (t2.len != o->len - before || memcmp (t2.s, o->s + before, t2.len) != 0) n_fixed_mismatch++;
                      free (t2.s);
                      /* the block read from a position other than the first element: after k steps it is the last n-k elements */
                      if (n >= 2)
                        {
                          int ks[2], ki; ks[0] = 1; ks[1] = n - 1;
                          for (ki = 0; ki < 2; ki++)
                            {
                              DBusMessageIter sub3; const void *d3 = NULL; int n3 = -1, j;
                              dbus_message_iter_recurse (it, &sub3);
                              for (j = 0; j < ks[ki]; j++) dbus_message_iter_next (&sub3);
                              dbus_message_iter_get_fixed_array (&sub3, &d3, &n3);
                              if (n3 != n - ks[ki] || (const unsigned char *) d3 != (const unsigned char *) data + (size_t) ks[ki] * sz) n_fixed_mismatch++;
                            }
                        }
                    }
                }
              }
            else
              canon_iter (&sub, o);
            ob_putc (o, ']');
            break;
          }
        case DBUS_TYPE_STRUCT:
          { DBusMessageIter sub; dbus_message_iter_recurse (it, &sub); ob_putc (o, '('); canon_iter (&sub, o); ob_putc (o, ')'); break; }
        case DBUS_TYPE_DICT_ENTRY:
          { DBusMessageIter sub; dbus_message_iter_recurse (it, &sub); ob_putc (o, '{'); canon_iter (&sub, o); ob_putc (o, '}'); break; }
        default:
          ob_printf (o, "?%d", t);
        }
      {
        /* dbus_message_iter_has_next() must say what the step itself then finds */
        dbus_bool_t hn = dbus_message_iter_has_next (it), stepped = dbus_message_iter_next (it);
        if (!hn != !stepped || !stepped != (dbus_message_iter_get_arg_type (it) == DBUS_TYPE_INVALID)) n_fixed_mismatch++;
      }
    }
}

/* ---- the varargs read path: dbus_message_get_args() on bodies it can express ---------------------------------
 * A body is "flat" if every top-level argument is a basic value (no unix fd) or an array of fixed-size basic values
 * or of strings/object paths/signatures, and there are at most 8 of them.  Such a body is read a second time with
 * dbus_message_get_args() and rendered like canon_iter() renders it; any difference is counted.  The variable
 * argument list is passed as machine words (type codes and pointers only), which is what the x86-64 calling
 * convention does with them anyway. */
static int n_getargs_mismatch;
#define FLAT_MAX 8
static int flat_sig (const char *sig, char kinds[FLAT_MAX][2])
{
  int n = 0;
  while (*sig)
    {
      if (n == FLAT_MAX) return -1;
      if (*sig == 'a')
        {
          if (!sig[1] || !strchr ("ybnqiuxtdsog", sig[1])) return -1;
          kinds[n][0] = 'a'; kinds[n][1] = sig[1]; sig += 2;
        }
      else
        {
          if (!strchr ("ybnqiuxtdsog", *sig)) return -1;
          kinds[n][0] = *sig; kinds[n][1] = 0; sig += 1;
        }
      n++;
    }
  return n;
}

static void render_basic (OutBuf *o, int t, const void *p)
{
  switch (t)
    {
    case 'y': ob_printf (o, "y:%u", *(const unsigned char *) p); break;
    case 'b': { dbus_uint32_t v; memcpy (&v, p, 4); ob_printf (o, "b:%u", v); break; }
    case 'n': { dbus_int16_t v; memcpy (&v, p, 2); ob_printf (o, "n:%d", v); break; }
    case 'q': { dbus_uint16_t v; memcpy (&v, p, 2); ob_printf (o, "q:%u", v); break; }
    case 'i': { dbus_int32_t v; memcpy (&v, p, 4); ob_printf (o, "i:%d", v); break; }
    case 'u': { dbus_uint32_t v; memcpy (&v, p, 4); ob_printf (o, "u:%u", v); break; }
    case 'x': { dbus_int64_t v; memcpy (&v, p, 8); ob_printf (o, "x:%lld", (long long) v); break; }
    case 't': { dbus_uint64_t v; memcpy (&v, p, 8); ob_printf (o, "t:%llu", (unsigned long long) v); break; }
    case 'd': { dbus_uint64_t v; memcpy (&v, p, 8); ob_printf (o, "d:%016llx", (unsigned long long) v); break; }
    case 's': case 'o': case 'g':
      { const char *v = *(const char * const *) p; ob_printf (o, "%c:", t); if (v) ob_hex (o, (const unsigned char *) v, strlen (v)); else ob_puts (o, "NULL"); break; }
    }
}

/* returns 0 = not applicable, 1 = agrees, 2 = differs, 3 = get_args reported out-of-memory */
static int getargs_crosscheck (DBusMessage *m, const char *body_text, size_t body_len)
{
  char kinds[FLAT_MAX][2]; long W[4 * FLAT_MAX + 2]; int nw = 0, n, i, res;
  union { dbus_uint64_t u; const char *s; unsigned char b[8]; } val[FLAT_MAX];
  void *arr[FLAT_MAX]; int cnt[FLAT_MAX]; DBusError err; OutBuf o = { 0 };
  const char *sig = dbus_message_get_signature (m);
  if (!sig || !*sig) return 0;
  n = flat_sig (sig, kinds);
  if (n <= 0) return 0;
  memset (val, 0, sizeof val); memset (arr, 0, sizeof arr); memset (cnt, 0, sizeof cnt);
  for (i = 0; i < n; i++)
    {
      if (kinds[i][0] == 'a') { W[nw++] = DBUS_TYPE_ARRAY; W[nw++] = kinds[i][1]; W[nw++] = (long) &arr[i]; W[nw++] = (long) &cnt[i]; }
      else { W[nw++] = kinds[i][0]; W[nw++] = (long) &val[i]; }
    }
  while (nw < 4 * FLAT_MAX + 2) W[nw++] = DBUS_TYPE_INVALID;
  dbus_error_init (&err);
  if (!dbus_message_get_args (m, &err, (int) W[0], W[1], W[2], W[3], W[4], W[5], W[6], W[7], W[8], W[9], W[10], W[11], W[12], W[13], W[14], W[15], W[16],
                              W[17], W[18], W[19], W[20], W[21], W[22], W[23], W[24], W[25], W[26], W[27], W[28], W[29], W[30], W[31], W[32], W[33]))
    {
      res = dbus_error_has_name (&err, DBUS_ERROR_NO_MEMORY) ? 3 : 2;
      dbus_error_free (&err);
      return res;
    }
  for (i = 0; i < n; i++)
    {
      if (i) ob_putc (&o, ',');
      if (kinds[i][0] != 'a') { render_basic (&o, kinds[i][0], &val[i]); continue; }
      ob_printf (&o, "a%c[", kinds[i][1]);
      {
        int k, sz = fixed_size_of_code (kinds[i][1]);
        for (k = 0; k < cnt[i]; k++)
          {
            if (k) ob_putc (&o, ',');
            if (sz) render_basic (&o, kinds[i][1], (const unsigned char *) arr[i] + (size_t) k * (size_t) sz);
            else render_basic (&o, kinds[i][1], &((char **) arr[i])[k]);
          }
        if (!sz) dbus_free_string_array ((char **) arr[i]);
      }
      ob_putc (&o, ']');
    }
  res = (o.len == body_len && (body_len == 0 || memcmp (o.s, body_text, body_len) == 0)) ? 1 : 2;
  if (res == 2) fprintf (stderr, "getargs: iterator view [%.*s] get_args view [%.*s]\n", (int) body_len, body_text, (int) o.len, o.s ? o.s : "");
  free (o.s);
  return res;
}

static void canon_msg (DBusMessage *m, OutBuf *o)
{
  DBusMessageIter it;
  ob_printf (o, "T=%d F=%d S=%u", dbus_message_get_type (m),
             _dbus_string_get_byte (&m->header.data, 2), dbus_message_get_serial (m));
  canon_str_field (o, "path", dbus_message_get_path (m));
  canon_str_field (o, "iface", dbus_message_get_interface (m));
  canon_str_field (o, "member", dbus_message_get_member (m));
  canon_str_field (o, "errname", dbus_message_get_error_name (m));
  canon_str_field (o, "dest", dbus_message_get_destination (m));
  canon_str_field (o, "sender", dbus_message_get_sender (m));
  ob_printf (o, " rserial=%u sig=%s", dbus_message_get_reply_serial (m), dbus_message_get_signature (m));
  canon_str_field (o, "cinst", dbus_message_get_container_instance (m));
  ob_puts (o, " body=[");
  {
    size_t at = o->len; int r;
    if (dbus_message_iter_init (m, &it))
      canon_iter (&it, o);
    r = getargs_crosscheck (m, o->s ? o->s + at : "", o->len - at);
    if (r == 2) n_getargs_mismatch++;
    ob_putc (o, ']');
    if (r == 3) ob_puts (o, " getargs=OOM");
  }
}

static void marshal_hex (DBusMessage *m, OutBuf *o)
{
  char *data = NULL; int len = 0;
  if (!dbus_message_marshal (m, &data, &len)) { ob_puts (o, "OOM"); return; }
  if (len == 0) ob_putc (o, '-');
  ob_hex (o, (unsigned char *) data, (size_t) len);
  dbus_free (data);
}

/* ------------------------------------------------------------------ */
/* DEMARSHAL <hex>                                                      */

static void loader_feed (DBusMessageLoader *l, const unsigned char *p, size_t n)
{
  DBusString *buffer;
  _dbus_message_loader_get_buffer (l, &buffer, NULL, NULL);
  if (!_dbus_string_append_len (buffer, (const char *) p, (int) n)) { fprintf (stderr, "harness: oom feeding loader\n"); _exit (3); }
  _dbus_message_loader_return_buffer (l, buffer);
}

static void cmd_demarshal (int argc, char **argv)
{
  size_t n; unsigned char *buf; DBusError err; DBusMessage *m; int needed;
  DBusMessageLoader *l; int popped = 0; OutBuf c1 = { 0 }, c2 = { 0 };
  if (argc < 2 || !(buf = unhex (argv[1], &n))) { ob_puts (&out, "ERR badargs"); return; }
  needed = dbus_message_demarshal_bytes_needed ((const char *) buf, (int) n);
  ob_printf (&out, "needed=%d", needed);
  dbus_error_init (&err);
  n_fixed_mismatch = 0; n_getargs_mismatch = 0;
  m = dbus_message_demarshal ((const char *) buf, (int) n, &err);
  if (m && argc > 2 && !strcmp (argv[2], "nocanon"))
    {
      ob_puts (&out, " dm=1");
      dbus_message_unref (m);
    }
  else if (m)
    {
      ob_puts (&out, " dm=1 re0=");
      marshal_hex (m, &out);
      canon_msg (m, &c1);
      ob_puts (&out, " re=");
      marshal_hex (m, &out);
      dbus_message_unref (m);
    }
  else
    {
      ob_printf (&out, " dm=0 dmerr=%s", err.name ? err.name : "?");
      dbus_error_free (&err);
    }
  /* the same bytes through a loader */
  l = _dbus_message_loader_new ();
  loader_feed (l, buf, n);
  if (!_dbus_message_loader_queue_messages (l)) ob_puts (&out, " ldoom=1");
  while ((m = _dbus_message_loader_pop_message (l)))
    {
      if (popped == 0 && !(argc > 2 && !strcmp (argv[2], "nocanon"))) canon_msg (m, &c2);
      popped++;
      dbus_message_unref (m);
    }
  ob_printf (&out, " ld=%d:%d:%d", popped, _dbus_message_loader_get_is_corrupted (l),
             (int) _dbus_message_loader_get_corruption_reason (l));
  _dbus_message_loader_unref (l);
  ob_printf (&out, " fixedmismatch=%d getargsmismatch=%d", n_fixed_mismatch, n_getargs_mismatch);
  if (c1.len && c2.len) ob_printf (&out, " ldsame=%d", c1.len == c2.len && memcmp (c1.s, c2.s, c1.len) == 0);
  if (c1.len) { ob_puts (&out, " canon="); ob_puts (&out, c1.s); }
  else if (c2.len) { ob_puts (&out, " ldcanon="); ob_puts (&out, c2.s); }
  free (c1.s); free (c2.s); free (buf);
}

/* ------------------------------------------------------------------ */
/* LOADER <hex> <cut,cut,...|-> [hint]  : feed in chunks, report per chunk */

typedef struct { OutBuf sig; int nmsgs; int corrupt_at; } LoaderTrace;

/* Feed buf split at the given sorted cut positions; append to tr->sig a
 * trace "m@<chunk>:<hex>;" per popped message and "X@<chunk>:<reason>;" when
 * corruption is first seen.  If compact, the chunk index is left out (so that
 * traces of different partitions can be compared for equality). */
static void run_loader (const unsigned char *buf, size_t n, const size_t *cuts, int ncuts,
                        int respect_hint, int compact, LoaderTrace *tr)
{
  DBusMessageLoader *l = _dbus_message_loader_new ();
  size_t pos = 0; int chunk = 0, ci = 0; DBusMessage *m;
  tr->nmsgs = 0; tr->corrupt_at = -1;
  while (pos < n || (n == 0 && chunk == 0))
    {
      size_t end = (ci < ncuts) ? cuts[ci++] : n;
      if (end > n) end = n;
      if (end < pos) end = pos;
      while (pos < end || (pos == end && end == n && n == 0))
        {
          size_t take = end - pos;
          DBusString *buffer; int max_to_read = 0; dbus_bool_t may_fds = FALSE;
          _dbus_message_loader_get_buffer (l, &buffer, &max_to_read, &may_fds);
          if (respect_hint && max_to_read > 0 && (size_t) max_to_read < take) take = (size_t) max_to_read;
          if (!_dbus_string_append_len (buffer, (const char *) buf + pos, (int) take)) _exit (3);
          _dbus_message_loader_return_buffer (l, buffer);
          pos += take;
          if (!_dbus_message_loader_queue_messages (l)) ob_puts (&tr->sig, "OOM;");
          while ((m = _dbus_message_loader_pop_message (l)))
            {
              if (compact) ob_puts (&tr->sig, "m:"); else ob_printf (&tr->sig, "m@%d:", chunk);
              marshal_hex (m, &tr->sig);
              ob_putc (&tr->sig, ';');
              tr->nmsgs++;
              dbus_message_unref (m);
            }
          if (tr->corrupt_at < 0 && _dbus_message_loader_get_is_corrupted (l))
            {
              tr->corrupt_at = (int) pos;
              if (compact) ob_puts (&tr->sig, "X;");
              else ob_printf (&tr->sig, "X@%d:%d;", chunk, (int) _dbus_message_loader_get_corruption_reason (l));
            }
          if (n == 0) break;
        }
      chunk++;
      if (n == 0) break;
    }
  _dbus_message_loader_unref (l);
}

static void cmd_loader (int argc, char **argv)
{
  size_t n; unsigned char *buf; size_t cuts[256]; int ncuts = 0; LoaderTrace tr = { { 0 } };
  if (argc < 3 || !(buf = unhex (argv[1], &n))) { ob_puts (&out, "ERR badargs"); return; }
  if (strcmp (argv[2], "-") != 0)
    {
      char *p = argv[2];
      while (*p && ncuts < 256) { cuts[ncuts++] = strtoul (p, &p, 10); if (*p == ',') p++; }
    }
  run_loader (buf, n, cuts, ncuts, argc > 3 && atoi (argv[3]), 0, &tr);
  ob_printf (&out, "nmsgs=%d corrupt_at=%d trace=%s", tr.nmsgs, tr.corrupt_at, tr.sig.s ? tr.sig.s : "");
  free (tr.sig.s); free (buf);
}

/* LOADERCUTS <hex> <k> <hint> : enumerate EVERY partition with <= k cuts plus the
 * byte-at-a-time partition and "single cut then byte-at-a-time"; compare each
 * compact trace with the unsplit one.  Reports runs and the first mismatch. */
static void cmd_loadercuts (int argc, char **argv)
{
  size_t n; unsigned char *buf; int k, hint; LoaderTrace ref = { { 0 } }; long runs = 0, mism = 0;
  size_t cuts[8]; char first[256] = "";
  if (argc < 4 || !(buf = unhex (argv[1], &n))) { ob_puts (&out, "ERR badargs"); return; }
  k = atoi (argv[2]); hint = atoi (argv[3]);
  if (k > 3) k = 3;
  run_loader (buf, n, NULL, 0, hint, 1, &ref);
#define TRY(nc, desc_fmt, ...) do { LoaderTrace t = { { 0 } }; run_loader (buf, n, cuts, nc, hint, 1, &t); runs++; \
      if (t.sig.len != ref.sig.len || (t.sig.len && memcmp (t.sig.s, ref.sig.s, t.sig.len)) || t.nmsgs != ref.nmsgs) \
        { if (!mism) snprintf (first, sizeof first, desc_fmt, __VA_ARGS__); mism++; } free (t.sig.s); } while (0)
  if (k >= 1) for (size_t a = 1; a < n; a++) { cuts[0] = a; TRY (1, "%zu", a); }
  if (k >= 2) for (size_t a = 1; a < n; a++) for (size_t b = a + 1; b < n; b++) { cuts[0] = a; cuts[1] = b; TRY (2, "%zu,%zu", a, b); }
  if (k >= 3) for (size_t a = 1; a < n; a++) for (size_t b = a + 1; b < n; b++) for (size_t c = b + 1; c < n; c++)
    { cuts[0] = a; cuts[1] = b; cuts[2] = c; TRY (3, "%zu,%zu,%zu", a, b, c); }
  /* byte at a time, and single cut followed by byte-at-a-time */
  if (n > 1 && n <= 4096)
    {
      size_t *all = malloc (sizeof (size_t) * n);
      for (size_t a = 0; a < n; a++)
        {
          int nc = 0; LoaderTrace t = { { 0 } };
          if (a > 0) all[nc++] = a;
          for (size_t b = a + 1; b < n; b++) all[nc++] = b;
          run_loader (buf, n, all, nc, hint, 1, &t); runs++;
          if (t.sig.len != ref.sig.len || (t.sig.len && memcmp (t.sig.s, ref.sig.s, t.sig.len)) || t.nmsgs != ref.nmsgs)
            { if (!mism) snprintf (first, sizeof first, "bytewise-after-%zu", a); mism++; }
          free (t.sig.s);
        }
      free (all);
    }
  ob_printf (&out, "runs=%ld mismatches=%ld first=%s ref_nmsgs=%d ref_corrupt_at=%d ref=%s", runs, mism, first[0] ? first : "-",
             ref.nmsgs, ref.corrupt_at, ref.sig.s ? ref.sig.s : "");
  free (ref.sig.s); free (buf);
}

/* ------------------------------------------------------------------ */
/* canonical text parser -> iterator appends (BUILD)                    */

typedef struct { const char *p; int fixed_arrays; int err; } Parser;

static int parse_value (Parser *ps, DBusMessageIter *it);

static unsigned char *parse_hex_until (Parser *ps, const char *stops, size_t *n)
{
  const char *s = ps->p; size_t l, i; unsigned char *b;
  while (*ps->p && !strchr (stops, *ps->p)) ps->p++;
  l = (size_t) (ps->p - s);
  b = malloc (l / 2 + 1);
  for (i = 0; i < l / 2; i++) b[i] = (unsigned char) (hexval (s[2 * i]) * 16 + hexval (s[2 * i + 1]));
  b[l / 2] = 0;
  *n = l / 2;
  return b;
}

static int parse_basic_into (Parser *ps, int code, void *dst /* >= 8 bytes */, char **strp)
{
  char *end;
  *strp = NULL;
  switch (code)
    {
    case 'y': *(unsigned char *) dst = (unsigned char) strtoul (ps->p, &end, 10); ps->p = end; return 1;
    case 'b': *(dbus_bool_t *) dst = (dbus_bool_t) strtoul (ps->p, &end, 10); ps->p = end; return 1;
    case 'n': *(dbus_int16_t *) dst = (dbus_int16_t) strtol (ps->p, &end, 10); ps->p = end; return 1;
    case 'q': *(dbus_uint16_t *) dst = (dbus_uint16_t) strtoul (ps->p, &end, 10); ps->p = end; return 1;
    case 'i': *(dbus_int32_t *) dst = (dbus_int32_t) strtol (ps->p, &end, 10); ps->p = end; return 1;
    case 'u': *(dbus_uint32_t *) dst = (dbus_uint32_t) strtoul (ps->p, &end, 10); ps->p = end; return 1;
    case 'h': *(int *) dst = (int) strtol (ps->p, &end, 10); ps->p = end; return 1;
    case 'x': *(dbus_int64_t *) dst = (dbus_int64_t) strtoll (ps->p, &end, 10); ps->p = end; return 1;
    case 't': *(dbus_uint64_t *) dst = (dbus_uint64_t) strtoull (ps->p, &end, 10); ps->p = end; return 1;
    case 'd': *(dbus_uint64_t *) dst = (dbus_uint64_t) strtoull (ps->p, &end, 16); ps->p = end; return 1;
    case 's': case 'o': case 'g':
      { size_t n; *strp = (char *) parse_hex_until (ps, ",])}", &n); *(char **) dst = *strp; return 1; }
    }
  return 0;
}

static int fixed_size_of (int code)
{
  switch (code) { case 'y': return 1; case 'n': case 'q': return 2; case 'b': case 'i': case 'u': return 4;
    case 'x': case 't': case 'd': return 8; }
  return 0;
}

static int parse_value (Parser *ps, DBusMessageIter *it)
{
  char c = *ps->p;
  if (c == 'a')
    {
      char esig[300]; size_t l = 0; DBusMessageIter sub;
      ps->p++;
      while (*ps->p && *ps->p != '[' && l < sizeof esig - 1) esig[l++] = *ps->p++;
      esig[l] = 0;
      if (*ps->p != '[') return 0;
      ps->p++;
      if (!dbus_message_iter_open_container (it, DBUS_TYPE_ARRAY, esig, &sub)) return 0;
      if (ps->fixed_arrays && l == 1 && fixed_size_of (esig[0]))
        {
          /* collect elements, append with append_fixed_array */
          int sz = fixed_size_of (esig[0]); size_t cap = 16, n = 0; unsigned char *arr = malloc (cap * 8);
          while (*ps->p && *ps->p != ']')
            {
              char *str; dbus_uint64_t tmp = 0;
              if (ps->p[0] != esig[0] || ps->p[1] != ':') { free (arr); return 0; }
              ps->p += 2;
              parse_basic_into (ps, esig[0], &tmp, &str);
              if (n == cap) { cap *= 2; arr = realloc (arr, cap * 8); }
              memcpy (arr + n * (size_t) sz, &tmp, (size_t) sz);
              n++;
              if (*ps->p == ',') ps->p++;
            }
          {
            const void *ap = arr;
            if (!dbus_message_iter_append_fixed_array (&sub, esig[0], &ap, (int) n)) { free (arr); dbus_message_iter_abandon_container (it, &sub); return 0; }
          }
          free (arr);
        }
      else
        {
          while (*ps->p && *ps->p != ']')
            {
              if (!parse_value (ps, &sub)) { dbus_message_iter_abandon_container (it, &sub); return 0; }
              if (*ps->p == ',') ps->p++;
            }
        }
      if (*ps->p != ']') { dbus_message_iter_abandon_container (it, &sub); return 0; }
      ps->p++;
      return dbus_message_iter_close_container (it, &sub);   /* a failed close already finalises the sub-iterator */
    }
  if (c == '(' || c == '{')
    {
      DBusMessageIter sub; char close = c == '(' ? ')' : '}';
      ps->p++;
      if (!dbus_message_iter_open_container (it, c == '(' ? DBUS_TYPE_STRUCT : DBUS_TYPE_DICT_ENTRY, NULL, &sub)) return 0;
      while (*ps->p && *ps->p != close)
        {
          if (!parse_value (ps, &sub)) { dbus_message_iter_abandon_container (it, &sub); return 0; }
          if (*ps->p == ',') ps->p++;
        }
      if (*ps->p != close) { dbus_message_iter_abandon_container (it, &sub); return 0; }
      ps->p++;
      return dbus_message_iter_close_container (it, &sub);   /* a failed close already finalises the sub-iterator */
    }
  if (c == 'v' && ps->p[1] == ':')
    {
      char sig[300]; size_t l = 0; DBusMessageIter sub;
      ps->p += 2;
      while (*ps->p && *ps->p != '=' && l < sizeof sig - 1) sig[l++] = *ps->p++;
      sig[l] = 0;
      if (*ps->p != '=') return 0;
      ps->p++;
      if (!dbus_message_iter_open_container (it, DBUS_TYPE_VARIANT, sig, &sub)) return 0;
      if (!parse_value (ps, &sub)) { dbus_message_iter_abandon_container (it, &sub); return 0; }
      return dbus_message_iter_close_container (it, &sub);   /* a failed close already finalises the sub-iterator */
    }
  if (c && ps->p[1] == ':')
    {
      dbus_uint64_t tmp = 0; char *str; int ok;
      ps->p += 2;
      if (!parse_basic_into (ps, c, &tmp, &str)) return 0;
      ok = dbus_message_iter_append_basic (it, c, &tmp);
      free (str);
      return ok;
    }
  return 0;
}

/* arrays mode 'v': a flat body (see flat_sig) is appended with ONE call of dbus_message_append_args(); returns 1 on
 * success, 0 if the call reported failure, -1 if the body text is not flat (the caller falls back to iterators) */
static int build_body_varargs (DBusMessage *m, const char *body)
{
  Parser ps = { body, 0, 0 }; long W[4 * FLAT_MAX + 2]; int nw = 0, n = 0, i, ret;
  static dbus_uint64_t val[FLAT_MAX]; char *strs[FLAT_MAX]; void *arrs[FLAT_MAX]; int cnts[FLAT_MAX]; char **sarr[FLAT_MAX]; int isstr[FLAT_MAX];
  memset (strs, 0, sizeof strs); memset (arrs, 0, sizeof arrs); memset (sarr, 0, sizeof sarr); memset (cnts, 0, sizeof cnts); memset (isstr, 0, sizeof isstr);
  ret = -1;
  while (*ps.p && *ps.p != ']')
    {
      char c = *ps.p;
      if (n == FLAT_MAX) goto out;
      if (c == 'a')
        {
          char e = ps.p[1]; int sz = fixed_size_of_code (e); size_t cap = 16, k = 0;
          if (!e || !strchr ("ybnqiuxtdsog", e) || ps.p[2] != '[') goto out;
          ps.p += 3;
          if (sz) arrs[n] = malloc (cap * 8); else { sarr[n] = calloc (cap + 1, sizeof (char *)); isstr[n] = 1; }
          while (*ps.p && *ps.p != ']')
            {
              dbus_uint64_t tmp = 0; char *str = NULL;
              if (ps.p[0] != e || ps.p[1] != ':') goto out;
              ps.p += 2;
              if (!parse_basic_into (&ps, e, &tmp, &str)) goto out;
              if (k == cap) { cap *= 2; if (sz) arrs[n] = realloc (arrs[n], cap * 8); else { sarr[n] = realloc (sarr[n], (cap + 1) * sizeof (char *)); } }
              if (sz) memcpy ((unsigned char *) arrs[n] + k * (size_t) sz, &tmp, (size_t) sz); else { sarr[n][k] = str; sarr[n][k + 1] = NULL; }
              k++;
              if (*ps.p == ',') ps.p++;
            }
          if (*ps.p != ']') goto out;
          ps.p++;
          cnts[n] = (int) k;
          W[nw++] = DBUS_TYPE_ARRAY; W[nw++] = e; W[nw++] = sz ? (long) &arrs[n] : (long) &sarr[n]; W[nw++] = cnts[n];
        }
      else
        {
          if (!strchr ("ybnqiuxtdsog", c) || ps.p[1] != ':') goto out;
          ps.p += 2;
          val[n] = 0;
          if (!parse_basic_into (&ps, c, &val[n], &strs[n])) goto out;
          W[nw++] = c; W[nw++] = (long) &val[n];
        }
      n++;
      if (*ps.p == ',') ps.p++;
    }
  if (n == 0) goto out;
  while (nw < 4 * FLAT_MAX + 2) W[nw++] = DBUS_TYPE_INVALID;
  ret = dbus_message_append_args (m, (int) W[0], W[1], W[2], W[3], W[4], W[5], W[6], W[7], W[8], W[9], W[10], W[11], W[12], W[13], W[14], W[15], W[16],
                                  W[17], W[18], W[19], W[20], W[21], W[22], W[23], W[24], W[25], W[26], W[27], W[28], W[29], W[30], W[31], W[32], W[33]) ? 1 : 0;
out:
  for (i = 0; i < FLAT_MAX; i++)
    {
      free (strs[i]); free (arrs[i]);
      if (sarr[i]) { int k; for (k = 0; sarr[i][k]; k++) free (sarr[i][k]); free (sarr[i]); }
    }
  return ret;
}

/* parse "key=hex" / "key-" fields of a canonical line */
static char *field_dup (const char *tok)
{
  const char *eq = strchr (tok, '=');
  size_t n; unsigned char *b;
  if (!eq) return NULL;
  b = unhex (eq + 1, &n);
  if (!b) return NULL;
  b = realloc (b, n + 1); b[n] = 0;
  return (char *) b;
}

/* BUILD <ctor:g|s> <arrays:i|f> T=.. F=.. S=.. path.. iface.. member.. errname.. dest.. sender.. rserial=.. sig=.. cinst.. body=[..] */
static int apply_edit (DBusMessage *m, const char *a);

/* GETDEL: read every header field back (which fills the header's field cache), then remove one field by setting it
 * to NULL, then read two fields again.  Returns 0 if the removal reports failure. */
static int build_getdel (DBusMessage *m, const char *getdel)
{
  volatile const char *sink;
  sink = dbus_message_get_path (m); sink = dbus_message_get_interface (m); sink = dbus_message_get_member (m);
  sink = dbus_message_get_error_name (m); sink = dbus_message_get_destination (m); sink = dbus_message_get_sender (m);
  sink = dbus_message_get_container_instance (m); sink = dbus_message_get_signature (m); (void) sink;
  (void) dbus_message_get_reply_serial (m);
  if (!strcmp (getdel, "path")) { if (!dbus_message_set_path (m, NULL)) return 0; }
  else if (!strcmp (getdel, "iface")) { if (!dbus_message_set_interface (m, NULL)) return 0; }
  else if (!strcmp (getdel, "member")) { if (!dbus_message_set_member (m, NULL)) return 0; }
  else if (!strcmp (getdel, "errname")) { if (!dbus_message_set_error_name (m, NULL)) return 0; }
  else if (!strcmp (getdel, "dest")) { if (!dbus_message_set_destination (m, NULL)) return 0; }
  else if (!strcmp (getdel, "sender")) { if (!dbus_message_set_sender (m, NULL)) return 0; }
  else if (!strcmp (getdel, "cinst")) { if (!dbus_message_set_container_instance (m, NULL)) return 0; }
  sink = dbus_message_get_path (m); sink = dbus_message_get_member (m); (void) sink;
  return 1;
}

static void cmd_build (int argc, char **argv)
{
  int type = 0, flags = 0, i; unsigned serial = 0, rserial = 0;
  char *path = NULL, *iface = NULL, *member = NULL, *errname = NULL, *dest = NULL, *sender = NULL, *cinst = NULL;
  const char *body = NULL, *fops = NULL, *getdel = NULL, *reset = NULL; DBusMessage *m, *copy; int specific, fixed;
  if (argc < 4) { ob_puts (&out, "ERR badargs"); return; }
  specific = argv[1][0] == 's'; fixed = argv[2][0] == 'f';
  for (i = 3; i < argc; i++)
    {
      char *a = argv[i];
      if (!strncmp (a, "T=", 2)) type = atoi (a + 2);
      else if (!strncmp (a, "F=", 2)) flags = atoi (a + 2);
      else if (!strncmp (a, "FOPS=", 5)) fops = a + 5;
      else if (!strncmp (a, "GETDEL=", 7)) getdel = a + 7;
      else if (!strncmp (a, "RESET=", 6)) reset = a + 6;
      else if (!strncmp (a, "S=", 2)) serial = (unsigned) strtoul (a + 2, NULL, 10);
      else if (!strncmp (a, "rserial=", 8)) rserial = (unsigned) strtoul (a + 8, NULL, 10);
      else if (!strncmp (a, "path", 4)) path = field_dup (a);
      else if (!strncmp (a, "iface", 5)) iface = field_dup (a);
      else if (!strncmp (a, "member", 6)) member = field_dup (a);
      else if (!strncmp (a, "errname", 7)) errname = field_dup (a);
      else if (!strncmp (a, "dest", 4)) dest = field_dup (a);
      else if (!strncmp (a, "sender", 6)) sender = field_dup (a);
      else if (!strncmp (a, "cinst", 5)) cinst = field_dup (a);
      else if (!strncmp (a, "body=[", 6)) body = a + 6;
    }
  m = NULL;
  if (specific && type == DBUS_MESSAGE_TYPE_METHOD_CALL && path && member)
    m = dbus_message_new_method_call (dest, path, iface, member);
  else if (specific && type == DBUS_MESSAGE_TYPE_SIGNAL && path && iface && member)
    m = dbus_message_new_signal (path, iface, member);
  if (m == NULL)
    {
      m = dbus_message_new (type);
      specific = 0;
    }
  if (!m) { ob_puts (&out, "ERR new"); goto done; }
  if (!specific || type == DBUS_MESSAGE_TYPE_SIGNAL)
    {
      if (!specific)
        {
          if (path && !dbus_message_set_path (m, path)) goto fail;
          if (iface && !dbus_message_set_interface (m, iface)) goto fail;
          if (member && !dbus_message_set_member (m, member)) goto fail;
        }
      if (dest && !dbus_message_set_destination (m, dest)) goto fail;
    }
  if (errname && !dbus_message_set_error_name (m, errname)) goto fail;
  if (sender && !dbus_message_set_sender (m, sender)) goto fail;
  if (cinst && !dbus_message_set_container_instance (m, cinst)) goto fail;
  if (rserial && !dbus_message_set_reply_serial (m, rserial)) goto fail;
  if (flags & 1) dbus_message_set_no_reply (m, TRUE);
  if (flags & 2) dbus_message_set_auto_start (m, FALSE);
  if (flags & 4) dbus_message_set_allow_interactive_authorization (m, TRUE);
  if (fops)
    {
      /* a history of flag setter calls, e.g. "+n+i-i": n = no_reply, a = auto_start (inverted flag), i = interactive authorization */
      const char *q;
      for (q = fops; q[0] && q[1]; q += 2)
        {
          dbus_bool_t on = q[0] == '+';
          if (q[1] == 'n') dbus_message_set_no_reply (m, on);
          else if (q[1] == 'a') dbus_message_set_auto_start (m, on);
          else if (q[1] == 'i') dbus_message_set_allow_interactive_authorization (m, on);
        }
    }
  if (reset)
    {
      /* RESET=<field>:<hex>: a field that has already been set is set AGAIN to another value (through apply_edit's setters) */
      char spec[600]; const char *colon = strchr (reset, ':');
      if (colon && (size_t) (colon - reset) < 20)
        {
          snprintf (spec, sizeof spec, "%.*s=%s", (int) (colon - reset), reset, colon + 1);
          if (apply_edit (m, spec) != 1) goto fail;
        }
    }
  if (serial) dbus_message_set_serial (m, serial);
  if (body && argv[2][0] == 'v' && !getdel)
    {
      int r = build_body_varargs (m, body);
      if (r == 0) { ob_puts (&out, "ERR body-parse-or-append"); dbus_message_unref (m); goto done; }
      if (r == 1) body = NULL;        /* appended; r < 0: not a flat body, the iterator route below builds it */
    }
  if (body)
    {
      Parser ps = { body, fixed, 0 }; DBusMessageIter it; int nvals = 0;
      dbus_message_iter_init_append (m, &it);
      while (*ps.p && *ps.p != ']')
        {
          if (!parse_value (&ps, &it)) { ob_puts (&out, "ERR body-parse-or-append"); dbus_message_unref (m); goto done; }
          if (*ps.p == ',') ps.p++;
          /* with a body, the field is removed between the first and the second argument (a SIGNATURE field exists by
           * then and sits behind the removed field); a fresh append iterator is used for the rest, as an application would */
          if (getdel && ++nvals == 1)
            {
              if (!build_getdel (m, getdel)) goto fail;
              getdel = NULL;
              dbus_message_iter_init_append (m, &it);
            }
        }
    }
  if (getdel && !build_getdel (m, getdel)) goto fail;
  ob_puts (&out, "bytes=");
  marshal_hex (m, &out);
  copy = dbus_message_copy (m);
  if (copy)
    {
      ob_printf (&out, " copyserial=%u copy=", dbus_message_get_serial (copy));
      dbus_message_set_serial (copy, serial ? serial : 1);
      marshal_hex (copy, &out);
      dbus_message_unref (copy);
    }
  else ob_puts (&out, " copy=OOM");      /* dbus_message_copy reported failure (only ever under OOMBUILD's injected failures) */
  /* what the accessors say about the finished message (must agree with the bytes) */
  ob_puts (&out, " acc=");
  canon_msg (m, &out);
  dbus_message_unref (m);
  goto done;
fail:
  ob_puts (&out, "ERR setter-failed");
  dbus_message_unref (m);
done:
  free (path); free (iface); free (member); free (errname); free (dest); free (sender); free (cinst);
}

/* ------------------------------------------------------------------ */
/* EDIT <hex> op op ...   ops: path=<hex>|path- iface.. member.. errname.. dest.. sender.. cinst.. rserial=<n> strip
 * response: for the start and after each op  ";;ret=<r> bytes=<hex> canon=<canon>"  */

static void emit_state (DBusMessage *m, int ret)
{
  ob_printf (&out, ";;ret=%d bytes=", ret);
  marshal_hex (m, &out);
  ob_puts (&out, " canon=");
  canon_msg (m, &out);
}

static int apply_edit (DBusMessage *m, const char *a);

static void cmd_edit_common (int argc, char **argv, int blind)
{
  size_t n; unsigned char *buf; DBusMessageLoader *l; DBusMessage *m; int i;
  if (argc < 2 || !(buf = unhex (argv[1], &n))) { ob_puts (&out, "ERR badargs"); return; }
  l = _dbus_message_loader_new ();
  loader_feed (l, buf, n);
  _dbus_message_loader_queue_messages (l);
  m = _dbus_message_loader_pop_message (l);
  if (!m) { ob_puts (&out, "ERR start-message-rejected"); _dbus_message_loader_unref (l); free (buf); return; }
  ob_puts (&out, "OK");
  if (blind)
    {
      /* EDITB: no accessor, iterator or marshal call touches the message before or between the edits (inspecting a
       * message converts it to the native byte order and fills the field cache); only the final state is emitted */
      int ret = 1;
      for (i = 2; i < argc; i++) ret = apply_edit (m, argv[i]);
      emit_state (m, ret);
    }
  else
    {
      emit_state (m, 1);
      for (i = 2; i < argc; i++)
        {
          char *a = argv[i]; int ret = apply_edit (m, a);
          emit_state (m, ret);
        }
    }
  dbus_message_unref (m);
  _dbus_message_loader_unref (l);
  free (buf);
}

static void cmd_edit (int argc, char **argv) { cmd_edit_common (argc, argv, 0); }
static void cmd_editb (int argc, char **argv) { cmd_edit_common (argc, argv, 1); }

/* ------------------------------------------------------------------ */
/* VALIDATE / VALENUM                                                   */

enum { K_PATH, K_IFACE, K_MEMBER, K_ERROR, K_BUS, K_SIG, K_SIG1, K_UTF8, K_N };
static const char *kind_names[K_N] = { "path", "iface", "member", "error", "bus", "sig", "sig1", "utf8" };

static int kind_of (const char *s)
{
  int i; for (i = 0; i < K_N; i++) if (!strcmp (s, kind_names[i])) return i;
  return -1;
}

/* verdict bits: 1 = internal (start 0), 2 = internal embedded at offset 3 with trailing junk, 4 = public (only if no NUL), 8 = public applicable */
static int validate_one (int kind, const unsigned char *s, size_t n)
{
  DBusString str; int bits = 0; int v = 0;
  unsigned char *emb; size_t i; int has_nul = 0;
  char *cstr;
  for (i = 0; i < n; i++) if (s[i] == 0) has_nul = 1;
  _dbus_string_init_const_len (&str, (const char *) s, (int) n);
  switch (kind)
    {
    case K_PATH: v = _dbus_validate_path (&str, 0, (int) n); break;
    case K_IFACE: v = _dbus_validate_interface (&str, 0, (int) n); break;
    case K_MEMBER: v = _dbus_validate_member (&str, 0, (int) n); break;
    case K_ERROR: v = _dbus_validate_error_name (&str, 0, (int) n); break;
    case K_BUS: v = _dbus_validate_bus_name (&str, 0, (int) n); break;
    case K_SIG: v = _dbus_validate_signature_with_reason (&str, 0, (int) n) == DBUS_VALID; break;
    case K_SIG1:
      v = _dbus_validate_signature_with_reason (&str, 0, (int) n) == DBUS_VALID;
      if (v && !has_nul)
        {
          /* single complete type: exactly one iteration step */
          DBusSignatureIter it; cstr = malloc (n + 1); memcpy (cstr, s, n); cstr[n] = 0;
          if (n == 0) v = 0;
          else { dbus_signature_iter_init (&it, cstr); v = !dbus_signature_iter_next (&it); }
          free (cstr);
        }
      break;
    case K_UTF8: v = _dbus_string_validate_utf8 (&str, 0, (int) n); break;
    }
  if (v) bits |= 1;
  /* embedded at offset 3, followed by bytes that would extend a valid string */
  emb = malloc (n + 8);
  memcpy (emb, "a/.", 3); memcpy (emb + 3, s, n); memcpy (emb + 3 + n, "a/.a", 4);
  _dbus_string_init_const_len (&str, (const char *) emb, (int) n + 7);
  v = 0;
  switch (kind)
    {
    case K_PATH: v = _dbus_validate_path (&str, 3, (int) n); break;
    case K_IFACE: v = _dbus_validate_interface (&str, 3, (int) n); break;
    case K_MEMBER: v = _dbus_validate_member (&str, 3, (int) n); break;
    case K_ERROR: v = _dbus_validate_error_name (&str, 3, (int) n); break;
    case K_BUS: v = _dbus_validate_bus_name (&str, 3, (int) n); break;
    case K_SIG: case K_SIG1: v = _dbus_validate_signature_with_reason (&str, 3, (int) n) == DBUS_VALID;
      if (kind == K_SIG1) v = (bits & 1); /* single-ness has no length-taking entry point: follow bit 1 */
      break;
    case K_UTF8: v = _dbus_string_validate_utf8 (&str, 3, (int) n); break;
    }
  if (v) bits |= 2;
  free (emb);
  if (!has_nul)
    {
      DBusError e; dbus_error_init (&e);
      cstr = malloc (n + 1); memcpy (cstr, s, n); cstr[n] = 0;
      bits |= 8;
      v = 0;
      switch (kind)
        {
        case K_PATH: v = dbus_validate_path (cstr, &e); break;
        case K_IFACE: v = dbus_validate_interface (cstr, &e); break;
        case K_MEMBER: v = dbus_validate_member (cstr, &e); break;
        case K_ERROR: v = dbus_validate_error_name (cstr, &e); break;
        case K_BUS: v = dbus_validate_bus_name (cstr, &e); break;
        case K_SIG: v = dbus_signature_validate (cstr, &e); break;
        case K_SIG1: v = dbus_signature_validate_single (cstr, &e); break;
        case K_UTF8: v = dbus_validate_utf8 (cstr, &e); break;
        }
      if (v) bits |= 4;
      if (dbus_error_is_set (&e)) dbus_error_free (&e);
      free (cstr);
    }
  return bits;
}

static void cmd_validate (int argc, char **argv)
{
  size_t n; unsigned char *buf; int kind;
  if (argc < 3 || (kind = kind_of (argv[1])) < 0 || !(buf = unhex (argv[2], &n))) { ob_puts (&out, "ERR badargs"); return; }
  ob_printf (&out, "bits=%d", validate_one (kind, buf, n));
  free (buf);
}

/* SIGWALK <sig> : walk a VALID signature with the public DBusSignatureIter API and rebuild it from what the iterator
 * says (current type, recursion, element type, next); "parts" are dbus_signature_iter_get_signature() at every top-level
 * position.  bad counts disagreements between the API's own answers (element type vs. first recursed type). */
static int sigwalk_bad;
static void sigwalk (DBusSignatureIter *it, OutBuf *o)
{
  do
    {
      int t = dbus_signature_iter_get_current_type (it);
      if (t == DBUS_TYPE_INVALID) break;
      if (t == DBUS_TYPE_ARRAY)
        {
          DBusSignatureIter sub; int et = dbus_signature_iter_get_element_type (it);
          dbus_signature_iter_recurse (it, &sub);
          if (dbus_signature_iter_get_current_type (&sub) != et) sigwalk_bad++;
          ob_putc (o, 'a');
          /* the element is ONE complete type: the sub-iterator must not offer a second one */
          { OutBuf e = { 0 }; char *one = dbus_signature_iter_get_signature (&sub); sigwalk (&sub, &e);
            if (!one || !e.s || strcmp (one, e.s) != 0) sigwalk_bad++;
            if (e.s) ob_puts (o, e.s); free (e.s); dbus_free (one); }
        }
      else if (t == DBUS_TYPE_STRUCT || t == DBUS_TYPE_DICT_ENTRY)
        {
          DBusSignatureIter sub;
          dbus_signature_iter_recurse (it, &sub);
          ob_putc (o, t == DBUS_TYPE_STRUCT ? '(' : '{');
          sigwalk (&sub, o);
          ob_putc (o, t == DBUS_TYPE_STRUCT ? ')' : '}');
        }
      else ob_putc (o, (char) t);
    }
  while (dbus_signature_iter_next (it));
}

static void cmd_sigwalk (int argc, char **argv)
{
  DBusSignatureIter it; OutBuf o = { 0 };
  if (argc < 2) { ob_puts (&out, "ERR badargs"); return; }
  if (!dbus_signature_validate (argv[1], NULL)) { ob_puts (&out, "ERR invalid"); return; }
  sigwalk_bad = 0;
  dbus_signature_iter_init (&it, argv[1]);
  sigwalk (&it, &o);
  ob_printf (&out, "OK recon=%s bad=%d parts=", o.s ? o.s : "", sigwalk_bad);
  free (o.s);
  dbus_signature_iter_init (&it, argv[1]);
  if (argv[1][0])
    do { char *p = dbus_signature_iter_get_signature (&it); ob_printf (&out, "%s,", p ? p : "?"); dbus_free (p); } while (dbus_signature_iter_next (&it));
}

/* VALENUM <kind> <alphabet-hex> <maxlen> <prefix-hex|->
 * enumerates prefix + every string of length 0..(maxlen-len(prefix)) over the alphabet,
 * shorter first, then lexicographic in alphabet order.  Returns one hex digit
 * (the verdict bits) per string. */
static void cmd_valenum (int argc, char **argv)
{
  size_t an, pn; unsigned char *alpha, *prefix; int kind, maxlen; unsigned char s[64]; long count = 0;
  if (argc < 5 || (kind = kind_of (argv[1])) < 0 || !(alpha = unhex (argv[2], &an)) || !(prefix = unhex (argv[4], &pn)))
    { ob_puts (&out, "ERR badargs"); return; }
  maxlen = atoi (argv[3]);
  if (maxlen > 40 || (int) pn > maxlen) { ob_puts (&out, "ERR toolong"); return; }
  memcpy (s, prefix, pn);
  ob_puts (&out, "v=");
  for (int extra = 0; (int) pn + extra <= maxlen; extra++)
    {
      int idx[64] = { 0 }; int k;
      for (;;)
        {
          for (k = 0; k < extra; k++) s[pn + (size_t) k] = alpha[idx[k]];
          ob_putc (&out, "0123456789abcdef"[validate_one (kind, s, pn + (size_t) extra)]);
          count++;
          for (k = extra - 1; k >= 0; k--) { if (++idx[k] < (int) an) break; idx[k] = 0; }
          if (k < 0) break;
        }
    }
  ob_printf (&out, " n=%ld", count);
  free (alpha); free (prefix);
}

/* ------------------------------------------------------------------ */
/* allocation-failure enumeration for library operations (C14)          */

#include <bus/config-parser.h>

static void fa_arm (int k) { _dbus_set_fail_alloc_failures (1); _dbus_set_fail_alloc_counter (k); }
/* returns 1 if the armed failure fired */
/* libdbus resets the counter to _DBUS_INT_MAX when the failure is consumed and goes on decrementing it with every
 * later allocation (error paths allocate too), so "fired" is "far above any index we arm", not equality */
static int fa_disarm (void) { int fired = _dbus_get_fail_alloc_counter () > 1000000000; _dbus_set_fail_alloc_counter (_DBUS_INT_MAX); return fired; }

static DBusMessage *load_msg (const unsigned char *buf, size_t n, DBusMessageLoader **lp)
{
  DBusMessageLoader *l = _dbus_message_loader_new (); DBusMessage *m;
  loader_feed (l, buf, n);
  _dbus_message_loader_queue_messages (l);
  m = _dbus_message_loader_pop_message (l);
  *lp = l;
  return m;
}

/* LOADMAX <max> <hex> : one loader with max_message_size = <max> is fed the bytes; was a message produced, was the stream declared corrupt? */
static void cmd_loadmax (int argc, char **argv)
{
  size_t n; unsigned char *buf; DBusMessageLoader *l; DBusMessage *m; int corrupt;
  if (argc < 3 || !(buf = unhex (argv[2], &n))) { ob_puts (&out, "ERR badargs"); return; }
  l = _dbus_message_loader_new ();
  _dbus_message_loader_set_max_message_size (l, atol (argv[1]));
  loader_feed (l, buf, n);
  _dbus_message_loader_queue_messages (l);
  corrupt = _dbus_message_loader_get_is_corrupted (l);
  m = _dbus_message_loader_pop_message (l);
  ob_printf (&out, "OK msg=%d corrupt=%d", m != NULL, corrupt);
  if (m) dbus_message_unref (m);
  _dbus_message_loader_unref (l);
  free (buf);
}

static int apply_edit (DBusMessage *m, const char *a)
{
  int ret = -1; char *v = NULL; int del;
  size_t kl = strcspn (a, "=-");
  del = a[kl] == '-';
  if (!del && a[kl] == '=' && strncmp (a, "rserial", 7) != 0) v = field_dup (a);
  if (!strncmp (a, "flag", 4) && (a[4] == '+' || a[4] == '-') && a[5])
    {
      /* flag+n / flag-n (no_reply), flag+a / flag-a (auto_start), flag+i / flag-i (allow_interactive_authorization) */
      dbus_bool_t on = a[4] == '+';
      if (a[5] == 'n') dbus_message_set_no_reply (m, on);
      else if (a[5] == 'a') dbus_message_set_auto_start (m, on);
      else dbus_message_set_allow_interactive_authorization (m, on);
      return 1;
    }
  if (!strncmp (a, "strip", 5)) ret = _dbus_message_remove_unknown_fields (m);
  else if (!strncmp (a, "rserial=", 8)) ret = dbus_message_set_reply_serial (m, (dbus_uint32_t) strtoul (a + 8, NULL, 10));
  else if (!strncmp (a, "path", 4)) ret = dbus_message_set_path (m, del ? NULL : v);
  else if (!strncmp (a, "iface", 5)) ret = dbus_message_set_interface (m, del ? NULL : v);
  else if (!strncmp (a, "member", 6)) ret = dbus_message_set_member (m, del ? NULL : v);
  else if (!strncmp (a, "errname", 7)) ret = dbus_message_set_error_name (m, del ? NULL : v);
  else if (!strncmp (a, "dest", 4)) ret = dbus_message_set_destination (m, del ? NULL : v);
  else if (!strncmp (a, "sender", 6)) ret = dbus_message_set_sender (m, del ? NULL : v);
  else if (!strncmp (a, "cinst", 5)) ret = dbus_message_set_container_instance (m, del ? NULL : v);
  free (v);
  return ret;
}

static void marshal_to (DBusMessage *m, OutBuf *o) { ob_reset (o); marshal_hex (m, o); }

/* OOMEDIT <hex> <op> : every failing-allocation index of one header edit */
static void cmd_oomedit (int argc, char **argv)
{
  size_t n; unsigned char *buf; OutBuf pre = { 0 }, post = { 0 }, want = { 0 }, chg = { 0 }; int k, bad = 0, nfail = 0, cold, total = 0, nchg = 0; char first[200] = "-";
  DBusMessageLoader *l; DBusMessage *m;
  if (argc < 3 || !(buf = unhex (argv[1], &n))) { ob_puts (&out, "ERR badargs"); return; }
  m = load_msg (buf, n, &l);
  if (!m) { ob_puts (&out, "ERR start-rejected"); _dbus_message_loader_unref (l); free (buf); return; }
  marshal_to (m, &pre);
  if (apply_edit (m, argv[2]) != 1) { ob_puts (&out, "ERR edit-failed-without-injection"); dbus_message_unref (m); _dbus_message_loader_unref (l); free (buf); return; }
  marshal_to (m, &want);
  dbus_message_unref (m); _dbus_message_loader_unref (l);
  /* Two passes.  cold=0: message objects are recycled through libdbus' message cache (their strings keep the
   * capacity of earlier, larger contents, so some reallocations never happen); block counts are compared.
   * cold=1: the cache is emptied before every run by holding six live messages, so the message under test is
   * freshly and tightly allocated and every growth of its header really allocates; no block count here, because
   * what the cache holds differs before and after. */
  for (cold = 0; cold < 2; cold++)
  for (k = 0; k < 400; k++)
    {
      int b0, b1, ret, fired, hi; DBusMessage *hold[6];
      if (cold) for (hi = 0; hi < 6; hi++) hold[hi] = dbus_message_new (DBUS_MESSAGE_TYPE_SIGNAL);
      b0 = _dbus_get_malloc_blocks_outstanding ();
      m = load_msg (buf, n, &l);
      fa_arm (k);
      ret = apply_edit (m, argv[2]);
      fired = fa_disarm ();
      if (!fired)
        {
          dbus_message_unref (m); _dbus_message_loader_unref (l);
          if (cold) for (hi = 0; hi < 6; hi++) if (hold[hi]) dbus_message_unref (hold[hi]);
          break;
        }
      total++;
      if (ret == 0)
        {
          nfail++;
          marshal_to (m, &post);
          if (post.len != pre.len || memcmp (post.s, pre.s, pre.len))
            {
              if (!bad++) { snprintf (first, sizeof first, "k=%d%s:failed-edit-changed-message", k, cold ? "c" : ""); fprintf (stderr, "PRE  %s\nPOST %s\n", pre.s, post.s); }
              /* the distinct messages left behind by failed edits (at most 6), for oracles that allow some change */
              if (nchg < 6 && (!chg.len || !strstr (chg.s, post.s))) { ob_printf (&chg, "%s%d%s:%s", chg.len ? "," : "", k, cold ? "c" : "", post.s); nchg++; }
            }
          if (apply_edit (m, argv[2]) != 1) { if (!bad++) snprintf (first, sizeof first, "k=%d%s:retry-failed", k, cold ? "c" : ""); }
        }
      marshal_to (m, &post);
      if (post.len != want.len || memcmp (post.s, want.s, want.len)) { if (!bad++) snprintf (first, sizeof first, "k=%d%s:result-differs(ret=%d)", k, cold ? "c" : "", ret); }
      dbus_message_unref (m); _dbus_message_loader_unref (l);
      b1 = _dbus_get_malloc_blocks_outstanding ();
      if (!cold && b1 != b0) { if (!bad++) snprintf (first, sizeof first, "k=%d:leak(%d->%d)", k, b0, b1); }
      if (cold) for (hi = 0; hi < 6; hi++) if (hold[hi]) dbus_message_unref (hold[hi]);
    }
  k = total;
  ob_printf (&out, "OK indices=%d reported_failure=%d bad=%d first=%s changed=%s", k, nfail, bad, first, chg.len ? chg.s : "-");
  free (pre.s); free (post.s); free (want.s); free (chg.s); free (buf);
}

/* OOMCOPY <hex> */
static void cmd_oomcopy (int argc, char **argv)
{
  size_t n; unsigned char *buf; OutBuf pre = { 0 }, post = { 0 }; int k, bad = 0, nfail = 0; char first[200] = "-";
  DBusMessageLoader *l; DBusMessage *m, *c;
  if (argc < 2 || !(buf = unhex (argv[1], &n))) { ob_puts (&out, "ERR badargs"); return; }
  m = load_msg (buf, n, &l);
  if (!m) { ob_puts (&out, "ERR start-rejected"); _dbus_message_loader_unref (l); free (buf); return; }
  marshal_to (m, &pre);
  for (k = 0; k < 6; k++) { c = dbus_message_copy (m); if (c) dbus_message_unref (c); }   /* warm the message cache */
  for (k = 0; k < 400; k++)
    {
      int b0 = _dbus_get_malloc_blocks_outstanding (), fired;
      fa_arm (k);
      c = dbus_message_copy (m);
      fired = fa_disarm ();
      if (c)
        {
          dbus_message_set_serial (c, dbus_message_get_serial (m));
          marshal_to (c, &post);
          if (post.len != pre.len || memcmp (post.s, pre.s, pre.len)) { if (!bad++) snprintf (first, sizeof first, "k=%d:copy-differs", k); }
          dbus_message_unref (c);
        }
      else nfail++;
      marshal_to (m, &post);
      if (post.len != pre.len || memcmp (post.s, pre.s, pre.len)) { if (!bad++) snprintf (first, sizeof first, "k=%d:original-changed", k); }
      if (_dbus_get_malloc_blocks_outstanding () != b0) { if (!bad++) snprintf (first, sizeof first, "k=%d:leak", k); }
      if (!fired) break;
      if (c && fired) { /* a failure that was absorbed */ }
    }
  dbus_message_unref (m); _dbus_message_loader_unref (l);
  ob_printf (&out, "OK indices=%d reported_failure=%d bad=%d first=%s", k, nfail, bad, first);
  free (pre.s); free (post.s); free (buf);
}

/* OOMBUILD <ctor> <arrays> <canon...> : every failing index of a construction program */
static void cmd_oombuild (int argc, char **argv)
{
  OutBuf want = { 0 }; int k, bad = 0, nfail = 0; char first[200] = "-";
  cmd_build (argc, argv);
  if (strncmp (out.s, "bytes=", 6) != 0) { return; }
  ob_puts (&want, out.s);
  for (k = 0; k < 6; k++) { ob_reset (&out); cmd_build (argc, argv); }    /* saturate the message cache */
  for (k = 0; k < 2000; k++)
    {
      int b0 = _dbus_get_malloc_blocks_outstanding (), fired;
      ob_reset (&out);
      fa_arm (k);
      cmd_build (argc, argv);
      fired = fa_disarm ();
      if (!strncmp (out.s, "ERR", 3) || strstr (out.s, "=OOM")) nfail++;     /* a step (or marshal/copy) reported out-of-memory */
      else if (out.len != want.len || memcmp (out.s, want.s, want.len)) { if (!bad++) { snprintf (first, sizeof first, "k=%d:result-differs", k); fprintf (stderr, "WANT %s\nGOT  %s\n", want.s, out.s); } }
      if (_dbus_get_malloc_blocks_outstanding () != b0) { if (!bad++) snprintf (first, sizeof first, "k=%d:leak(%d->%d)", k, b0, _dbus_get_malloc_blocks_outstanding ()); }
      if (!fired) break;
    }
  ob_reset (&out);
  ob_printf (&out, "OK indices=%d reported_failure=%d bad=%d first=%s", k, nfail, bad, first);
  free (want.s);
}

/* OOMRULE <hex rule text> */
static void cmd_oomrule (int argc, char **argv)
{
  size_t n; unsigned char *buf; int k, bad = 0, nfail = 0; char first[200] = "-"; DBusString str; int base_ok;
  BusMatchRule *r; DBusError err;
  if (argc < 2 || !(buf = unhex (argv[1], &n))) { ob_puts (&out, "ERR badargs"); return; }
  buf = realloc (buf, n + 1); buf[n] = 0;
  _dbus_string_init_const (&str, (const char *) buf);
  dbus_error_init (&err);
  r = bus_match_rule_parse (NULL, &str, &err);
  base_ok = r != NULL;
  if (r) bus_match_rule_unref (r); else dbus_error_free (&err);
  for (k = 0; k < 2000; k++)
    {
      int b0 = _dbus_get_malloc_blocks_outstanding (), fired;
      dbus_error_init (&err);
      fa_arm (k);
      r = bus_match_rule_parse (NULL, &str, &err);
      fired = fa_disarm ();
      if (r)
        { if (!base_ok) { if (!bad++) snprintf (first, sizeof first, "k=%d:accepted-under-oom", k); } bus_match_rule_unref (r); }
      else
        {
          if (dbus_error_has_name (&err, DBUS_ERROR_NO_MEMORY)) nfail++;
          else if (base_ok) { if (!bad++) snprintf (first, sizeof first, "k=%d:wrong-error:%s", k, err.name ? err.name : "unset"); }
          if (!dbus_error_is_set (&err)) { if (!bad++) snprintf (first, sizeof first, "k=%d:no-error-set", k); }
          dbus_error_free (&err);
        }
      if (_dbus_get_malloc_blocks_outstanding () != b0) { if (!bad++) snprintf (first, sizeof first, "k=%d:leak", k); }
      if (!fired) break;
    }
  ob_printf (&out, "OK indices=%d reported_failure=%d bad=%d first=%s base_ok=%d", k, nfail, bad, first, base_ok);
  free (buf);
}

/* OOMCONFIG <file> */
static void cmd_oomconfig (int argc, char **argv)
{
  int k, bad = 0, nfail = 0; char first[200] = "-"; DBusString file; BusConfigParser *p; DBusError err;
  if (argc < 2) { ob_puts (&out, "ERR badargs"); return; }
  _dbus_string_init_const (&file, argv[1]);
  dbus_error_init (&err);
  p = bus_config_load (&file, TRUE, NULL, &err);
  if (!p) { ob_printf (&out, "ERR base-load-failed:%s", err.message ? err.message : "?"); dbus_error_free (&err); return; }
  bus_config_parser_unref (p);
  for (k = 0; k < 20000; k++)
    {
      int b0 = _dbus_get_malloc_blocks_outstanding (), fired;
      dbus_error_init (&err);
      fa_arm (k);
      p = bus_config_load (&file, TRUE, NULL, &err);
      fired = fa_disarm ();
      if (p) bus_config_parser_unref (p);
      else
        {
          if (dbus_error_has_name (&err, DBUS_ERROR_NO_MEMORY)) nfail++;
          else { if (!bad++) snprintf (first, sizeof first, "k=%d:wrong-error:%s", k, err.name ? err.name : "unset"); }
          dbus_error_free (&err);
        }
      if (_dbus_get_malloc_blocks_outstanding () != b0) { if (!bad++) snprintf (first, sizeof first, "k=%d:leak(%d->%d)", k, b0, _dbus_get_malloc_blocks_outstanding ()); }
      if (!fired) break;
    }
  ob_printf (&out, "OK indices=%d reported_failure=%d bad=%d first=%s", k, nfail, bad, first);
}

/* ------------------------------------------------------------------ */
/* bus face                                                             */

#define MAX_CLIENTS 64
#define MAX_FDS 64
static BusContext *bus;
static char bus_sock_path[256];
static struct { int fd; int open; int nodrain; } clients[MAX_CLIENTS];
static int nclients;
static int fdtab[MAX_FDS]; static int nfdtab;
static long long vclock_us = 1000000LL * 1000000LL;   /* virtual time, microseconds */
static long long vclock_real_offset_us = 600000000LL * 1000000LL;
static char rundir[200] = ".";

static void clock_hook (int which, long *tv_sec, long *tv_usec)
{
  long long t = vclock_us + (which ? vclock_real_offset_us : 0);
  if (tv_sec) *tv_sec = (long) (t / 1000000);
  if (tv_usec) *tv_usec = (long) (t % 1000000);
}

static long pump (int budget)
{
  DBusLoop *loop; long iters = 0; int idle = 0;
  if (!bus) return 0;
  loop = bus_context_get_loop (bus);
  while (iters < budget)
    {
      if (_dbus_loop_iterate (loop, FALSE)) idle = 0; else idle++;
      iters++;
      if (idle >= 2) break;
    }
  return (idle >= 2) ? iters : -iters;   /* negative = budget exhausted (spin) */
}

static void close_clients (void)
{
  int i;
  for (i = 0; i < nclients; i++) if (clients[i].open) { close (clients[i].fd); clients[i].open = 0; }
  nclients = 0;
}

static void bus_teardown (void)
{
  close_clients ();
  if (bus)
    {
      pump (1000);
      bus_context_shutdown (bus);
      bus_context_unref (bus);
      bus = NULL;
    }
}

/* RESET <config-file> <socket-path> */
static int bus_flags = BUS_CONTEXT_FLAG_NONE;    /* BUSFLAGS <n>: flags of the NEXT RESETs (16 = --systemd-activation) */
static void cmd_reset (int argc, char **argv)
{
  DBusString cfg; DBusError err;
  if (argc < 3) { ob_puts (&out, "ERR badargs"); return; }
  bus_teardown ();
  unlink (argv[2]);
  snprintf (bus_sock_path, sizeof bus_sock_path, "%s", argv[2]);
  vclock_us = 1000000LL * 1000000LL;
  _dbus_verif_clock_hook = clock_hook;
  bus_verif_unique_name_seed_major = 0;
  bus_verif_unique_name_seed_minor = 0;
  bus_verif_unique_name_seed_pending = TRUE;
  if (argc > 4) { bus_verif_unique_name_seed_major = atoi (argv[3]); bus_verif_unique_name_seed_minor = atoi (argv[4]); }
  dbus_error_init (&err);
  _dbus_string_init_const (&cfg, argv[1]);
  bus = bus_context_new (&cfg, (BusContextFlags) bus_flags, NULL, NULL, NULL, &err);
  if (!bus) { ob_printf (&out, "ERR %s: %s", err.name, err.message); dbus_error_free (&err); return; }
  ob_puts (&out, "OK");
}

static long pump (int budget);
static int pump_budget;
/* RELOAD : re-read the configuration file the bus was started from (what SIGHUP does in bus/main.c) */
static void cmd_reload (void)
{
  DBusError err;
  if (!bus) { ob_puts (&out, "ERR nobus"); return; }
  dbus_error_init (&err);
  if (!bus_context_reload_config (bus, &err)) { ob_printf (&out, "ERR %s: %s", err.name, err.message); dbus_error_free (&err); return; }
  ob_printf (&out, "OK it=%ld", pump (pump_budget));
}

static int tcp_port;      /* != 0: the next raw_connect goes to 127.0.0.1:<port> (a <listen>tcp:...</listen> of the bus) */

static int raw_connect (unsigned long uid)
{
  struct sockaddr_un sa; int fd; int slot;
  if (tcp_port)
    {
      struct sockaddr_in si; int port = tcp_port, i;
      tcp_port = 0;
      slot = nclients;
      if (nclients >= MAX_CLIENTS)
        {
          for (slot = 0; slot < MAX_CLIENTS; slot++) if (!clients[slot].open) break;
          if (slot >= MAX_CLIENTS) { errno = EMFILE; return -1; }
        }
      fd = socket (AF_INET, SOCK_STREAM | SOCK_CLOEXEC, 0);
      if (fd < 0) return -1;
      memset (&si, 0, sizeof si);
      si.sin_family = AF_INET; si.sin_port = htons ((unsigned short) port); si.sin_addr.s_addr = htonl (INADDR_LOOPBACK);
      if (connect (fd, (struct sockaddr *) &si, sizeof si) < 0) { int e = errno; close (fd); errno = e; return -1; }
      i = fcntl (fd, F_GETFL); fcntl (fd, F_SETFL, i | O_NONBLOCK);
      clients[slot].fd = fd; clients[slot].open = 1; clients[slot].nodrain = 0;
      if (slot == nclients) nclients++;
      return slot;
    }
  /* reuse the slot of a closed client when the table is full */
  slot = nclients;
  if (nclients >= MAX_CLIENTS)
    {
      for (slot = 0; slot < MAX_CLIENTS; slot++) if (!clients[slot].open) break;
      if (slot >= MAX_CLIENTS) { errno = EMFILE; return -1; }
    }
  fd = socket (AF_UNIX, SOCK_STREAM | SOCK_NONBLOCK | SOCK_CLOEXEC, 0);
  if (fd < 0) return -1;
  memset (&sa, 0, sizeof sa);
  sa.sun_family = AF_UNIX;
  snprintf (sa.sun_path, sizeof sa.sun_path, "%s", bus_sock_path);
  if (uid != 0 && seteuid ((uid_t) uid) != 0) { close (fd); return -1; }
  if (connect (fd, (struct sockaddr *) &sa, sizeof sa) < 0) { int e = errno; if (uid != 0) { if (seteuid (0)) _exit (4); } close (fd); errno = e; return -1; }
  if (uid != 0 && seteuid (0) != 0) _exit (4);
  clients[slot].fd = fd; clients[slot].open = 1; clients[slot].nodrain = 0;
  if (slot == nclients) nclients++;
  return slot;
}

static int write_all (int c, const void *p, size_t n)
{
  ssize_t w = send (clients[c].fd, p, n, MSG_NOSIGNAL);
  return w == (ssize_t) n;
}

/* read whatever is there (no fds expected) into tmp; returns bytes */
static ssize_t read_some (int c, char *tmp, size_t cap)
{
  ssize_t r = recv (clients[c].fd, tmp, cap, 0);
  return r;
}

/* RAWCONNECT <uid> -> client index, nothing written */
static void cmd_rawconnect (int argc, char **argv)
{
  int c;
  if (argc > 2 && !strncmp (argv[2], "tcp:", 4)) tcp_port = atoi (argv[2] + 4);      /* RAWCONNECT <uid> tcp:<port> */
  c = raw_connect (argc > 1 ? strtoul (argv[1], NULL, 10) : 0);
  if (c < 0) { ob_printf (&out, "ERR connect: %s", strerror (errno)); return; }
  pump (1000);
  ob_printf (&out, "OK %d", c);
}

/* CONNECT <uid> [nofd] -> full EXTERNAL handshake */
static void cmd_connect (int argc, char **argv)
{
  unsigned long uid = argc > 1 ? strtoul (argv[1], NULL, 10) : 0;
  int nofd = argc > 2 && !strcmp (argv[2], "nofd");
  char line[256], uidstr[32], hexuid[80], tmp[512]; ssize_t r; size_t i;
  int c = raw_connect (uid);
  if (c < 0) { ob_printf (&out, "ERR connect: %s", strerror (errno)); return; }
  snprintf (uidstr, sizeof uidstr, "%lu", uid);
  for (i = 0; uidstr[i]; i++) sprintf (hexuid + 2 * i, "%02x", (unsigned char) uidstr[i]);
  snprintf (line, sizeof line, "AUTH EXTERNAL %s\r\n", hexuid);
  write_all (c, "\0", 1);
  write_all (c, line, strlen (line));
  pump (1000);
  r = read_some (c, tmp, sizeof tmp - 1);
  if (r < 3 || strncmp (tmp, "OK ", 3) != 0) { tmp[r > 0 ? r : 0] = 0; ob_printf (&out, "ERR auth: %s", r > 0 ? tmp : "(nothing)"); return; }
  if (!nofd)
    {
      write_all (c, "NEGOTIATE_UNIX_FD\r\n", 19);
      pump (1000);
      r = read_some (c, tmp, sizeof tmp - 1);
      if (r < 13 || strncmp (tmp, "AGREE_UNIX_FD", 13) != 0) { ob_puts (&out, "ERR nofdagree"); return; }
    }
  write_all (c, "BEGIN\r\n", 7);
  pump (1000);
  ob_printf (&out, "OK %d", c);
}

static int parse_fd_list (const char *s, int *fds, int max)
{
  int n = 0; char *e;
  if (!s || !strcmp (s, "-")) return 0;
  while (*s && n < max) { long k = strtol (s, &e, 10); if (e == s) break; if (k >= 0 && k < nfdtab) fds[n++] = fdtab[k]; s = (*e == ',') ? e + 1 : e; }
  return n;
}

static long do_send (int c, const unsigned char *buf, size_t n, const char *fdlist)
{
  int fds[MAX_FDS]; int nf = parse_fd_list (fdlist, fds, MAX_FDS);
  struct msghdr mh; struct iovec iov; char cbuf[CMSG_SPACE (sizeof (int) * MAX_FDS)];
  ssize_t w;
  if (c < 0 || c >= nclients || !clients[c].open) return -2;
  if (nf == 0)
    {
      w = send (clients[c].fd, buf, n, MSG_NOSIGNAL);
      return w < 0 ? -(long) errno - 100 : (long) w;
    }
  memset (&mh, 0, sizeof mh);
  iov.iov_base = (void *) buf; iov.iov_len = n;
  mh.msg_iov = &iov; mh.msg_iovlen = 1;
  mh.msg_control = cbuf; mh.msg_controllen = CMSG_SPACE (sizeof (int) * (size_t) nf);
  memset (cbuf, 0, sizeof cbuf);
  {
    struct cmsghdr *cm = CMSG_FIRSTHDR (&mh);
    cm->cmsg_level = SOL_SOCKET; cm->cmsg_type = SCM_RIGHTS; cm->cmsg_len = CMSG_LEN (sizeof (int) * (size_t) nf);
    memcpy (CMSG_DATA (cm), fds, sizeof (int) * (size_t) nf);
  }
  w = sendmsg (clients[c].fd, &mh, MSG_NOSIGNAL);
  return w < 0 ? -(long) errno - 100 : (long) w;
}

/* drain one client: appends "c<i>=<hex>[!eof][ fds...]" */
static void drain_client (int c, OutBuf *o)
{
  unsigned char tmp[65536]; int eof = 0; int got_any = 0; OutBuf fdsdesc = { 0 };
  if (!clients[c].open) return;
  for (;;)
    {
      struct msghdr mh; struct iovec iov; char cbuf[CMSG_SPACE (sizeof (int) * 256)]; ssize_t r; struct cmsghdr *cm;
      memset (&mh, 0, sizeof mh);
      iov.iov_base = tmp; iov.iov_len = sizeof tmp;
      mh.msg_iov = &iov; mh.msg_iovlen = 1; mh.msg_control = cbuf; mh.msg_controllen = sizeof cbuf;
      r = recvmsg (clients[c].fd, &mh, MSG_CMSG_CLOEXEC);
      if (r < 0) { if (errno == EINTR) continue; if (errno != EAGAIN && errno != EWOULDBLOCK) eof = 1; break; }
      if (r == 0) { eof = 1; break; }
      if (!got_any) { ob_printf (o, " c%d=", c); got_any = 1; }
      ob_hex (o, tmp, (size_t) r);
      for (cm = CMSG_FIRSTHDR (&mh); cm; cm = CMSG_NXTHDR (&mh, cm))
        if (cm->cmsg_level == SOL_SOCKET && cm->cmsg_type == SCM_RIGHTS)
          {
            int nf = (int) ((cm->cmsg_len - CMSG_LEN (0)) / sizeof (int)), i; int *fp = (int *) CMSG_DATA (cm);
            for (i = 0; i < nf; i++)
              {
                struct stat st; off_t off;
                if (fstat (fp[i], &st) == 0) { off = lseek (fp[i], 0, SEEK_CUR); ob_printf (&fdsdesc, "%s%lu:%lu:%ld", fdsdesc.len ? "," : "", (unsigned long) st.st_dev, (unsigned long) st.st_ino, (long) off); }
                close (fp[i]);
              }
          }
    }
  if (eof)
    {
      if (!got_any) ob_printf (o, " c%d=", c);
      ob_puts (o, "!eof");
    }
  if (fdsdesc.len) ob_printf (o, " f%d=%s", c, fdsdesc.s);
  free (fdsdesc.s);
}

static void drain_all (OutBuf *o)
{
  int c; for (c = 0; c < nclients; c++) if (!clients[c].nodrain) drain_client (c, o);
}

/* SEND <c> <hex> [fdlist]  -> "OK <written>" */
static void cmd_send (int argc, char **argv)
{
  size_t n; unsigned char *buf; long w;
  if (argc < 3 || !(buf = unhex (argv[2], &n))) { ob_puts (&out, "ERR badargs"); return; }
  w = do_send (atoi (argv[1]), buf, n, argc > 3 ? argv[3] : NULL);
  ob_printf (&out, "OK %ld", w);
  free (buf);
}

/* (declared above) */ static int pump_budget = 2000;

/* STEP <c> <hex> [fdlist] -> "OK w=<written> it=<iters>[ c0=...]" */
static void cmd_step (int argc, char **argv)
{
  size_t n; unsigned char *buf; long w, it;
  if (argc < 3 || !(buf = unhex (argv[2], &n))) { ob_puts (&out, "ERR badargs"); return; }
  w = do_send (atoi (argv[1]), buf, n, argc > 3 ? argv[3] : NULL);
  it = pump (pump_budget);
  ob_printf (&out, "OK w=%ld it=%ld", w, it);
  drain_all (&out);
  free (buf);
}

static void cmd_pump (int argc, char **argv)
{
  long it = pump (argc > 1 ? atoi (argv[1]) : pump_budget);
  ob_printf (&out, "OK it=%ld", it);
}

static void cmd_recvall (void)
{
  ob_puts (&out, "OK");
  drain_all (&out);
}

static void cmd_recv (int argc, char **argv)
{
  int c = argc > 1 ? atoi (argv[1]) : -1;
  if (c < 0 || c >= nclients) { ob_puts (&out, "ERR badclient"); return; }
  ob_puts (&out, "OK");
  drain_client (c, &out);
}

/* CLOSE <c> [nopump] */
static void cmd_close (int argc, char **argv)
{
  int c = argc > 1 ? atoi (argv[1]) : -1; long it = 0;
  if (c < 0 || c >= nclients || !clients[c].open) { ob_puts (&out, "ERR badclient"); return; }
  /* shutdown() first: activation babysitters are forks of this process and hold copies of every client descriptor
   * until their child exits, so close() alone would not make the bus see the end of the stream */
  shutdown (clients[c].fd, SHUT_RDWR);
  close (clients[c].fd); clients[c].open = 0;
  if (argc < 3) it = pump (pump_budget);
  ob_printf (&out, "OK it=%ld", it);
  drain_all (&out);
}

/* SHUTWR <c> : half-close */
static void cmd_shutwr (int argc, char **argv)
{
  int c = argc > 1 ? atoi (argv[1]) : -1;
  if (c < 0 || c >= nclients || !clients[c].open) { ob_puts (&out, "ERR badclient"); return; }
  shutdown (clients[c].fd, SHUT_WR);
  ob_printf (&out, "OK it=%ld", pump (pump_budget));
  drain_all (&out);
}

/* SHUTRD <c> [nopump] : the client stops reading for good (shutdown(SHUT_RD)); what the bus writes to it from now on fails */
static void cmd_shutrd (int argc, char **argv)
{
  int c = argc > 1 ? atoi (argv[1]) : -1;
  if (c < 0 || c >= nclients || !clients[c].open) { ob_puts (&out, "ERR badclient"); return; }
  shutdown (clients[c].fd, SHUT_RD);
  if (argc > 2 && !strcmp (argv[2], "nopump")) { ob_puts (&out, "OK it=0"); return; }
  ob_printf (&out, "OK it=%ld", pump (pump_budget));
  drain_all (&out);
}

static void cmd_advance (int argc, char **argv)
{
  long it;
  vclock_us += (argc > 1 ? atoll (argv[1]) : 0) * 1000LL;
  it = pump (pump_budget);
  ob_printf (&out, "OK it=%ld", it);
  drain_all (&out);
}

static int cmp_str (const void *a, const void *b) { return strcmp (*(char *const *) a, *(char *const *) b); }

static void cmd_dump (void)
{
  DBusString s; char *copy, *p; char **lines; int n = 0, cap = 64, i; int saved;
  if (!bus) { ob_puts (&out, "ERR nobus"); return; }
  saved = _dbus_get_fail_alloc_counter ();
  _dbus_set_fail_alloc_counter (_DBUS_INT_MAX);
  if (!_dbus_string_init (&s)) _exit (3);
  if (!bus_verif_dump_registry (bus_context_get_registry (bus), &s) ||
      !bus_verif_dump_connections (bus_context_get_connections (bus), &s) ||
      !bus_verif_dump_matchmaker (bus_context_get_matchmaker (bus), "rule", &s) ||
      !bus_verif_dump_activation (bus_context_get_activation (bus), &s))
    _exit (3);
  copy = strdup (_dbus_string_get_const_data (&s));
  _dbus_string_free (&s);
  _dbus_set_fail_alloc_counter (saved);
  lines = malloc (sizeof (char *) * (size_t) cap);
  for (p = strtok (copy, "\n"); p; p = strtok (NULL, "\n"))
    { if (n == cap) { cap *= 2; lines = realloc (lines, sizeof (char *) * (size_t) cap); } lines[n++] = p; }
  qsort (lines, (size_t) n, sizeof (char *), cmp_str);
  ob_puts (&out, "OK ");
  for (i = 0; i < n; i++) { if (i) ob_putc (&out, '|'); ob_puts (&out, lines[i]); }
  free (lines); free (copy);
}

static int count_open_fds (void)
{
  DIR *d = opendir ("/proc/self/fd"); struct dirent *e; int n = 0;
  if (!d) return -1;
  while ((e = readdir (d))) if (e->d_name[0] != '.') n++;
  closedir (d);
  return n - 1; /* the DIR's own fd */
}

/* MKFD <count> : make sure <count> tagged temp files exist; fd index k has offset 1000+k */
static void cmd_mkfd (int argc, char **argv)
{
  int want = argc > 1 ? atoi (argv[1]) : 1, i;
  for (i = 0; nfdtab < want && nfdtab < MAX_FDS; i++)     /* idempotent: make sure <count> tagged files exist */
    {
      char path[300]; int fd;
      snprintf (path, sizeof path, "%s/fdtag-%d-%d", rundir, (int) getpid (), nfdtab);
      fd = open (path, O_RDWR | O_CREAT | O_CLOEXEC, 0600);
      if (fd < 0) { ob_printf (&out, "ERR open: %s", strerror (errno)); return; }
      unlink (path);
      if (ftruncate (fd, 4096)) {}
      lseek (fd, 1000 + nfdtab, SEEK_SET);
      fdtab[nfdtab++] = fd;
    }
  ob_puts (&out, "OK");
  for (i = 0; i < nfdtab; i++)
    { struct stat st; fstat (fdtab[i], &st); ob_printf (&out, " %lu:%lu:%ld", (unsigned long) st.st_dev, (unsigned long) st.st_ino, (long) lseek (fdtab[i], 0, SEEK_CUR)); }
}

/* SOCKBUF <c> <sndbuf> <rcvbuf> */
static void cmd_sockbuf (int argc, char **argv)
{
  int c, s, r;
  if (argc < 4) { ob_puts (&out, "ERR badargs"); return; }
  c = atoi (argv[1]); s = atoi (argv[2]); r = atoi (argv[3]);
  if (c < 0 || c >= nclients || !clients[c].open) { ob_puts (&out, "ERR badclient"); return; }
  if (s > 0) setsockopt (clients[c].fd, SOL_SOCKET, SO_SNDBUF, &s, sizeof s);
  if (r > 0) setsockopt (clients[c].fd, SOL_SOCKET, SO_RCVBUF, &r, sizeof r);
  ob_puts (&out, "OK");
}

/* SRVSOCKBUF <sndbuf> : shrink the send buffer of every bus-side connection socket (all connected AF_UNIX stream
 * sockets of this process that are not client slots), so that a client that does not read really backs up inside the bus */
static void cmd_srvsockbuf (int argc, char **argv)
{
  int fd, n = 0, v = argc > 1 ? atoi (argv[1]) : 4608;
  for (fd = 3; fd < 1024; fd++)
    {
      int i, mine = 0, type = 0, acc = 0; socklen_t l = sizeof type; struct sockaddr_un sa; socklen_t sl = sizeof sa;
      for (i = 0; i < nclients; i++) if (clients[i].open && clients[i].fd == fd) mine = 1;
      if (mine) continue;
      if (getsockopt (fd, SOL_SOCKET, SO_TYPE, &type, &l) < 0 || type != SOCK_STREAM) continue;
      l = sizeof acc;
      if (getsockopt (fd, SOL_SOCKET, SO_ACCEPTCONN, &acc, &l) == 0 && acc) continue;
      if (getpeername (fd, (struct sockaddr *) &sa, &sl) < 0 || sa.sun_family != AF_UNIX) continue;
      if (setsockopt (fd, SOL_SOCKET, SO_SNDBUF, &v, sizeof v) == 0) n++;
    }
  ob_printf (&out, "OK %d", n);
}

int main (int argc, char **argv)
{
  char *line;
  signal (SIGPIPE, SIG_IGN);
  signal (SIGHUP, SIG_IGN);   /* bus/dir-watch-inotify.c asks for a config reload by SIGHUP; reloading is bus/main.c's job, out of scope here */
  if (argc > 1) snprintf (rundir, sizeof rundir, "%s", argv[1]);
  setvbuf (stdout, NULL, _IOFBF, 1 << 16);
  while ((line = read_line ()))
    {
      char *args[512]; int n;
      ob_reset (&out);
      n = split_args (line, args, 512);
      if (n == 0) { ob_puts (&out, "ERR empty"); reply (&out); continue; }
      if (!strcmp (args[0], "DEMARSHAL")) cmd_demarshal (n, args);
      else if (!strcmp (args[0], "LOADMAX")) cmd_loadmax (n, args);
      else if (!strcmp (args[0], "LOADER")) cmd_loader (n, args);
      else if (!strcmp (args[0], "LOADERCUTS")) cmd_loadercuts (n, args);
      else if (!strcmp (args[0], "BUILD")) cmd_build (n, args);
      else if (!strcmp (args[0], "EDIT")) cmd_edit (n, args);
      else if (!strcmp (args[0], "EDITB")) cmd_editb (n, args);
      else if (!strcmp (args[0], "VALIDATE")) cmd_validate (n, args);
      else if (!strcmp (args[0], "SIGWALK")) cmd_sigwalk (n, args);
      else if (!strcmp (args[0], "OOMEDIT")) cmd_oomedit (n, args);
      else if (!strcmp (args[0], "OOMCOPY")) cmd_oomcopy (n, args);
      else if (!strcmp (args[0], "OOMBUILD")) cmd_oombuild (n, args);
      else if (!strcmp (args[0], "OOMRULE")) cmd_oomrule (n, args);
      else if (!strcmp (args[0], "OOMCONFIG")) cmd_oomconfig (n, args);
      else if (!strcmp (args[0], "VALENUM")) cmd_valenum (n, args);
      else if (!strcmp (args[0], "RESET")) cmd_reset (n, args);
      else if (!strcmp (args[0], "BUSFLAGS")) { bus_flags = n > 1 ? atoi (args[1]) : 0; ob_printf (&out, "OK %d", bus_flags); }
      else if (!strcmp (args[0], "RELOAD")) cmd_reload ();
      else if (!strcmp (args[0], "CONNECT")) cmd_connect (n, args);
      else if (!strcmp (args[0], "RAWCONNECT")) cmd_rawconnect (n, args);
      else if (!strcmp (args[0], "SEND")) cmd_send (n, args);
      else if (!strcmp (args[0], "STEP")) cmd_step (n, args);
      else if (!strcmp (args[0], "PUMP")) cmd_pump (n, args);
      else if (!strcmp (args[0], "RECVALL")) cmd_recvall ();
      else if (!strcmp (args[0], "RECV")) cmd_recv (n, args);
      else if (!strcmp (args[0], "CLOSE")) cmd_close (n, args);
      else if (!strcmp (args[0], "SHUTWR")) cmd_shutwr (n, args);
      else if (!strcmp (args[0], "SHUTRD")) cmd_shutrd (n, args);
      else if (!strcmp (args[0], "ADVANCE")) cmd_advance (n, args);
      else if (!strcmp (args[0], "DUMP")) cmd_dump ();
      else if (!strcmp (args[0], "MKFD")) cmd_mkfd (n, args);
      else if (!strcmp (args[0], "SOCKBUF")) cmd_sockbuf (n, args);
      else if (!strcmp (args[0], "SRVSOCKBUF")) cmd_srvsockbuf (n, args);
      else if (!strcmp (args[0], "NODRAIN"))
        {
          /* NODRAIN <c> <0|1> : a stalled client is not read by STEP/RECVALL/... until un-stalled */
          int c = n > 1 ? atoi (args[1]) : -1;
          if (c < 0 || c >= nclients) ob_puts (&out, "ERR badclient");
          else { clients[c].nodrain = n > 2 && atoi (args[2]); ob_puts (&out, "OK"); }
        }
      else if (!strcmp (args[0], "FDCOUNT")) ob_printf (&out, "OK %d", count_open_fds ());
      else if (!strcmp (args[0], "BLOCKS")) ob_printf (&out, "OK %d", _dbus_get_malloc_blocks_outstanding ());
      else if (!strcmp (args[0], "FAILALLOC"))
        {
          /* FAILALLOC <k>|off : the k-th dbus allocation from now fails (k=0: the next one) */
          if (n > 1 && strcmp (args[1], "off")) { _dbus_set_fail_alloc_failures (n > 2 ? atoi (args[2]) : 1); _dbus_set_fail_alloc_counter (atoi (args[1])); }
          else _dbus_set_fail_alloc_counter (_DBUS_INT_MAX);
          ob_printf (&out, "OK %d", _dbus_get_fail_alloc_counter ());
        }
      else if (!strcmp (args[0], "FAILLEFT")) ob_printf (&out, "OK %d", _dbus_get_fail_alloc_counter ());
      else if (!strcmp (args[0], "BUDGET")) { if (n > 1) pump_budget = atoi (args[1]); ob_printf (&out, "OK %d", pump_budget); }
      else if (!strcmp (args[0], "TEARDOWN")) { bus_teardown (); ob_puts (&out, "OK"); }
      else if (!strcmp (args[0], "PING")) ob_puts (&out, "PONG");
      else if (!strcmp (args[0], "QUIT")) { bus_teardown (); ob_puts (&out, "BYE"); reply (&out); break; }
      else ob_puts (&out, "ERR unknown-command");
      reply (&out);
    }
  return 0;
}
