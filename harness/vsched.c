/* vsched — cooperative, deterministic scheduler for REAL threads using one
 * REAL private DBusConnection (C17 part b), driven through hook H3.
 *
 * Every mutex acquisition, condition-variable wait and poll of libdbus is a
 * scheduling point; only one thread runs at a time (semaphore hand-off).  The
 * environment (the scripted peer writing replies / closing, and timers firing)
 * is a set of further actions the scheduler may choose.  A schedule is the
 * list of choices taken at the points where more than one action is enabled;
 * the default choice is 0 = "keep running the current thread" (else lowest
 * id).  One process run = one execution.
 *
 * usage: vsched <rundir> <bodies> <env> <schedule> [free]
 *   bodies   e.g. "block1,block2" | "block1,dispatch" | "block1,cancel1" | "block1,close" | "block1,block2,dispatch"
 *   env      subset of "r1,r2,d1,x" (reply to call 1/2, duplicate reply 1, peer close), in this order of preference
 *   schedule comma separated choice indexes ("-" = all defaults)
 *   free     run the same bodies WITHOUT the scheduler (for the ThreadSanitizer pass); the peer answers from a helper thread
 */
#define _GNU_SOURCE
#include <config.h>
#include "vcommon.h"

#include <dbus/dbus.h>
#include <dbus/dbus-internals.h>
#include <dbus/dbus-sysdeps.h>
#include <dbus/dbus-threads-internal.h>

#include <pthread.h>
#include <semaphore.h>
#include <poll.h>
#include <sys/socket.h>
#include <sys/un.h>
#include <signal.h>

#define MAXT 4
#define MAXM 64
#define HORIZON 6000

typedef struct
{
  int id; pthread_t th; sem_t sem;
  int alive, done;
  int op; void *obj, *obj2; int arg, arg2;      /* pending operation */
  int blocked_cond, woken, timed, fired;          /* condvar wait */
  int blocked_poll; struct pollfd *pfds; int npfds;
  long long deadline_us;
  const char *body;
} Thr;

static Thr thr[MAXT]; static int nthr;
static __thread Thr *self;
static __thread int in_hook;
static int sched_active;
static sem_t main_sem;
static int current = -1;
static struct { void *m; int owner; int count; } mtab[MAXM];
static long long vclock_us = 1000000LL * 1000000LL;
static int steps;
static OutBuf trace;
static const char *status = "ok";

/* schedule */
static int sched[4096]; static int nsched, sched_pos;

/* connection and calls */
static DBusConnection *conn; static int peer = -1, lsock = -1;
static struct { DBusPendingCall *p; dbus_uint32_t serial; int notified; int block_returned; int cancelled; int cancel_step, notify_step; } pc[5];
static dbus_uint32_t sent_serials[8]; static int n_sent_serials;   /* serials handed out to messages sent while the threads run */
static int call_timeout_ms;
static const char *env_spec = "";
static int env_done[8];
static int free_run;

static void clock_hook (int which, long *tv_sec, long *tv_usec)
{
  long long t = vclock_us + (which ? 600000000LL * 1000000LL : 0);
  if (!sched_active && free_run) { struct timespec ts; clock_gettime (which ? CLOCK_REALTIME : CLOCK_MONOTONIC, &ts); if (tv_sec) *tv_sec = ts.tv_sec; if (tv_usec) *tv_usec = ts.tv_nsec / 1000; return; }
  if (tv_sec) *tv_sec = (long) (t / 1000000);
  if (tv_usec) *tv_usec = (long) (t % 1000000);
}

/* ---- mutex model ------------------------------------------------------- */
static int mslot (void *m)
{
  int i, freei = -1;
  for (i = 0; i < MAXM; i++) { if (mtab[i].m == m) return i; if (mtab[i].m == NULL && freei < 0) freei = i; }
  if (freei < 0) { fprintf (stderr, "vsched: mutex table full\n"); _exit (3); }
  mtab[freei].m = m; mtab[freei].owner = -1; mtab[freei].count = 0;
  return freei;
}
static int mfree_for (void *m, int tid, int recursive)
{
  int s = mslot (m);
  return mtab[s].owner < 0 || (recursive && mtab[s].owner == tid);
}
static void macquire (void *m, int tid) { int s = mslot (m); mtab[s].owner = tid; mtab[s].count++; }
static void mrelease (void *m) { int s = mslot (m); if (--mtab[s].count <= 0) { mtab[s].owner = -1; mtab[s].count = 0; mtab[s].m = NULL; } }

/* ---- environment ----------------------------------------------------------- */
void _dbus_verif_connection_set_next_serial (DBusConnection *connection, dbus_uint32_t serial);
static const char *env_names[] = { "r1", "r2", "d1", "x", "r3", "r4" };
#define NENV 6
static int env_wanted (int k) { return strstr (env_spec, env_names[k]) != NULL; }

static void peer_send_reply (int call, int dup)
{
  /* a METHOD_RETURN with reply_serial = serial of the call, little endian, body (u) */
  unsigned char m[64]; dbus_uint32_t rs = pc[call].serial; size_t n = 0; static dbus_uint32_t myserial = 500;
  (void) dup;
  memset (m, 0, sizeof m);
  m[0] = 'l'; m[1] = 2; m[2] = 1; m[3] = 1;
  { dbus_uint32_t bl = 4; memcpy (m + 4, &bl, 4); }
  { dbus_uint32_t s = ++myserial; memcpy (m + 8, &s, 4); }
  /* fields: (5 'u' reply_serial) (8 'g' "u") */
  n = 16;
  m[n++] = 5; m[n++] = 1; m[n++] = 'u'; m[n++] = 0; memcpy (m + n, &rs, 4); n += 4;      /* 8 bytes */
  m[n++] = 8; m[n++] = 1; m[n++] = 'g'; m[n++] = 0; m[n++] = 1; m[n++] = 'u'; m[n++] = 0;  /* 7 bytes */
  { dbus_uint32_t fl = (dbus_uint32_t) (n - 16); memcpy (m + 12, &fl, 4); }
  while (n % 8) m[n++] = 0;
  { dbus_uint32_t v = 7; memcpy (m + n, &v, 4); n += 4; }
  if (send (peer, m, n, MSG_NOSIGNAL) < 0) {}
}

static void env_perform (int k)
{
  env_done[k] = 1;
  switch (k)
    {
    case 0: peer_send_reply (1, 0); break;
    case 1: peer_send_reply (2, 0); break;
    case 2: peer_send_reply (1, 1); break;
    case 3: if (peer >= 0) { close (peer); peer = -1; } break;
    case 4: peer_send_reply (3, 0); break;
    case 5: peer_send_reply (4, 0); break;
    }
}

/* ---- scheduler ------------------------------------------------------------------- */
static int fd_ready (Thr *t)
{
  int r;
  in_hook++;
  r = poll (t->pfds, (nfds_t) t->npfds, 0);
  in_hook--;
  return r != 0;
}

static int thread_enabled (Thr *t)
{
  if (!t->alive || t->done) return 0;
  switch (t->op)
    {
    case 0: return 1;                                     /* just started / between operations */
    case DBUS_VERIF_OP_CMUTEX_LOCK: return mfree_for (t->obj, t->id, 0);
    case DBUS_VERIF_OP_RMUTEX_LOCK: case DBUS_VERIF_OP_GLOBAL_LOCK: return mfree_for (t->obj, t->id, 1);
    case DBUS_VERIF_OP_CONDVAR_WAIT: case DBUS_VERIF_OP_CONDVAR_WAIT_TIMEOUT:
      if (t->blocked_cond) return (t->woken || t->fired) && mfree_for (t->obj2, t->id, 0);
      return 1;
    case DBUS_VERIF_OP_POLL:
      if (t->blocked_poll) return t->fired || fd_ready (t);
      return 1;
    }
  return 1;
}

/* returns >= 0: thread id to run; -1 none.  Environment actions are performed inside. */
static int pick (void)
{
  for (;;)
    {
      int cand[MAXT + 16]; int kind[MAXT + 16]; int n = 0, i, choice;
      if (++steps > HORIZON) { status = "horizon"; return -1; }
      /* canonical order: the running thread first if still enabled, then ascending ids, then environment */
      if (current >= 0 && thread_enabled (&thr[current])) { cand[n] = current; kind[n++] = 0; }
      for (i = 0; i < nthr; i++) if (i != current && thread_enabled (&thr[i])) { cand[n] = i; kind[n++] = 0; }
      for (i = 0; i < NENV; i++) if (env_wanted (i) && !env_done[i] && (i != 2 || env_done[0]) && (i < 4 || pc[i - 1].serial != 0) && peer >= 0) { cand[n] = i; kind[n++] = 1; }
      /* a timer may fire for a thread blocked with a finite timeout that is not otherwise enabled */
      for (i = 0; i < nthr; i++)
        if (thr[i].alive && !thr[i].done && !thr[i].fired &&
            ((thr[i].blocked_poll && thr[i].arg2 >= 0 && !fd_ready (&thr[i])) ||
             (thr[i].blocked_cond && thr[i].timed && !thr[i].woken)))
          { cand[n] = i; kind[n++] = 2; }
      if (n == 0) return -1;
      choice = 0;
      if (n > 1)
        {
          if (sched_pos < nsched) choice = sched[sched_pos];
          sched_pos++;
          if (choice >= n) { status = "bad-schedule"; return -1; }
          ob_printf (&trace, "%d:%d%c;", n, choice, "tef"[kind[choice]]);
        }
      if (kind[choice] == 0) return cand[choice];
      if (kind[choice] == 1) { env_perform (cand[choice]); continue; }
      /* fire the timer of that thread: time jumps to its deadline */
      if (thr[cand[choice]].deadline_us > vclock_us) vclock_us = thr[cand[choice]].deadline_us;
      thr[cand[choice]].fired = 1;
    }
}

static void finish_all (void);

/* called by a managed thread at a scheduling point; returns when it is this thread's turn */
static void sched_point (void)
{
  int next = pick ();
  if (next < 0) { finish_all (); /* wake main; this thread parks forever */ sem_wait (&self->sem); return; }
  if (next != self->id)
    {
      current = next;
      sem_post (&thr[next].sem);
      sem_wait (&self->sem);
    }
  current = self->id;
}

static void finish_all (void)
{
  int alive = 0, i;
  for (i = 0; i < nthr; i++) if (thr[i].alive && !thr[i].done) alive++;
  if (alive && !strcmp (status, "ok")) status = "deadlock";
  sched_active = 0;
  sem_post (&main_sem);
}

static int sync_hook (int op, void *obj, void *obj2, int arg, int arg2, int *result)
{
  Thr *t = self;
  if (!sched_active || t == NULL || in_hook) return 0;
  switch (op)
    {
    case DBUS_VERIF_OP_CMUTEX_UNLOCK: case DBUS_VERIF_OP_RMUTEX_UNLOCK: mrelease (obj); return 0;
    case DBUS_VERIF_OP_GLOBAL_UNLOCK: mrelease ((void *) 1); return 0;
    case DBUS_VERIF_OP_CONDVAR_WAKE_ONE:
      { int i; for (i = 0; i < nthr; i++) if (thr[i].blocked_cond && thr[i].obj == obj && !thr[i].woken) { thr[i].woken = 1; break; } return 0; }
    case DBUS_VERIF_OP_GLOBAL_LOCK: obj = (void *) 1; /* fall through */
    case DBUS_VERIF_OP_CMUTEX_LOCK: case DBUS_VERIF_OP_RMUTEX_LOCK:
      t->op = op; t->obj = obj;
      do sched_point (); while (sched_active && !thread_enabled (t));
      if (!sched_active) return 0;
      macquire (obj, t->id);
      t->op = 0;
      return 0;            /* the real lock is free by construction */
    case DBUS_VERIF_OP_CONDVAR_WAIT: case DBUS_VERIF_OP_CONDVAR_WAIT_TIMEOUT:
      t->op = op; t->obj = obj; t->obj2 = obj2; t->arg = arg;
      t->timed = (op == DBUS_VERIF_OP_CONDVAR_WAIT_TIMEOUT);
      t->deadline_us = vclock_us + (long long) arg * 1000LL;
      t->woken = t->fired = 0;
      /* release the mutex for real and in the model, then wait to be woken or timed out */
      mrelease (obj2);
      in_hook++; _dbus_platform_cmutex_unlock (obj2); in_hook--;
      t->blocked_cond = 1;
      do sched_point (); while (sched_active && !thread_enabled (t));
      t->blocked_cond = 0;
      in_hook++; _dbus_platform_cmutex_lock (obj2); in_hook--;
      if (sched_active) macquire (obj2, t->id);
      *result = t->woken ? 1 : 0;
      t->op = 0;
      return 1;
    case DBUS_VERIF_OP_POLL:
      {
        int r;
        t->op = op; t->pfds = obj; t->npfds = arg; t->arg2 = arg2;
        t->blocked_poll = 0; t->fired = 0;
        sched_point ();
        if (!sched_active) return 0;
        in_hook++; r = poll (obj, (nfds_t) arg, 0); in_hook--;
        if (r != 0 || arg2 == 0) { *result = r; t->op = 0; return 1; }
        t->deadline_us = vclock_us + (long long) (arg2 < 0 ? 0 : arg2) * 1000LL;
        t->blocked_poll = 1;
        do sched_point (); while (sched_active && !thread_enabled (t));
        t->blocked_poll = 0;
        if (!sched_active) return 0;
        in_hook++; r = poll (obj, (nfds_t) arg, 0); in_hook--;
        *result = r;
        t->op = 0;
        return 1;
      }
    }
  return 0;
}

/* ---- thread bodies ------------------------------------------------------------------ */
/* the harness's own bookkeeping uses atomics so that the ThreadSanitizer pass only reports races inside libdbus */
#define A_INC(x) __atomic_add_fetch (&(x), 1, __ATOMIC_SEQ_CST)
#define A_SET(x, v) __atomic_store_n (&(x), (v), __ATOMIC_SEQ_CST)
static void notify_fn (DBusPendingCall *p, void *data) { (void) p; A_INC (pc[(intptr_t) data].notified); A_SET (pc[(intptr_t) data].notify_step, A_INC (steps)); }

static void run_body (const char *b)
{
  if (!strncmp (b, "block", 5)) { int i = b[5] - '0'; dbus_pending_call_block (pc[i].p); A_SET (pc[i].block_returned, 1); }
  else if (!strncmp (b, "cancel", 6)) { int i = b[6] - '0'; dbus_pending_call_cancel (pc[i].p); A_SET (pc[i].cancelled, 1); A_SET (pc[i].cancel_step, A_INC (steps)); }
  else if (!strcmp (b, "close")) dbus_connection_close (conn);
  else if (!strncmp (b, "call", 4))
    {
      /* a call made while the other threads run: the serial is handed out, the pending call registered and the
       * message queued by this thread; then it waits for its own reply.  No notify function: a reply may
       * legitimately complete the call before one could be installed. */
      int i = b[4] - '0'; DBusPendingCall *p = NULL;
      DBusMessage *m = dbus_message_new_method_call ("peer.name", "/x", "x.y", "M");
      if (m && dbus_connection_send_with_reply (conn, m, &p, call_timeout_ms) && p)
        {
          __atomic_store_n (&pc[i].p, p, __ATOMIC_SEQ_CST);
          __atomic_store_n (&pc[i].serial, dbus_message_get_serial (m), __ATOMIC_SEQ_CST);
          dbus_pending_call_block (p); A_SET (pc[i].block_returned, 1);
        }
      if (m) dbus_message_unref (m);
    }
  else if (!strcmp (b, "send"))
    {
      /* two signals sent while the other threads run: their serials must differ from every other serial handed out */
      int k;
      for (k = 0; k < 2; k++)
        {
          DBusMessage *m = dbus_message_new_signal ("/x", "x.y", "S"); dbus_uint32_t ser = 0;
          if (m && dbus_connection_send (conn, m, &ser)) { int at = __atomic_fetch_add (&n_sent_serials, 1, __ATOMIC_SEQ_CST); if (at < 8) sent_serials[at] = ser; }
          if (m) dbus_message_unref (m);
        }
    }
  else if (!strcmp (b, "dispatch"))
    {
      int k;
      for (k = 0; k < 4; k++)
        {
          if (!dbus_connection_read_write_dispatch (conn, 50)) break;
          { int i, all = 1; for (i = 1; i <= 4; i++) { DBusPendingCall *q = __atomic_load_n (&pc[i].p, __ATOMIC_SEQ_CST); if (q && !dbus_pending_call_get_completed (q)) all = 0; } if (all) break; }
        }
    }
}

static void *thread_main (void *arg)
{
  Thr *t = arg;
  self = t;
  if (!free_run) sem_wait (&t->sem);
  run_body (t->body);
  t->done = 1;
  if (!free_run)
    {
      int next = pick ();
      if (next < 0) finish_all ();
      else { current = next; sem_post (&thr[next].sem); }
    }
  return NULL;
}

static void *free_peer (void *arg)
{
  (void) arg;
  usleep (1000);
  if (env_wanted (0)) env_perform (0);
  if (env_wanted (1)) env_perform (1);
  if (env_wanted (2)) env_perform (2);
  { int k, spins; for (k = 4; k < NENV; k++) if (env_wanted (k))
      {
        /* only atomic reads of what the calling thread publishes (a plain read after a wait that timed out would race with it) */
        dbus_uint32_t sv = 0;
        for (spins = 0; spins < 20000 && !(sv = __atomic_load_n (&pc[k - 1].serial, __ATOMIC_SEQ_CST)); spins++) usleep (100);
        if (sv) env_perform (k);
      } }
  if (env_wanted (3)) { usleep (2000); env_perform (3); }
  return NULL;
}

/* ---- setup (single-threaded) --------------------------------------------------------------- */
static int peer_read_line (char *buf, size_t cap)
{
  size_t n = 0; int spins = 0;
  while (n + 1 < cap)
    {
      char c; ssize_t r = recv (peer, &c, 1, MSG_DONTWAIT);
      if (r == 1) { if (c == 0) continue; buf[n++] = c; if (c == '\n') break; continue; }
      if (++spins > 5000) return -1;
      dbus_connection_read_write (conn, 0);
    }
  buf[n] = 0;
  return (int) n;
}

static int setup (const char *dir, int ncalls, int timeout_ms)
{
  struct sockaddr_un sa; char addr[300], line[4096]; DBusError err; int i;
  dbus_threads_init_default ();
  memset (&sa, 0, sizeof sa); sa.sun_family = AF_UNIX;
  snprintf (sa.sun_path, sizeof sa.sun_path, "%s/sched-%d.sock", dir, (int) getpid ());
  unlink (sa.sun_path);
  lsock = socket (AF_UNIX, SOCK_STREAM | SOCK_CLOEXEC, 0);
  if (bind (lsock, (struct sockaddr *) &sa, sizeof sa) < 0 || listen (lsock, 4) < 0) return 0;
  snprintf (addr, sizeof addr, "unix:path=%s", sa.sun_path);
  dbus_error_init (&err);
  conn = dbus_connection_open_private (addr, &err);
  if (!conn) return 0;
  dbus_connection_set_exit_on_disconnect (conn, FALSE);
  peer = accept4 (lsock, NULL, NULL, SOCK_CLOEXEC);
  unlink (sa.sun_path);
  for (;;)
    {
      if (peer_read_line (line, sizeof line) <= 0) return 0;
      if (strstr (line, "AUTH")) { if (send (peer, "OK 0123456789abcdef0123456789abcdef\r\n", 37, MSG_NOSIGNAL) < 0) {} }
      else if (strstr (line, "NEGOTIATE_UNIX_FD")) { if (send (peer, "AGREE_UNIX_FD\r\n", 15, MSG_NOSIGNAL) < 0) {} }
      else if (strstr (line, "BEGIN")) break;
      else { if (send (peer, "ERROR\r\n", 7, MSG_NOSIGNAL) < 0) {} }
    }
  for (i = 0; i < 50 && !dbus_connection_get_is_authenticated (conn); i++) dbus_connection_read_write (conn, 0);
  /* "wrap": the serial counter starts just below 2^32, so the serials handed out while the threads run cross the wrap */
  if (strstr (env_spec, "wrap")) _dbus_verif_connection_set_next_serial (conn, 0xffffffffu - (dbus_uint32_t) ncalls);
  for (i = 1; i <= ncalls; i++)
    {
      DBusMessage *m = dbus_message_new_method_call ("peer.name", "/x", "x.y", "M");
      if (!dbus_connection_send_with_reply (conn, m, &pc[i].p, timeout_ms) || !pc[i].p) return 0;
      pc[i].serial = dbus_message_get_serial (m);
      dbus_message_unref (m);
      dbus_pending_call_set_notify (pc[i].p, notify_fn, (void *) (intptr_t) i, NULL);
    }
  dbus_connection_flush (conn);
  { unsigned char tmp[4096]; while (recv (peer, tmp, sizeof tmp, MSG_DONTWAIT) > 0) {} }
  return 1;
}

int main (int argc, char **argv)
{
  char *bodies, *p; int i, ncalls = 1; OutBuf o = { 0 };
  signal (SIGPIPE, SIG_IGN);
  if (argc < 5) { fprintf (stderr, "usage\n"); return 2; }
  bodies = strdup (argv[2]); env_spec = argv[3];
  free_run = argc > 5 && !strcmp (argv[5], "free");
  if (strcmp (argv[4], "-") != 0) { char *q = argv[4]; while (*q && nsched < 4096) { sched[nsched++] = (int) strtol (q, &q, 10); if (*q == ',') q++; } }
  if (strstr (bodies, "2")) ncalls = 2;
  if (!strstr (bodies, "1") && !strstr (bodies, "2") && !strstr (bodies, "dispatch") && !strstr (bodies, "close")) ncalls = 0;   /* only calls made by the threads themselves */
  _dbus_verif_clock_hook = clock_hook;
  /* "inf" in the environment spec: the calls are made with DBUS_TIMEOUT_INFINITE (a wait that misses its reply never ends) */
  call_timeout_ms = free_run ? 300 : (strstr (env_spec, "inf") ? DBUS_TIMEOUT_INFINITE : 5000);
  if (!setup (argv[1], ncalls, call_timeout_ms)) { printf ("status=setup-failed\n"); return 0; }
  for (p = strtok (bodies, ","); p && nthr < MAXT; p = strtok (NULL, ","))
    { thr[nthr].id = nthr; thr[nthr].body = p; thr[nthr].alive = 1; sem_init (&thr[nthr].sem, 0, 0); nthr++; }
  sem_init (&main_sem, 0, 0);
  if (free_run)
    {
      pthread_t pt;
      pthread_create (&pt, NULL, free_peer, NULL);
      for (i = 0; i < nthr; i++) pthread_create (&thr[i].th, NULL, thread_main, &thr[i]);
      for (i = 0; i < nthr; i++) pthread_join (thr[i].th, NULL);
      pthread_join (pt, NULL);
    }
  else
    {
      int first;
      _dbus_verif_sync_hook = sync_hook;
      for (i = 0; i < nthr; i++) pthread_create (&thr[i].th, NULL, thread_main, &thr[i]);
      sched_active = 1;
      first = pick ();
      if (first < 0) finish_all ();
      else { current = first; sem_post (&thr[first].sem); }
      sem_wait (&main_sem);
      sched_active = 0;
      _dbus_verif_sync_hook = NULL;
      if (!strcmp (status, "ok")) for (i = 0; i < nthr; i++) pthread_join (thr[i].th, NULL);
    }
  /* final single-threaded pump so that everything that was delivered is dispatched */
  if (!strcmp (status, "ok"))
    {
      int idle = 0;
      for (i = 0; i < 100 && idle < 3; i++)
        {
          int did = 0;
          dbus_connection_read_write (conn, 0);
          while (dbus_connection_get_dispatch_status (conn) == DBUS_DISPATCH_DATA_REMAINS) { dbus_connection_dispatch (conn); did = 1; }
          idle = did ? 0 : idle + 1;
        }
      for (i = 1; i <= 4; i++)
        {
          DBusMessage *r;
          if (!pc[i].p) continue;
          ob_printf (&o, " pc%d=%d/%d/%d/%d/%d/%d/", i, dbus_pending_call_get_completed (pc[i].p), pc[i].notified, pc[i].block_returned, pc[i].cancelled, pc[i].cancel_step, pc[i].notify_step);
          if (dbus_pending_call_get_completed (pc[i].p) && (r = dbus_pending_call_steal_reply (pc[i].p)))
            {
              ob_printf (&o, "type=%d,rserial=%u,own=%u,err=%s", dbus_message_get_type (r), dbus_message_get_reply_serial (r), pc[i].serial,
                         dbus_message_get_error_name (r) ? dbus_message_get_error_name (r) : "-");
              dbus_message_unref (r);
            }
          else ob_puts (&o, "-");
        }
    }
  {
    /* every serial this connection handed out (calls, signals sent by the threads): judged non-zero and distinct */
    ob_puts (&o, " serials=");
    for (i = 1; i <= 4; i++) if (pc[i].serial) ob_printf (&o, "%u,", pc[i].serial);
    for (i = 0; i < n_sent_serials && i < 8; i++) ob_printf (&o, "%u,", sent_serials[i]);
  }
  printf ("status=%s steps=%d env=%d%d%d%d%d%d trace=%s%s\n", status, steps, env_done[0], env_done[1], env_done[2], env_done[3], env_done[4], env_done[5], trace.len ? trace.s : "-", o.len ? o.s : "");
  fflush (stdout);
  _exit (0);
}
