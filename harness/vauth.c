/* vauth — command server driving a REAL server-side DBusAuth object with
 * chosen socket credentials and allowed mechanisms (C08, protocol level). */
#define _GNU_SOURCE
#include <config.h>
#include "vcommon.h"

#include <dbus/dbus.h>
#include <dbus/dbus-internals.h>
#include <dbus/dbus-string.h>
#include <dbus/dbus-auth.h>
#include <dbus/dbus-credentials.h>
#include <dbus/dbus-sysdeps.h>
#include <signal.h>

static OutBuf out;
static DBusAuth *auth;
static long long vclock_us = 1000000LL * 1000000LL;

static void clock_hook (int which, long *tv_sec, long *tv_usec)
{
  long long t = vclock_us + (which ? 600000000LL * 1000000LL : 0);
  if (tv_sec) *tv_sec = (long) (t / 1000000);
  if (tv_usec) *tv_usec = (long) (t % 1000000);
}

static const char *state_name (DBusAuthState s)
{
  switch (s)
    {
    case DBUS_AUTH_STATE_WAITING_FOR_INPUT: return "waiting";
    case DBUS_AUTH_STATE_WAITING_FOR_MEMORY: return "memory";
    case DBUS_AUTH_STATE_HAVE_BYTES_TO_SEND: return "sending";
    case DBUS_AUTH_STATE_NEED_DISCONNECT: return "disconnect";
    case DBUS_AUTH_STATE_AUTHENTICATED: return "authenticated";
    default: return "invalid";
    }
}

/* NEW <uid|none> <mech,mech|all> <fdpossible 0|1> */
static void cmd_new (int argc, char **argv)
{
  DBusString guid; DBusCredentials *creds; char *mechs[8]; int nm = 0;
  static char mbuf[256];
  if (argc < 4) { ob_puts (&out, "ERR badargs"); return; }
  if (auth) { _dbus_auth_unref (auth); auth = NULL; }
  _dbus_verif_clock_hook = clock_hook;
  _dbus_string_init_const (&guid, "0123456789abcdef0123456789abcdef");
  auth = _dbus_auth_server_new (&guid);
  if (!auth) { ob_puts (&out, "ERR oom"); return; }
  if (strcmp (argv[2], "all") != 0)
    {
      char *p; snprintf (mbuf, sizeof mbuf, "%s", argv[2]);
      for (p = strtok (mbuf, ","); p && nm < 7; p = strtok (NULL, ",")) mechs[nm++] = p;
      mechs[nm] = NULL;
      if (!_dbus_auth_set_mechanisms (auth, (const char **) mechs)) { ob_puts (&out, "ERR oom"); return; }
    }
  creds = _dbus_credentials_new ();
  if (strcmp (argv[1], "none") != 0)
    {
      _dbus_credentials_add_unix_uid (creds, (dbus_uid_t) strtoul (argv[1], NULL, 10));
      _dbus_credentials_add_pid (creds, 4242);
    }
  if (!_dbus_auth_set_credentials (auth, creds)) { ob_puts (&out, "ERR oom"); return; }
  _dbus_credentials_unref (creds);
  _dbus_auth_set_unix_fd_possible (auth, atoi (argv[3]));
  ob_puts (&out, "OK");
}

static void describe (void)
{
  DBusAuthState st; OutBuf sent = { 0 }; int guard = 0;
  for (;;)
    {
      st = _dbus_auth_do_work (auth);
      if (st == DBUS_AUTH_STATE_HAVE_BYTES_TO_SEND && guard++ < 1000)
        {
          const DBusString *b;
          if (_dbus_auth_get_bytes_to_send (auth, &b))
            {
              ob_hex (&sent, (const unsigned char *) _dbus_string_get_const_data (b), (size_t) _dbus_string_get_length (b));
              _dbus_auth_bytes_sent (auth, _dbus_string_get_length (b));
            }
          continue;
        }
      break;
    }
  ob_printf (&out, "OK state=%s out=%s", state_name (st), sent.len ? sent.s : "-");
  free (sent.s);
  if (st != DBUS_AUTH_STATE_AUTHENTICATED)
    ob_puts (&out, " identity=n/a");     /* the transport only asks for the identity once authenticated */
  else
  {
    DBusCredentials *id = _dbus_auth_get_identity (auth);
    if (_dbus_credentials_include (id, DBUS_CREDENTIAL_UNIX_USER_ID))
      ob_printf (&out, " identity=%lu", (unsigned long) _dbus_credentials_get_unix_uid (id));
    else if (_dbus_credentials_are_anonymous (id)) ob_puts (&out, " identity=anon");
    else ob_puts (&out, " identity=other");
  }
  {
    const DBusString *u = NULL;
    _dbus_auth_get_unused_bytes (auth, &u);
    ob_puts (&out, " unused=");
    if (u == NULL) ob_puts (&out, "n/a");
    else if (_dbus_string_get_length (u) == 0) ob_putc (&out, '-');
    else ob_hex (&out, (const unsigned char *) _dbus_string_get_const_data (u), (size_t) _dbus_string_get_length (u));
  }
  ob_printf (&out, " fdneg=%d", _dbus_auth_get_unix_fd_negotiated (auth));
  {
    /* hook H2: the object's internal state, for the explorer's state key (spaces replaced so that it stays one token) */
    DBusString d; int i;
    if (!_dbus_string_init (&d)) _exit (3);
    if (!_dbus_verif_auth_dump (auth, &d)) _exit (3);
    ob_puts (&out, " dump=");
    for (i = 0; i < _dbus_string_get_length (&d); i++)
      { char c = _dbus_string_get_byte (&d, i); ob_putc (&out, c == ' ' ? '~' : c); }
    _dbus_string_free (&d);
  }
}

/* FEED <hex> */
static void cmd_feed (int argc, char **argv)
{
  size_t n; unsigned char *b; DBusString *buffer;
  if (argc < 2 || !auth || !(b = unhex (argv[1], &n))) { ob_puts (&out, "ERR badargs"); return; }
  _dbus_auth_get_buffer (auth, &buffer);
  if (!_dbus_string_append_len (buffer, (const char *) b, (int) n)) _exit (3);
  _dbus_auth_return_buffer (auth, buffer);
  free (b);
  describe ();
}

int main (void)
{
  char *line;
  signal (SIGPIPE, SIG_IGN);
  setvbuf (stdout, NULL, _IOFBF, 1 << 16);
  while ((line = read_line ()))
    {
      char *a[16]; int n;
      ob_reset (&out);
      n = split_args (line, a, 16);
      if (n == 0) { ob_puts (&out, "ERR empty"); reply (&out); continue; }
      if (!strcmp (a[0], "NEW")) cmd_new (n, a);
      else if (!strcmp (a[0], "FEED")) cmd_feed (n, a);
      else if (!strcmp (a[0], "ADVANCE")) { vclock_us += (n > 1 ? atoll (a[1]) : 0) * 1000000LL; ob_puts (&out, "OK"); }
      else if (!strcmp (a[0], "QUIT")) { ob_puts (&out, "BYE"); reply (&out); break; }
      else ob_puts (&out, "ERR unknown-command");
      reply (&out);
    }
  return 0;
}
