/* vstub — service stub started by the bus under test (C19).
 * usage: vstub <dir> <service-name>
 * Appends "started <name> <pid>\n" to <dir>/starts.log, then blocks reading
 * the fifo <dir>/ctl-<name>; the first byte read is its exit status
 * ('0'..'9'), 'S' means raise SIGSEGV.  It never takes a bus name itself:
 * the harness decides when and whether a (raw) client does. */
#define _GNU_SOURCE
#include <stdio.h>
#include <stdlib.h>
#include <string.h>
#include <unistd.h>
#include <fcntl.h>
#include <signal.h>
#include <sys/stat.h>

int main (int argc, char **argv)
{
  char path[512], line[256]; int fd, n; char c = '0';
  if (argc < 3) return 99;
  snprintf (path, sizeof path, "%s/starts.log", argv[1]);
  fd = open (path, O_WRONLY | O_APPEND | O_CREAT, 0644);
  if (fd < 0) return 98;
  n = snprintf (line, sizeof line, "started %s %d\n", argv[2], (int) getpid ());
  if (write (fd, line, (size_t) n) != n) return 97;
  close (fd);
  snprintf (path, sizeof path, "%s/ctl-%s", argv[1], argv[2]);
  mkfifo (path, 0600);
  fd = open (path, O_RDONLY);
  if (fd < 0) return 96;
  if (read (fd, &c, 1) != 1) c = '0';
  if (c == 'S') raise (SIGSEGV);
  return c - '0';
}
