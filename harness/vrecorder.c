/* vrecorder — Exec target for the launch-helper product (C19): writes its
 * arguments (after the first) one per line, hex-encoded, to the file named
 * by the first argument. */
#include <stdio.h>
#include <string.h>

int main (int argc, char **argv)
{
  FILE *f; int i; size_t k;
  if (argc < 2) return 9;
  f = fopen (argv[1], "w");
  if (!f) return 8;
  fprintf (f, "ran\n");
  for (i = 2; i < argc; i++)
    {
      for (k = 0; k < strlen (argv[i]); k++) fprintf (f, "%02x", (unsigned char) argv[i][k]);
      fprintf (f, "\n");
    }
  fclose (f);
  return 0;
}
