/* vcommon.h — shared plumbing of the verification harnesses (line protocol,
 * hex, growable output buffer).  The harness never allocates with
 * dbus_malloc for its own bookkeeping, so injected allocation failures hit
 * only the code under test. */
#ifndef VCOMMON_H
#define VCOMMON_H

#include <stdio.h>
#include <stdlib.h>
#include <string.h>
#include <stdarg.h>
#include <stdint.h>
#include <unistd.h>
#include <errno.h>

typedef struct { char *s; size_t len, cap; } OutBuf;

static void ob_reserve (OutBuf *o, size_t extra)
{
  if (o->len + extra + 1 > o->cap)
    {
      size_t ncap = o->cap ? o->cap * 2 : 4096;
      while (ncap < o->len + extra + 1) ncap *= 2;
      o->s = realloc (o->s, ncap);
      if (!o->s) { fprintf (stderr, "harness: out of memory\n"); _exit (3); }
      o->cap = ncap;
    }
}
static void ob_reset (OutBuf *o) { o->len = 0; if (o->s) o->s[0] = 0; }
static void ob_putc (OutBuf *o, char c) { ob_reserve (o, 1); o->s[o->len++] = c; o->s[o->len] = 0; }
static void ob_puts (OutBuf *o, const char *s) { size_t n = strlen (s); ob_reserve (o, n); memcpy (o->s + o->len, s, n); o->len += n; o->s[o->len] = 0; }
static void ob_printf (OutBuf *o, const char *fmt, ...) __attribute__ ((format (printf, 2, 3)));
static void ob_printf (OutBuf *o, const char *fmt, ...)
{
  va_list ap; int n;
  va_start (ap, fmt); n = vsnprintf (NULL, 0, fmt, ap); va_end (ap);
  ob_reserve (o, (size_t) n);
  va_start (ap, fmt); vsnprintf (o->s + o->len, (size_t) n + 1, fmt, ap); va_end (ap);
  o->len += (size_t) n;
}
static void ob_hex (OutBuf *o, const unsigned char *p, size_t n)
{
  static const char hx[] = "0123456789abcdef"; size_t i;
  ob_reserve (o, n * 2);
  for (i = 0; i < n; i++) { o->s[o->len++] = hx[p[i] >> 4]; o->s[o->len++] = hx[p[i] & 15]; }
  o->s[o->len] = 0;
}

static int hexval (int c)
{
  if (c >= '0' && c <= '9') return c - '0';
  if (c >= 'a' && c <= 'f') return c - 'a' + 10;
  if (c >= 'A' && c <= 'F') return c - 'A' + 10;
  return -1;
}
/* decode hex into an exactly-sized malloc block (so ASan sees any overrun);
 * "-" means empty.  returns NULL on bad hex; *n gets the length. A zero-length
 * result is a 1-byte block to keep it non-NULL. */
static unsigned char *unhex (const char *h, size_t *n)
{
  size_t l = strlen (h), i; unsigned char *b;
  if (strcmp (h, "-") == 0) l = 0;
  if (l % 2) return NULL;
  b = malloc (l / 2 ? l / 2 : 1);
  for (i = 0; i < l / 2; i++)
    {
      int a = hexval (h[2 * i]), c = hexval (h[2 * i + 1]);
      if (a < 0 || c < 0) { free (b); return NULL; }
      b[i] = (unsigned char) (a * 16 + c);
    }
  *n = l / 2;
  return b;
}

/* read one line from stdin (without '\n'); NULL on EOF */
static char *read_line (void)
{
  static char *buf; static size_t cap;
  ssize_t n = getline (&buf, &cap, stdin);
  if (n < 0) return NULL;
  while (n > 0 && (buf[n - 1] == '\n' || buf[n - 1] == '\r')) buf[--n] = 0;
  return buf;
}

/* split a line in place on spaces; returns argc */
static int split_args (char *line, char **argv, int max)
{
  int n = 0; char *p = line;
  while (*p && n < max)
    {
      while (*p == ' ') p++;
      if (!*p) break;
      argv[n++] = p;
      while (*p && *p != ' ') p++;
      if (*p) *p++ = 0;
    }
  return n;
}

static void reply (OutBuf *o)
{
  fwrite (o->s ? o->s : "", 1, o->len, stdout);
  fputc ('\n', stdout);
  fflush (stdout);
}

#endif
