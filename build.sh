#!/bin/bash
# build.sh — configure (once) and incrementally rebuild /repo's CURRENT WORKING
# TREE with the verification hooks enabled (-DDBUS_VERIF=1) plus sanitizers,
# then (re)compile the C harnesses under /verif/harness against it.
#
#   ./build.sh setup     configure all build trees, build everything, self-check
#   ./build.sh asan      incremental rebuild of the ASan+UBSan tree + harness (default)
#   ./build.sh tsan      incremental rebuild of the TSan tree + harness
#
# Build output lives in /verif/.build (git-ignored). Ninja's dependency
# tracking makes a no-op rebuild cost ~0.3 s.  A flock serialises concurrent
# invocations (checks may be run in parallel).
set -e
V=$(cd "$(dirname "$0")" && pwd)
REPO=${VERIF_REPO:-/repo}
BROOT=${VERIF_BUILD_ROOT:-$V/.build}
mode=${1:-asan}
mkdir -p "$BROOT"
exec 9>"$BROOT/.lock"
flock 9

COMMON_CMAKE=(-G Ninja -DCMAKE_BUILD_TYPE=None
  -DDBUS_BUILD_TESTS=ON -DDBUS_ENABLE_EMBEDDED_TESTS=ON -DDBUS_ENABLE_MODULAR_TESTS=ON
  -DDBUS_WITH_GLIB=OFF -DDBUS_ENABLE_DOXYGEN_DOCS=OFF -DDBUS_ENABLE_XML_DOCS=OFF
  -DDBUS_BUILD_X11=OFF -DENABLE_QT_HELP=OFF -DDBUS_ENABLE_VERBOSE_MODE=ON
  -DDBUS_ENABLE_STATS=OFF -DDBUS_ENABLE_CONTAINERS=OFF -DENABLE_SYSTEMD=OFF -DENABLE_USER_SESSION=OFF)

build_tree () { # name cflags
  local name=$1 cflags=$2 B=$BROOT/$1
  if [ ! -f "$B/build.ninja" ]; then
    rm -rf "$B"; mkdir -p "$B"
    cmake "${COMMON_CMAKE[@]}" -S "$REPO" -B "$B" \
      -DCMAKE_C_FLAGS="-DDBUS_VERIF=1 -g -O1 -fno-omit-frame-pointer -Wno-error $cflags" \
      -DCMAKE_EXE_LINKER_FLAGS="$cflags" -DCMAKE_SHARED_LINKER_FLAGS="$cflags" \
      >"$B.configure.log" 2>&1 || { cat "$B.configure.log"; exit 2; }
  fi
  local targets="dbus-1 dbus-internal dbus-daemon-internal"
  if [ "$name" = asan ]; then
    targets="$targets launch-helper-internal dbus-daemon-launch-helper-for-tests dbus-daemon"
  fi
  cmake --build "$B" --target $targets >"$B.build.log" 2>&1 || { tail -50 "$B.build.log"; exit 2; }
}

build_harness () { # tree cflags
  local name=$1 cflags=$2 B=$BROOT/$1 H=$BROOT/harness-$1
  mkdir -p "$H"
  local inc="-DDBUS_COMPILATION -DDBUS_VERIF=1 -DHAVE_CONFIG_H -I$B -I$REPO -I$B/dbus -I$V/harness"
  local libs="$B/lib/libdbus-daemon-internal.a $B/lib/libdbus-internal.a -L$B/lib -ldbus-1 -Wl,-rpath,$B/lib -lexpat -lpthread"
  for src in "$V"/harness/*.c; do
    [ -f "$src" ] || continue
    local base; base=$(basename "$src" .c)
    case "$base" in lib_*) continue;; esac
    local out=$H/$base
    # rebuild when the source, any harness header, or any library is newer
    if [ ! -x "$out" ] || [ -n "$(find "$src" "$V"/harness/*.h "$B"/lib/*.a "$B"/lib/libdbus-1.so* -newer "$out" 2>/dev/null | head -1)" ]; then
      extra=""
      [ -f "$V/harness/$base.flags" ] && extra=$(cat "$V/harness/$base.flags")
      gcc -g -O1 -fno-omit-frame-pointer $cflags $inc -o "$out.tmp" "$src" $libs $extra 2>"$out.log" \
        || { cat "$out.log"; exit 2; }
      mv "$out.tmp" "$out"
    fi
  done
}

# VERIF_ASAN_FLAGS / VERIF_TSAN_FLAGS replace the sanitizer flags (tools/coverage.sh builds a gcov tree that way,
# in a scratch VERIF_BUILD_ROOT, to see which lines of the anchored files the checks execute)
ASAN_FLAGS=${VERIF_ASAN_FLAGS:-"-fsanitize=address,undefined -fno-sanitize-recover=undefined"}
TSAN_FLAGS=${VERIF_TSAN_FLAGS:-"-fsanitize=thread"}

case "$mode" in
  setup)
    build_tree asan "$ASAN_FLAGS"; build_harness asan "$ASAN_FLAGS"
    build_tree tsan "$TSAN_FLAGS"; build_harness tsan "$TSAN_FLAGS"
    flock -u 9
    python3 "$V/pyv/selfcheck.py"
    ;;
  asan) build_tree asan "$ASAN_FLAGS"; build_harness asan "$ASAN_FLAGS" ;;
  tsan) build_tree tsan "$TSAN_FLAGS"; build_harness tsan "$TSAN_FLAGS" ;;
  *) echo "usage: $0 setup|asan|tsan" >&2; exit 2 ;;
esac
