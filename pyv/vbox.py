"""Client side of the harness line protocol: spawn a harness binary, send a
command, read one response line, with a watchdog; collect the stderr tail
(sanitizer / assertion reports) when the process dies."""
import os
import select
import subprocess
import tempfile
import shutil
import re
import signal

VERIF = os.path.dirname(os.path.dirname(os.path.abspath(__file__)))
REPO = os.environ.get('VERIF_REPO', '/repo').rstrip('/')
BUILD_ROOT = os.environ.get('VERIF_BUILD_ROOT', os.path.join(VERIF, '.build'))
RUN_ROOT = os.environ.get('VERIF_RUN_DIR', os.path.join(VERIF, '.run', 'adhoc'))

ASAN_ENV = {
    'ASAN_OPTIONS': 'detect_leaks=0:abort_on_error=1:handle_abort=1:allocator_may_return_null=1:symbolize=1:detect_stack_use_after_return=0',
    'UBSAN_OPTIONS': 'print_stacktrace=1:halt_on_error=1',
    'TSAN_OPTIONS': 'halt_on_error=1:second_deadlock_stack=1',
}


class HarnessDied(Exception):
    def __init__(self, why, stderr_tail, cmd):
        Exception.__init__(self, why)
        self.why = why
        self.stderr = stderr_tail
        self.cmd = cmd

    def fingerprint(self):
        return crash_fingerprint(self.stderr, self.why)


def crash_fingerprint(stderr, why='died'):
    """Kind of crash + innermost dbus frame, stable across runs."""
    kind = why
    m = re.search(r'ERROR: AddressSanitizer: ([a-zA-Z\-]+)', stderr)
    if m:
        kind = 'asan:' + m.group(1)
    elif 'runtime error:' in stderr:
        m = re.search(r'runtime error: ([^\n]{0,60})', stderr)
        kind = 'ubsan:' + re.sub(r'[0-9x]+', 'N', m.group(1)).strip()
    elif 'ThreadSanitizer' in stderr:
        kind = 'tsan'
    m2 = re.search(r'assertion failed "([^"]+)" file "([^"]+)" line (\d+)', stderr)
    if m2:
        kind = 'assert:%s' % m2.group(1)[:60]
    m3 = re.search(r'arguments to (\w+)\(\) were incorrect, assertion "([^"]+)"', stderr)
    if m3:
        kind = 'check:%s:%s' % (m3.group(1), m3.group(2)[:50])
    if 'not reached' in stderr:
        m4 = re.search(r'(?:code should not have been reached|not reached)[^\n]*', stderr)
        m5 = re.search(r'file "?([^\s"]+)"? line (\d+)', stderr)
        if m5:
            kind = 'not-reached:%s' % os.path.basename(m5.group(1))
    frame = ''
    for fm in re.finditer(r'#\d+ 0x[0-9a-f]+ in (\w+) (' + re.escape(REPO) + r'/[^\s:]+)', stderr):
        fn = fm.group(1)
        if fn.startswith('_dbus_abort') or fn.startswith('_dbus_real_assert') or fn.startswith('_dbus_warn'):
            continue
        frame = '%s@%s' % (fn, os.path.basename(fm.group(2)))
        break
    return kind + ('|' + frame if frame else '')


def harness_path(name, tree='asan'):
    return os.path.join(BUILD_ROOT, 'harness-' + tree, name)


class Harness:
    """One harness subprocess."""

    def __init__(self, name='vbox', tree='asan', timeout=60.0, env=None, args=None):
        self.name = name
        self.tree = tree
        self.timeout = timeout
        self.extra_env = env or {}
        self.args = args
        self.proc = None
        self.rundir = None
        self.errfile = None
        self.restarts = 0
        self.ncmds = 0

    def start(self):
        os.makedirs(RUN_ROOT, exist_ok=True)
        self.rundir = tempfile.mkdtemp(prefix='w%d-' % os.getpid(), dir=RUN_ROOT)
        os.chmod(self.rundir, 0o755)
        self.errfile = open(os.path.join(self.rundir, 'stderr.log'), 'w+b')
        env = dict(os.environ)
        env.update(ASAN_ENV)
        env['DBUS_TEST_HOMEDIR'] = self.rundir
        env['HOME'] = self.rundir
        env.update(self.extra_env)
        argv = [harness_path(self.name, self.tree)] + (self.args if self.args is not None else [self.rundir])
        self.proc = subprocess.Popen(argv, stdin=subprocess.PIPE, stdout=subprocess.PIPE,
                                     stderr=self.errfile, env=env, bufsize=0, cwd=self.rundir)
        self._buf = b''

    def stderr_tail(self, n=6000):
        try:
            self.errfile.flush()
            self.errfile.seek(0, 2)
            size = self.errfile.tell()
            self.errfile.seek(max(0, size - n))
            return self.errfile.read().decode('latin-1')
        except Exception:
            return ''

    def cmd(self, line, timeout=None):
        if self.proc is None:
            self.start()
        if isinstance(line, str):
            line = line.encode('latin-1')
        self.ncmds += 1
        try:
            self.proc.stdin.write(line + b'\n')
        except (BrokenPipeError, OSError):
            self._die('died', line)
        deadline = timeout or self.timeout
        fd = self.proc.stdout.fileno()
        while b'\n' not in self._buf:
            r, _, _ = select.select([fd], [], [], deadline)
            if not r:
                self._die('timeout', line)
            chunk = os.read(fd, 1 << 20)
            if not chunk:
                self._die('died', line)
            self._buf += chunk
        resp, self._buf = self._buf.split(b'\n', 1)
        return resp.decode('latin-1')

    def _die(self, why, line):
        try:
            if why == 'timeout':
                self.proc.send_signal(signal.SIGABRT)
            self.proc.wait(timeout=10)
        except Exception:
            try:
                self.proc.kill()
                self.proc.wait(timeout=5)
            except Exception:
                pass
        tail = self.stderr_tail()
        rc = self.proc.returncode
        self.close(keep=False)
        raise HarnessDied('%s(rc=%s)' % (why, rc) if why == 'died' else why, tail, line[:2000].decode('latin-1'))

    def close(self, keep=False):
        if self.proc is not None:
            try:
                self.proc.stdin.close()
            except Exception:
                pass
            try:
                self.proc.wait(timeout=2)
            except Exception:
                try:
                    self.proc.kill()
                    self.proc.wait(timeout=5)
                except Exception:
                    pass
            try:
                self.proc.stdout.close()
            except Exception:
                pass
            self.proc = None
        if self.errfile is not None:
            try:
                self.errfile.close()
            except Exception:
                pass
            self.errfile = None
        if self.rundir and not keep:
            shutil.rmtree(self.rundir, ignore_errors=True)
            self.rundir = None

    def restart(self):
        self.close()
        self.restarts += 1
        self.start()

    def __enter__(self):
        self.start()
        return self

    def __exit__(self, *a):
        self.close()


def parse_kv(resp):
    """'a=1 b=xyz' -> dict (values str)."""
    d = {}
    for tok in resp.split(' '):
        if '=' in tok:
            k, v = tok.split('=', 1)
            d[k] = v
    return d
