"""C03 — the bus stamps the true sender; unique names are unique forever.

BFS over connect / Hello / second Hello / disconnect / reconnect histories of
three raw clients; in every reached state every message of the send alphabet
(4 types x 4 targets x 8 header forgeries) is put on the wire by every
registered client and by a client that has not said Hello.  Oracle: every
message anybody receives carries the true unique name of its writer (or
org.freedesktop.DBus for bus-originated ones), no field code > 9 and no forged
value; every Hello answer is a fresh, valid unique name."""
from .. import refdbus as R
from .. import grammars as G
from .. import busbox as B
from .. import explore
from ..engine import Violation, known_fingerprints
from ..session import BusSession
from ..registry import claim

claim('C03', 'model_checking',
      'explicit-state BFS over connection histories on the real bus with an exhaustive forged-header send alphabet in every state',
      'Histories of connect, Hello, repeated Hello, disconnect and reconnect by 3 clients are explored to a fix-point (states keyed by the implementation\'s dump with unique names renamed to slots); '
      'in each state each client writes every message of the alphabet (method call, signal, return, error x unicast to unique name / well-known name / broadcast / the bus x forged SENDER, '
      'unknown fields 11/200/255 with string and variant-of-struct payloads, runs of adjacent unknown fields, unknown fields first and last, CONTAINER_INSTANCE) as raw bytes. Every received message is decoded by the independent codec and must carry the true sender and none of the forged fields; '
      'unique names must be fresh and valid and can never be requested (own, a peer\'s, a departed one, one not issued yet); a monitor is among the receivers; a thorough-tier scenario seeds the name counters next to INT_MAX and crosses the wrap.',
      'Trusts pyv/refdbus.py. More than 3 clients and alphabets beyond the listed forgeries are not covered.',
      'DESIGN.md section 4 C03')

FACTORY = 'pyv.checks.c03:Session'
CLIENTS = ['A', 'B', 'C']
SIG_RULE = b"type='signal',interface='v.sig'"

FORGERIES = ['none', 'sender-other', 'sender-bus', 'sender-self-wrong', 'unk11', 'unk200', 'unk255', 'cinst', 'unk-run', 'unk-ends']
KINDS = ['call', 'signal', 'return', 'error']
TARGETS = ['unique', 'wellknown', 'broadcast', 'bus']


def wk(label):
    return b'com.example.' + label.encode()


class Session(BusSession):
    COUNTER_ATTRS = ('token',)

    def __init__(self, params):
        BusSession.__init__(self, params)
        self.state = {l: 'closed' for l in CLIENTS}     # closed | connected | registered
        self.issued = set()
        self.connect_slot('O')
        self.issued.add(self.uname['O'])
        self.take('O')
        # a monitor is a receiver too: it sees every message the bus processes, including those of connections that
        # have not said Hello and messages the bus refuses
        self.connect_slot('M')
        self.issued.add(self.uname['M'])
        s_, rep = self.method('M', 'BecomeMonitor', [R.A('s', []), R.U(0)], iface=b'org.freedesktop.DBus.Monitoring')
        if rep is None or rep.kind != R.MT_RETURN:
            raise RuntimeError('BecomeMonitor refused: %r' % (rep,))
        s_, rep = self.method('O', 'ListNames', [])
        self.mon_listed = self.uname['M'] in rep.args()[0]
        for x in list(self.inbox):
            self.take(x)
        self.token = 0

    def config(self):
        return B.make_config()

    def ops(self):
        ops = []
        for l in CLIENTS:
            st = self.state[l]
            if st == 'closed':
                ops.append(['conn', l])
            else:
                ops.append(['hello', l])
                ops.append(['disc', l])
                ops.append(['sendall', l])
        return ops

    # ------------------------------------------------------------------
    def registered(self):
        return [l for l in CLIENTS if self.state[l] == 'registered']

    def build(self, l, kind, target, forgery, other):
        """-> (Msg, expect_delivery_to label or None, is_broadcast)"""
        c = self.slots[l]
        s = self.bus.next_serial(c)
        self.token += 1
        body = [R.S('tok%d' % self.token), R.U(self.token)]
        dest = None
        if target == 'unique':
            dest = self.uname[other]
        elif target == 'wellknown':
            dest = wk(other)
        elif target == 'bus':
            dest = R.BUS
        if kind == 'call':
            m = R.method_call(s, dest, '/v', 'v.sig', 'Ping', body, flags=1)
        elif kind == 'signal':
            m = R.signal(s, '/v', 'v.sig', 'Sig', body, dest=dest)
        elif kind == 'return':
            m = R.method_return(s, 77, dest, body)
        else:
            m = R.error(s, 77, 'v.Err', dest, body)
        me = self.uname.get(l)
        if forgery == 'sender-other':
            m.fields.append((R.F_SENDER, (b's', self.uname[other])))
        elif forgery == 'sender-bus':
            m.fields.insert(0, (R.F_SENDER, (b's', R.BUS)))
        elif forgery == 'sender-self-wrong':
            m.fields.append((R.F_SENDER, (b's', b':9.99')))
        elif forgery == 'unk11':
            m.fields.append((11, (b's', b'forged')))
        elif forgery == 'unk200':
            m.fields.insert(1, (200, (b'(sv)', [(b's', b'forged'), (b'v', (b'u', 7))])))
        elif forgery == 'unk255':
            m.fields.append((255, (b'ay', [(b'y', 1), (b'y', 2)])))
        elif forgery == 'cinst':
            m.fields.append((R.F_CONTAINER_INSTANCE, (b'o', b'/forged/instance')))
        elif forgery == 'unk-run':
            # several unknown fields NEXT TO each other (and the container instance among them), in the middle of the header
            m.fields[1:1] = [(200, (b's', b'forged-a')), (201, (b'u', 7)), (R.F_CONTAINER_INSTANCE, (b'o', b'/forged/instance')), (11, (b's', b'forged-b')), (255, (b'ay', [(b'y', 1)]))]
        elif forgery == 'unk-ends':
            # unknown fields as the first and as the last two fields
            m.fields.insert(0, (77, (b's', b'forged-first')))
            m.fields += [(200, (b's', b'forged-c')), (201, (b's', b'forged-d'))]
        return m

    def check_monitor(self, out, opdesc):
        """Everything the monitor was shown: no field code above 9, no forged sender value.  (The SENDER the bus puts on
        a message of a connection that has no unique name yet is not specified and not judged.)"""
        for o in self.take('M'):
            m = o.msg
            codes = [c for c, _ in m.fields]
            self.hit('monitor-saw')
            if any(c > 9 for c in codes):
                bad = [c for c in codes if c > 9]
                out.append(Violation('forged-field-relayed', 'monitor:field-%s' % ('cinst' if 10 in bad else 'unknown'),
                                     '%s: the monitor received a message with header field codes %r: %r' % (opdesc, bad, o), None))
            if m.sender == b':9.99':
                out.append(Violation('wrong-sender', 'monitor:forged', '%s: the monitor received the forged SENDER value: %r' % (opdesc, o), None))

    def check_received(self, writer, m_sent, out, opdesc):
        """Inspect every inbox after one message was written by `writer`."""
        true_sender = self.uname.get(writer)
        tok = m_sent.body[0][1]
        for l in list(self.inbox):
            for o in self.take(l):
                m = o.msg
                codes = [c for c, _ in m.fields]
                if any(c > 9 for c in codes):
                    bad = [c for c in codes if c > 9]
                    out.append(Violation('forged-field-relayed', 'field-%s' % ('cinst' if 10 in bad else 'unknown'),
                                         '%s: %s received a message with header field codes %r: %r' % (opdesc, l, bad, o), None))
                is_copy = bool(m.body) and m.body[0][0] == b's' and m.body[0][1] == tok
                if is_copy:
                    self.hit('relayed')
                    if m.sender != true_sender:
                        out.append(Violation('wrong-sender', 'relayed', '%s: %s received the message with SENDER %r, true sender %r' % (opdesc, l, m.sender, true_sender), None))
                    for code in (R.F_PATH, R.F_INTERFACE, R.F_MEMBER, R.F_ERROR_NAME, R.F_REPLY_SERIAL, R.F_DESTINATION, R.F_SIGNATURE):
                        if m.field(code) != m_sent.field(code) and not (code == R.F_SIGNATURE and m.field(code) == m_sent.body_sig()):
                            out.append(Violation('field-changed', R.FIELD_NAME[code], '%s: field %s changed in transit: %r -> %r' % (opdesc, R.FIELD_NAME[code], m_sent.field(code), m.field(code)), None))
                    if [R.canon_value(v) for v in m.body] != [R.canon_value(v) for v in m_sent.body] or m.mtype != m_sent.mtype or m.serial != m_sent.serial:
                        out.append(Violation('field-changed', 'body', '%s: body/type/serial changed in transit' % opdesc, None))
                else:
                    # not a copy of the client's message: must be bus-originated (the monitor is also shown the other
                    # clients' own traffic with the bus, e.g. the observer's queries: those carry their true unique names)
                    if l == 'M' and m.sender is not None and m.sender in set(self.uname.values()):
                        self.hit('monitor-other-traffic')
                    elif m.sender != R.BUS:
                        if m.sender is None and l in (writer, 'M') and m.mtype in (R.MT_ERROR, R.MT_RETURN):
                            self.hit('reply-without-sender')
                            v = Violation('wrong-sender', 'bus-reply-without-sender', '%s: %s received a bus-generated reply with no SENDER: %r' % (opdesc, l, o), None)
                            v.resynced = v.fingerprint in known_fingerprints('C03')   # recorded finding, nothing to re-synchronise: keep exploring
                            out.append(v)
                        else:
                            out.append(Violation('wrong-sender', 'bus-originated', '%s: %s received %r whose sender is neither the writer nor the bus' % (opdesc, l, o), None))
                    else:
                        self.hit('bus-originated')

    def apply(self, op):
        out = []
        kind, l = op[0], op[1]
        if kind == 'conn':
            self.connect_slot(l, hello=False)
            self.state[l] = 'connected'
        elif kind == 'hello':
            c = self.slots[l]
            s = self.bus.next_serial(c)
            hm = R.bus_call(s, 'Hello')
            # the Hello call itself carries every kind of forged field
            hm.fields.append((R.F_SENDER, (b's', b':9.99')))
            hm.fields.insert(1, (200, (b'(sv)', [(b's', b'forged'), (b'v', (b'u', 7))])))
            hm.fields.append((R.F_CONTAINER_INSTANCE, (b'o', b'/forged/instance')))
            self.send(l, hm)
            rep = self.take_reply(l, s)
            # the monitor's copy of a successful Hello call: its writer HAS a unique name by the time the call is shown
            # (the one the reply carries), so that is the sender every receiver must see -- not a placeholder
            if rep is not None and rep.kind == R.MT_RETURN and self.state[l] == 'connected':
                newname = rep.args()[0]
                for o in self.inbox.get('M', []):
                    if o.kind == R.MT_CALL and o.member == b'Hello' and o.serial == s and o.sender != newname:
                        out.append(Violation('wrong-sender', 'monitor:hello', 'Hello of %s (now %r): the monitor was shown the call with SENDER %r' % (l, newname, o.sender), None))
            self.check_monitor(out, 'Hello of %s with forged fields' % l)
            if self.state[l] == 'connected':
                if rep is None or rep.kind != R.MT_RETURN:
                    out.append(Violation('hello', 'refused', 'first Hello of %s answered %r' % (l, rep), None))
                    return out
                name = rep.args()[0]
                self.hit('hello')
                if not (name[:1] == b':' and G.valid_unique_name(name)):
                    out.append(Violation('unique-name', 'invalid', 'Hello returned %r' % name, None))
                if name in self.issued:
                    out.append(Violation('unique-name', 'reused', 'Hello returned %r which was issued before in this history' % name, None))
                self.issued.add(name)
                self.uname[l] = name
                self.label_of[name] = l
                self.bus.names[c] = name
                self.state[l] = 'registered'
                # the new client must get NameAcquired for exactly that name
                acq = [o for o in self.take(l) if o.member == b'NameAcquired']
                if len(acq) != 1 or acq[0].args() != [name] or acq[0].dest != name:
                    out.append(Violation('unique-name', 'NameAcquired', 'after Hello -> %r the client received %r' % (name, acq), None))
                self.method(l, 'RequestName', [R.S(wk(l)), R.U(4)])
                self.method(l, 'AddMatch', [R.S(SIG_RULE)])
            else:
                self.hit('hello-again')
                if rep is None or rep.kind != R.MT_ERROR:
                    out.append(Violation('hello', 'second-accepted', 'second Hello of %s answered %r' % (l, rep), None))
                if self.eof.get(l):
                    pass
            for x in list(self.inbox):
                self.take(x)
            # queries agree
            s, rep = self.method('O', 'ListNames', [])
            want = sorted([R.BUS, self.uname['O']] + ([self.uname['M']] if self.mon_listed else []) + [self.uname[x] for x in self.registered()] + [wk(x) for x in self.registered()])
            if rep is None or sorted(rep.args()[0]) != want:
                out.append(Violation('query-disagrees', 'ListNames', 'ListNames=%r want %r' % (rep, want), None))
            for x in self.registered():
                s, rep = self.method('O', 'GetNameOwner', [R.S(wk(x))])
                if rep is None or rep.kind != R.MT_RETURN or rep.args() != [self.uname[x]]:
                    out.append(Violation('query-disagrees', 'GetNameOwner', 'GetNameOwner(%r)=%r' % (wk(x), rep), None))
            self.take('O')
        elif kind == 'disc':
            self.close_slot(l)
            self.state[l] = 'closed'
            self.uname[l] = None
            for x in list(self.inbox):
                self.take(x)
        elif kind == 'sendall':
            self.sendall(l, out)
        return out

    def sendall(self, l, out):
        others = [x for x in self.registered() if x != l]
        if self.state[l] == 'connected':
            # anything but Hello before Hello: the connection is dropped and nobody sees the message
            m = self.build(l, 'signal', 'broadcast', 'none', None)
            m.fields.append((R.F_SENDER, (b's', b':9.99')))
            m.fields.insert(1, (200, (b'(sv)', [(b's', b'forged'), (b'v', (b'u', 7))])))
            m.fields.append((R.F_CONTAINER_INSTANCE, (b'o', b'/forged/instance')))
            self.send(l, m)
            self.hit('send-before-hello')
            self.check_monitor(out, 'message with forged fields written by %s before Hello' % l)
            for x in list(self.inbox):
                for o in self.take(x):
                    if x != l and o.body and o.body[0] == m.body[0]:
                        out.append(Violation('unregistered-sender-relayed', 'before-hello', '%s received a message written by a connection that never said Hello' % x, None))
            if not self.eof.get(l):
                out.append(Violation('unregistered-sender-kept', 'before-hello', 'a connection that sent a non-Hello message before Hello was not disconnected', None))
            self.slots[l] = None
            self.state[l] = 'closed'
            return
        other = others[0] if others else None
        # unique names cannot be requested: not one's own, not a live peer's, not one whose connection has gone, not one the
        # bus has not handed out yet -- "never given to another connection for the lifetime of the bus"
        live = {self.uname[x] for x in list(self.registered()) + ['O', 'M'] if self.uname.get(x)}
        gone = sorted(self.issued - live)
        for target in [self.uname[l]] + ([self.uname[other]] if other else []) + gone[:2] + [b':1.4711', b':7.1']:
            for flags in (0, 7):
                s_, rep = self.method(l, 'RequestName', [R.S(target), R.U(flags)])
                self.hit('request-unique-name')
                if rep is None or rep.kind != R.MT_ERROR:
                    out.append(Violation('unique-name', 'requestable', '%s: RequestName(%r, %d) answered %r instead of an error' % (l, target, flags, rep), None))
                    return
        for x in list(self.inbox):
            self.take(x)
        for kind in KINDS:
            for target in TARGETS:
                if target in ('unique', 'wellknown') and other is None:
                    continue
                for forgery in FORGERIES:
                    if forgery == 'sender-other' and other is None:
                        continue
                    m = self.build(l, kind, target, forgery, other)
                    desc = '%s %s->%s forgery=%s' % (l, kind, target, forgery)
                    self.send(l, m)
                    if self.eof.get(l):
                        out.append(Violation('sender-disconnected', forgery, '%s: the bus closed the connection of a client that sent a well-formed message' % desc, None))
                        return
                    self.check_received(l, m, out, desc)
                    if len([v for v in out if not v.resynced]) > 8:
                        return

    def key(self):
        return self.impl_key() + '#' + ','.join('%s=%s' % (l, self.state[l]) for l in CLIENTS)


def run(ctx):
    st = explore.bfs(ctx, FACTORY, {}, max_depth=12, ops_chunk=4)
    nsend = ctx.clause_hits.get('relayed', 0) + ctx.clause_hits.get('bus-originated', 0)
    wrap = None
    if ctx.tier == 'thorough' or True:
        wrap = wrap_scenario(ctx)
    ctx.coverage.update({
        'states': st['states'], 'transitions': st['transitions'], 'traces_validated_against_impl': st['transitions'],
        'completed_depth': st['completed_depth'], 'fixpoint': st['fixpoint'], 'received_messages_judged': nsend,
        'bound': '3 clients + observer; connect/Hello/Hello-again/disconnect/reconnect to depth %d or fix-point; in every state the full send alphabet: %d kinds x %d targets x %d forgeries per registered client' %
                 (12, len(KINDS), len(TARGETS), len(FORGERIES)),
        'wrap_scenario': wrap,
    })
    ctx.assumptions = ['pyv/refdbus.py decodes what clients receive', 'unique-name counters are re-seeded to :1.0 for every fresh bus (hook H4)']
    ctx.replay_fn = replay


def wrap_scenario(ctx):
    """Seed the counters just below INT_MAX and issue Hellos across the wrap."""
    from ..busbox import Bus
    from ..vbox import Harness, HarnessDied
    res = {}
    for seed in ((1, 2 ** 31 - 3), (7, 2 ** 31 - 2)):
        h = Harness('vbox')
        bus = Bus(h)
        names = []
        try:
            bus.reset(B.make_config(), seed=seed)
            for i in range(6):
                c = bus.connect(0)
                bus.hello(c)
                n = bus.names.get(c)
                if n is None:
                    ctx.add_violation(Violation('unique-name', 'wrap-hello-refused', 'Hello #%d after seeding the counters to %r got no name' % (i, seed), {'wrap': list(seed)}))
                    break
                if n in names or not G.valid_unique_name(n):
                    ctx.add_violation(Violation('unique-name', 'wrap-reused', 'names across the counter wrap: %r then %r' % (names, n), {'wrap': list(seed)}))
                names.append(n)
        except HarnessDied as e:
            from ..engine import crash_violation
            ctx.add_violation(crash_violation(e, {'wrap': list(seed)}))
        finally:
            h.close()
        res['%d.%d' % seed] = [n.decode() for n in names]
    return res


def replay(case):
    if 'wrap' in case:
        from ..engine import Ctx
        c = Ctx('C03', 'quick', 'model_checking')
        wrap_scenario(c)
        return [v for vs in c.violations.values() for v in vs]
    return explore.replay_history(FACTORY, case['params'], case['history'])
