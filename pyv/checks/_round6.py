"""What the sixth session added to the claims (appended to the texts the check modules register; MANIFEST.json is
generated from the result by tools/gen_manifest.py)."""
from ..registry import CHECKS

ADDED = {
    'C01': ' Every flat body (basic values, arrays of fixed-size values, arrays of strings; at most 8 arguments) is read a second time with dbus_message_get_args() and must agree with the iterator walk; dbus_message_iter_has_next() is compared with what the step finds at every position.',
    'C02': ' dbus_message_append_args() is a construction route of its own (every pair of argument kinds, arrays of 0/1/3 elements, 8 arguments); parsed-back messages are also read with dbus_message_get_args() in both byte orders; bodies at and beyond the 255-byte signature limit (the API must refuse the latter cleanly).',
    'C05': ' Scripted scenarios with a small max_incoming_bytes: the recipient does not read, the bus stops reading from the sender, the recipient resumes - nothing lost, duplicated or reordered, a bystander is served throughout, the sender\'s own requests are answered. An undeliverable call earns exactly one error whatever its flags (flagged calls are in the quick alphabet).',
    'C06': ' Broadcasts are judged per recipient for send_destination / send_destination_prefix rules; signals and calls that carry a REPLY_SERIAL field are probed (requested_reply is ignored for them).',
    'C07': ' Rule equality: RemoveMatch(Y) while holding X for every ordered pair of 51 near-equal rules (a key absent / empty / with another value, argument number, kind of argument test, key order, quoting) succeeds exactly when the two are the same rule.',
    'C08': ' After every admitted bus-level handshake GetConnectionCredentials must name the user the mechanism established (none for ANONYMOUS, whatever the socket says).',
    'C09': ' A descriptor-carrying call to a callee that never negotiated descriptor passing opens no slot and cannot be answered by it; a SIGNAL carrying a REPLY_SERIAL field is not a reply (uses up no slot, is delivered as a signal).',
    'C10': ' The corpus covers every method of the driver; 108 messages at the container nesting limits (alone and combined, SIGNATURE field and variant) are sent unmutated; half-close scenarios (shutdown of the read or write side with output pending or arriving) must neither make the loop spin nor stop service.',
    'C11': ' A descriptor-carrying message whose first piece ends inside, at or just behind the fixed header, read before the rest arrives.',
    'C13': ' A refused request is silent: apart from the error to the requester no connection receives anything (no NameAcquired / NameOwnerChanged for a name that was not acquired).',
    'C14': ' Failure indices are enumerated to the end of each operation (configuration files included); the get_args/append_args routes run under injection too; prior states with the name registry just below its re-size thresholds (grow and shrink).',
    'C15': ' (shares the early-cut descriptor scenarios with C11)',
    'C16': ' One odd byte or multi-byte sequence at every position of plain runs of 8..33 bytes (UTF-8 text) and 26 bytes (names); every container kind at its nesting limit at the same time; every valid signature of the enumeration is walked with the public DBusSignatureIter API, which must rebuild it and name the grammar\'s single complete types.',
    'C17': ' Calls made and waited for inside dispatch callbacks (notify function, filter, object-path handler; dbus_connection_send_with_reply_and_block and send_with_reply + block; reply first in the queue or behind other messages). Thread bodies that make calls and send signals themselves while others block or dispatch: every serial non-zero and distinct, also across the 32-bit wrap.',
    'C18': ' A monitor that does not read while more than max_outgoing_bytes of matching traffic goes by is owed every message once it reads again.',
    'C19': ' The same histories with activation through a <servicehelper> (helper exit statuses 0..9 and a signal), and with the start handed to systemd (--systemd-activation, SystemdService=): the harness plays systemd, which may be on the bus or appear late (it is then handed one ActivationRequest per pending activation), report ActivationFailure, or stay silent until the start timeout.',
    'C20': ' The older register entry points without DBusError are operations too; dbus_connection_get_object_path_data() is compared with the model for every path in every state.',
}
for pid, extra in ADDED.items():
    if pid in CHECKS and extra not in CHECKS[pid]['text']:
        CHECKS[pid]['text'] += extra
