"""C14 — out-of-memory at any point leaves state unchanged and leaks nothing.

Fault enumeration on top of explored states.
Library: for every construction program / message copy / header edit / match
rule text / configuration file of the generator sets, EVERY index k of the
failing allocation (until the operation completes without consuming the
failure) is executed inside vbox (OOMBUILD / OOMCOPY / OOMEDIT / OOMRULE /
OOMCONFIG): the operation must report failure, leave the object's marshalled
bytes unchanged, leak no block, and succeed when retried.
Bus: for every prior state of a small history set and every request of the
alphabet, for every k: fresh bus, replay, write the request, arm the k-th
allocation to fail, pump, disarm, pump: either the complete uninjected outcome
or nothing but a NoMemory error to the caller with the state dump unchanged;
then the retried request must give the complete outcome."""
import os
import time
import re
from collections import Counter

from .. import gen
from .. import refdbus as R
from .. import busbox as B
from ..engine import Pool, Violation, worker_harness, worker_bus, crash_violation, known_fingerprints
from ..vbox import HarnessDied, parse_kv
from ..session import BusSession, NOC_RULE
from ..registry import claim
from . import c12

claim('C14', 'fault_enumeration',
      'exhaustive enumeration of the failing allocation index for every operation x prior state of the generator sets, on the real library and the real in-process bus, with state-unchanged / no-leak / retry-succeeds oracles',
      'Library: every construction program, dbus_message_copy, header edit, match-rule text and configuration file of the sets below is run once per allocation index k (first to last allocation of the operation) with that allocation failing. '
      'Bus: every request of the alphabet (Hello, RequestName x 8 flag words, ReleaseName, AddMatch (also of a rule exercising quoting and escaping), RemoveMatch, unicast call, reply, broadcast with two recipients, disconnect-free) from every prior state of the history set is run once per index k on a fresh in-process bus. '
      'An injected run must either show the complete uninjected outcome, or report out-of-memory, leave the canonical state dump / message bytes equal to the pre-state, leave the count of outstanding blocks unchanged, and succeed when retried.',
      'Single failures only (pairs are not enumerated yet). Only dbus_malloc-family allocations of the code under test fail (clients are raw sockets). Disconnect handling is excluded (it is specified to retry).',
      'DESIGN.md section 4 C14')


# ---- library ---------------------------------------------------------------

def lib_tasks(tier):
    quick = tier == 'quick'
    tasks = []
    hdr = [(R.F_PATH, (b'o', b'/a')), (R.F_INTERFACE, (b's', b'a.b')), (R.F_MEMBER, (b's', b'M'))]
    bodies = list(gen.bodies(2, True, 1))
    step = 10 if quick else 2
    progs = []
    for body in bodies[::step]:
        m = R.Msg(R.MT_CALL, 0, 7, list(hdr), body)
        if 'h:' in R.canon_msg(m):
            continue
        m.fields.append((R.F_SIGNATURE, (b'g', m.body_sig())))
        progs.append(('OOMBUILD g i ' + R.canon_msg(m), 'build'))
        if any(v[0][:1] == b'a' and len(v[0]) == 2 and v[0][1:2] in b'ybnqiuxtd' for v in body):
            progs.append(('OOMBUILD g f ' + R.canon_msg(m), 'build-fixed'))
        progs.append(('OOMCOPY ' + R.encode_message(m).hex(), 'copy'))
    # header edits: every edit of C12's alphabet on a spread of its start messages
    starts = [R.encode_message(m, auto_signature=False).hex() for m in c12.start_messages('quick')]
    # C12's very long start messages are left out here: libdbus frees a message above its cache size limit instead of
    # recycling it, so the count of outstanding blocks legitimately DROPS across the operation and the block-count oracle
    # (which demands equality) cannot be applied to them
    starts = [st for st in starts if len(st) < 16000]
    ops = c12.edit_alphabet((1, 7, 8, 9, 17, 40))
    for st in starts[::(60 if quick else 12)]:
        for op in ops:
            progs.append(('OOMEDIT %s %s' % (st, c12.op_text(op)), 'edit:' + op[0] + ('-del' if op[1] is None and op[0] != 'strip' else '')))
    from . import c07
    rules = c07.templated_rules()
    # (rules with a backslash take the parser's rarely used branches: always all of them)
    for r in list(dict.fromkeys(rules[::(4 if quick else 1)] + [x for x in rules if b'\\' in x])):
        if R.G.valid_utf8(r) and b'\0' not in r and len(r) < 1100:
            progs.append(('OOMRULE ' + (r.hex() or '-'), 'rule'))
    for i in range(0, len(progs), 30):
        tasks.append((task_lib, progs[i:i + 30]))
    return tasks


def task_lib(items):
    h = worker_harness('vbox')
    out = []
    indices = 0
    nfail = 0
    n = 0
    kinds = Counter()
    for cmd, kind in items:
        case = {'lib': cmd, 'kind': kind}
        try:
            r = h.cmd(cmd, timeout=300)
        except HarnessDied as e:
            out.append(crash_violation(e, case))
            continue
        if not r.startswith('OK'):
            if 'start-rejected' in r or 'edit-failed-without-injection' in r or 'ERR body' in r or 'ERR setter' in r:
                continue
            out.append(Violation('harness', 'lib', 'unexpected answer %r to %s' % (r[:200], cmd[:80]), case))
            continue
        kv = parse_kv(r)
        n += 1
        indices += int(kv['indices'])
        nfail += int(kv['reported_failure'])
        kinds[kind.split(':')[0]] += int(kv['indices'])
        if int(kv['bad']):
            what = kv['first'].split(':', 1)[1] if ':' in kv['first'] else kv['first']
            what = re.sub(r'\(.*\)', '', what)
            out.append(Violation('oom-' + what, kind, '%s under allocation failure: %s (%s bad indices of %s)' % (kind, kv['first'], kv['bad'], kv['indices']), case))
    return {'viol': [v.to_json() for v in out], 'n': n, 'indices': indices, 'nfail': nfail, 'kinds': dict(kinds), 'part': 'lib'}


def task_config(t):
    """OOMCONFIG on generated configuration files."""
    cfgs = t
    h = worker_harness('vbox')
    out = []
    indices = 0
    for name, xml in cfgs:
        path = os.path.join(h.rundir if h.rundir else '.', 'oomcfg-%s.conf' % name)
        if h.proc is None:
            h.start()
            path = os.path.join(h.rundir, 'oomcfg-%s.conf' % name)
        with open(path, 'w') as f:
            f.write(xml.replace('@SOCK@', os.path.join(h.rundir, 'x.sock')))
        case = {'config': name}
        try:
            r = h.cmd('OOMCONFIG ' + path, timeout=900)
        except HarnessDied as e:
            out.append(crash_violation(e, case))
            continue
        if not r.startswith('OK'):
            out.append(Violation('harness', 'config', 'unexpected answer %r' % r[:200], case))
            continue
        kv = parse_kv(r)
        indices += int(kv['indices'])
        if int(kv['bad']):
            what = re.sub(r'\(.*\)', '', kv['first'].split(':', 1)[1])
            out.append(Violation('oom-' + what, 'config-parse', 'configuration %s under allocation failure: %s (%s bad of %s)' % (name, kv['first'], kv['bad'], kv['indices']), case))
    return {'viol': [v.to_json() for v in out], 'n': len(cfgs), 'indices': indices, 'nfail': 0, 'kinds': {'config': indices}, 'part': 'lib'}


# ---- bus --------------------------------------------------------------------------

N1 = b'com.example.N1'
RULE1 = b"type='signal',interface='o.i'"
RULE2 = b"type='signal',member='Other'"
RULE3 = b"type='signal',arg0=foo\\bar,arg1='it''s',arg2=\\'q,arg3path='/a\\b'"


class OomSession(BusSession):
    """A, B, C registered; A and B hold RULE1 (two broadcast recipients)."""

    def __init__(self, prefix):
        BusSession.__init__(self, {})
        for l in ('A', 'B', 'C'):
            self.connect_slot(l)
            self.method(l, 'AddMatch', [R.S(NOC_RULE)])
        self.method('A', 'AddMatch', [R.S(RULE1)])
        self.method('B', 'AddMatch', [R.S(RULE1)])
        self.connect_slot('D', hello=False)
        for op in prefix:
            self.do(op)
        for l in list(self.inbox):
            self.take(l)

    def build(self, op):
        kind, l = op[0], op[1]
        c = self.slots[l]
        s = self.bus.next_serial(c)
        if kind == 'hello':
            return R.bus_call(s, 'Hello')
        if kind == 'req':
            return R.bus_call(s, 'RequestName', [R.S(N1), R.U(op[2])])
        if kind == 'rel':
            return R.bus_call(s, 'ReleaseName', [R.S(N1)])
        if kind == 'fillone':
            return R.bus_call(s, 'RequestName', [R.S(b'com.example.F%d' % op[2]), R.U(0)])
        if kind == 'unfillone':
            return R.bus_call(s, 'ReleaseName', [R.S(b'com.example.F%d' % op[2])])
        if kind == 'add':
            return R.bus_call(s, 'AddMatch', [R.S(RULE2)])
        if kind == 'addesc':
            # a rule text that takes the parser through its quoting/escaping branches (the rule the bus installs shows in the dump)
            return R.bus_call(s, 'AddMatch', [R.S(RULE3)])
        if kind == 'rm':
            return R.bus_call(s, 'RemoveMatch', [R.S(RULE2)])
        if kind == 'call':
            return R.method_call(s, self.uname[op[2]], '/o', 'o.i', 'Do', [R.S('payload')])
        if kind == 'monitor':
            return R.method_call(s, R.BUS, R.BUS_PATH, b'org.freedesktop.DBus.Monitoring', 'BecomeMonitor', [R.A('s', []), R.U(0)])
        if kind == 'callfd':
            # a call carrying one descriptor (the harness attaches its descriptor 0)
            return R.Msg(R.MT_CALL, 0, s, [(R.F_PATH, (b'o', b'/o')), (R.F_INTERFACE, (b's', b'o.i')), (R.F_MEMBER, (b's', b'DoFd')),
                                           (R.F_DESTINATION, (b's', self.uname[op[2]])), (R.F_UNIX_FDS, (b'u', 1))], [R.S('payload'), R.H(0)])
        if kind == 'callname':
            return R.method_call(s, N1, '/o', 'o.i', 'Do', [R.S('payload')])
        if kind == 'reply':
            return R.method_return(s, op[3], self.uname[op[2]], [R.S('r')])
        if kind == 'bcast':
            return R.signal(s, '/o', 'o.i', 'Sig', [R.S('b')])
        if kind == 'getid':
            return R.bus_call(s, 'GetId')
        if kind == 'listnames':
            return R.bus_call(s, 'ListNames')
        raise ValueError(op)

    def do(self, op):
        if op[0] in ('fill', 'unfill'):
            for i in range(op[2]):
                self.do([op[0] + 'one', op[1], i])
            return
        m = self.build(op)
        self.send(op[1], m)
        if op[0] == 'hello':
            rep = [o for o in self.inbox.get(op[1], []) if o.kind == R.MT_RETURN and o.rserial == m.serial]
            if rep:
                self.uname[op[1]] = rep[0].args()[0]
                self.label_of[self.uname[op[1]]] = op[1]
        return m

    def observe(self):
        """label -> sorted canonical observations, serial numbers of bus-originated messages blanked."""
        obs = {}
        for l in list(self.inbox):
            lst = []
            for o in self.take(l):
                c = self.rename(R.canon_msg(o.msg))
                if o.sender == R.BUS:
                    c = re.sub(r' S=\d+ ', ' S=* ', c)
                    if o.kind == R.MT_ERROR:
                        c = c.split(' body=')[0]
                    if o.member == b'NameOwnerChanged' or (o.kind == R.MT_RETURN and o.sig == b's' and len(o.body[0][1]) == 32):
                        pass
                lst.append(c)
            if lst:
                obs[l] = lst
        return obs


PREFIXES = [
    [],
    [['req', 'A', 0]],
    [['req', 'A', 1], ['req', 'B', 0]],
    [['req', 'A', 0], ['req', 'B', 0], ['req', 'C', 4]],
    [['add', 'A'], ['add', 'A']],
    [['call', 'A', 'B']],
    [['req', 'B', 1], ['call', 'A', 'B'], ['add', 'C']],
    [['req', 'A', 1], ['req', 'B', 0], ['req', 'C', 0]],
    [['req', 'A', 3], ['req', 'B', 1], ['add', 'A']],
    [['call', 'A', 'B'], ['call', 'C', 'B'], ['req', 'B', 0]],
    # a monitor is attached: every request is also captured for it (more allocations, more places to fail)
    [['monitor', 'C']],
    [['monitor', 'C'], ['req', 'A', 1], ['req', 'B', 0]],
    # the name registry's hash table just below the sizes at which it re-sizes itself (12 entries; unique names count): the
    # request that adds the next name makes the table allocate a new bucket array - one more allocation that may fail
    [['fill', 'C', 7]],
    [['fill', 'C', 8]],
    [['fill', 'C', 9]],
    # ... and far below what it once held (the table shrinks on a later insert)
    [['fill', 'C', 13], ['unfill', 'C', 12]],
]


def requests_for(prefix):
    reqs = [['hello', 'D'], ['rel', 'A'], ['rel', 'B'], ['add', 'A'], ['rm', 'A'], ['call', 'C', 'B'], ['callname', 'C'], ['bcast', 'C'], ['getid', 'C'], ['listnames', 'C']]
    for f in range(8):
        reqs.append(['req', 'B', f])
    reqs.append(['req', 'A', 2])
    reqs.append(['req', 'C', 3])
    reqs.append(['callfd', 'C', 'B'])
    reqs.append(['addesc', 'C'])
    # a connection going away is also "an operation": its cleanup must complete whatever allocation fails
    reqs.append(['disc', 'A'])
    reqs.append(['disc', 'B'])
    if any(p[0] == 'call' for p in prefix):
        reqs.append(['reply', 'B', 'A', None])
    if any(p[0] == 'fill' for p in prefix):
        # only the requests that add to or take from the registry
        return [['hello', 'D'], ['req', 'B', 0], ['req', 'B', 4], ['req', 'A', 2], ['disc', 'A'], ['disc', 'C'], ['callname', 'A']]
    if any(p[0] == 'monitor' for p in prefix):
        mon = [p[1] for p in prefix if p[0] == 'monitor']
        reqs = [r for r in reqs if r[1] not in mon and (len(r) < 3 or r[2] not in mon)]     # a monitor neither sends nor is addressed
        reqs += [['call', 'A', 'B'], ['callfd', 'A', 'B'], ['bcast', 'A'], ['callname', 'A']]
    return reqs


def run_once(prefix, req, k):
    """-> dict(pre_dump, post_dump, obs, fired, blocks_pre, blocks_post, serial, retry_obs, retry_dump)"""
    s = OomSession(prefix)
    if req[0] == 'reply':
        # reply to the outstanding call of the prefix: its serial is the last one A used for a call
        req = list(req)
        req[3] = s.bus.serial[s.slots['A']] - 1
    pre_dump = re.sub(r'serial=\d+', 'serial=*', s.impl_key())
    blocks_pre = s.bus.blocks()
    c = s.slots[req[1]]
    if req[0] == 'disc':
        class _NoMsg:
            serial = 0
        m = _NoMsg()
        s.bus.h.cmd('CLOSE %d nopump' % c)
        s.slots[req[1]] = None
    else:
        m = s.build(req)
        if req[0] == 'callfd':
            s.bus.h.cmd('MKFD 1')
            s.bus.send(c, R.encode_message(m), fds=[0])
        else:
            s.bus.send(c, R.encode_message(m))
    fired = False
    if k is not None:
        s.bus.h.cmd('FAILALLOC %d' % k)
    s.bus.pump()
    if k is not None:
        left = int(s.bus.h.cmd('FAILLEFT').split()[1])
        fired = left > 1000000000     # after firing the counter restarts from INT_MAX and keeps counting down
        s.bus.h.cmd('FAILALLOC off')
        s.bus.pump()
    s._distribute(s.bus.recvall())
    if req[0] == 'hello':
        rep = [o for o in s.inbox.get(req[1], []) if o.kind == R.MT_RETURN and o.rserial == m.serial]
        if rep:
            s.uname[req[1]] = rep[0].args()[0]
            s.label_of[s.uname[req[1]]] = req[1]
    obs = s.observe()
    post_dump = re.sub(r'serial=\d+', 'serial=*', s.impl_key())
    blocks_post = s.bus.blocks()
    res = {'pre': pre_dump, 'post': post_dump, 'obs': obs, 'fired': fired, 'b0': blocks_pre, 'b1': blocks_post, 'serial': m.serial, 'sender': req[1], 'eof': dict(s.eof)}
    res['session'] = s
    res['req'] = req
    return res


def situation(req, pre):
    """Fine-grained identity of a name-ownership request for fingerprints: the caller's role for the name before the
    request (new / primary / queued) and the request's flags, so that a recorded finding only covers that exact shape."""
    if req[0] not in ('req', 'rel'):
        return req[0]
    role = 'new'
    for line in pre.split('|'):
        if line.startswith('svc ' + N1.decode() + ' ') or line.startswith('svc ' + N1.decode() + '|'):
            owners = [x.split(':')[0] for x in line.split(' ')[2:]]
            me = '@' + req[1]
            if me in owners:
                role = 'primary' if owners.index(me) == 0 else 'queued'
            elif owners:
                role = 'new-behind-%d' % len(owners)
    return '%s[%s%s]' % (req[0], role, (',f%d' % req[2]) if req[0] == 'req' else '')


def classify(res):
    """-> 'nomem' if the caller got exactly one NoMemory error for its serial and nobody got anything else; else 'other'."""
    obs = res['obs']
    if set(obs) - {res['sender']}:
        return 'other'
    lst = obs.get(res['sender'], [])
    if len(lst) == 1 and ('errname=%s ' % b'org.freedesktop.DBus.Error.NoMemory'.hex()) in lst[0] and ('rserial=%d ' % res['serial']) in lst[0]:
        return 'nomem'
    return 'other'


def norm_obs(obs, serial):
    def n(x):
        if ('sender=%s ' % R.BUS.hex()) in x:
            x = re.sub(r'rserial=%d ' % serial, 'rserial=REQ ', x)      # the bus's answer to the request
        x = re.sub(r' S=%d ' % serial, ' S=REQ ', x)          # the request itself, relayed with the client's serial
        x = re.sub(r'body=\[s:[0-9a-f]{64}\]', 'body=[s:<id>]', x)   # GetId: the bus id is random per bus
        return x
    return {l: [n(x) for x in v] for l, v in obs.items()}


def task_bus(t):
    prefix, req = t
    out = []
    n = 0
    kinds = Counter()
    case0 = {'prefix': prefix, 'req': req}
    try:
        base = run_once(prefix, req, None)
        want_obs = norm_obs(base['obs'], base['serial'])
        want_dump = base['post']
        k = 0
        while k < 1500:
            r = run_once(prefix, req, k)
            if not r['fired']:
                break
            n += 1
            case = dict(case0, k=k)
            got = norm_obs(r['obs'], r['serial'])
            if got == want_obs and r['post'] == want_dump:
                kinds['absorbed'] += 1
            elif classify(r) == 'nomem':
                kinds['nomem'] += 1
                if r['post'] != r['pre']:
                    d0, d1 = diff_dump(r['pre'], r['post'])
                    kinds_changed = '+'.join(sorted({x.split(' ')[0] for x in d0 + d1}))
                    out.append(Violation('oom-state-changed', situation(req, r['pre']) + ':' + kinds_changed, 'request %r from prefix %r, allocation %d failing: caller got NoMemory but the state changed\n before: %s\n after : %s' %
                                         (req, prefix, k, diff_dump(r['pre'], r['post'])[0], diff_dump(r['pre'], r['post'])[1]), case))
                else:
                    # retry on the same bus must now give the complete outcome
                    s = r['session']
                    m2 = s.build(r['req'])
                    s.send(r['req'][1], m2, fds=[0] if r['req'][0] == 'callfd' else None)
                    if r['req'][0] == 'hello':
                        rep = [o for o in s.inbox.get(r['req'][1], []) if o.kind == R.MT_RETURN and o.rserial == m2.serial]
                        if rep:
                            s.uname[r['req'][1]] = rep[0].args()[0]
                            s.label_of[s.uname[r['req'][1]]] = r['req'][1]
                    o2 = norm_obs(s.observe(), m2.serial)
                    d2 = re.sub(r'serial=\d+', 'serial=*', s.impl_key())
                    if o2 != want_obs or d2 != want_dump:
                        out.append(Violation('oom-retry-differs', req[0], 'request %r from prefix %r: after a NoMemory at allocation %d the retried request does not give the uninjected outcome\n retry: %r\n want : %r\n dump diff: %r' %
                                             (req, prefix, k, o2, want_obs, diff_dump(want_dump, d2)), case))
                    if r['b1'] > r['b0'] + 2:
                        kinds['blocks-grew'] += 1
            else:
                kinds['partial'] += 1
                out.append(Violation('oom-partial-outcome', req[0], 'request %r from prefix %r, allocation %d failing: neither the complete outcome nor a clean NoMemory\n observed: %r\n complete: %r\n dump diff vs complete: %r' %
                                     (req, prefix, k, got, want_obs, diff_dump(want_dump, r['post'])), case))
            k += 1
    except HarnessDied as e:
        out.append(crash_violation(e, case0))
        worker_bus().h.close()
    byfp = {}
    for v in out:
        byfp.setdefault(v.fingerprint, []).append(v)
    return {'viol': [v.to_json() for vs in byfp.values() for v in vs[:2]], 'counts': {k2: len(v) for k2, v in byfp.items()},
            'n': n, 'indices': n, 'nfail': kinds.get('nomem', 0), 'kinds': dict(kinds), 'part': 'bus'}


# ---- activation under allocation failure ---------------------------------------------

def task_activation(t):
    """t = (kind, prior): kind 'call' (auto-starting method call) or 'start' (StartServiceByName); prior: 0 = nothing pending,
    1 = an activation of the same name is already pending (the request joins it)."""
    from . import c19
    kind, prior = t
    out = []
    n = 0
    kinds = Counter()
    case0 = {'activation': [kind, prior]}

    def one(k):
        s = c19.Session({'small': True})
        try:
            if prior:
                s.apply(['call', 'Y', 0])
            started0 = s.start_log().get(c19.S1, 0)
            pre = re.sub(r'serial=\d+', 'serial=*', s.impl_key())
            who = 'T' if kind == 'take' else 'X'
            c = s.slots[who]
            ser = s.bus.next_serial(c)
            if kind == 'call':
                m = R.method_call(ser, c19.S1, '/svc', 'svc.i', 'Work', [R.S('oomtok')])
            elif kind == 'take':
                # the service connection takes the name: the held messages are delivered and StartServiceByName callers answered
                m = R.bus_call(ser, 'RequestName', [R.S(c19.S1), R.U(4)])
            else:
                m = R.bus_call(ser, 'StartServiceByName', [R.S(c19.S1), R.U(0)])
            s.bus.send(c, R.encode_message(m))
            if k is not None:
                s.bus.h.cmd('FAILALLOC %d' % k)
            s.bus.pump()
            fired = False
            if k is not None:
                fired = int(s.bus.h.cmd('FAILLEFT').split()[1]) > 1000000000
                s.bus.h.cmd('FAILALLOC off')
            s.settle()
            # the service process is started asynchronously: when an activation is pending now that was not before, wait
            # for the stub's start record (generously); otherwise give an erroneous start a moment to show up
            if kind != 'take' and not prior and s.impl_pending().get(c19.S1, 0) >= 1:
                s.settle(want_started={c19.S1: started0 + 1})
            else:
                time.sleep(0.15)
            s.settle()
            box = s.take(who)
            errs = [o for o in box if o.kind == R.MT_ERROR and o.rserial == ser]
            delivered = sorted(o.body[0][1] for o in box if o.kind == R.MT_CALL and o.body)
            others = sorted((l, o.kind, o.errname) for l in ('X', 'Y') if l != who for o in s.take(l) if o.kind in (R.MT_ERROR, R.MT_RETURN))
            post = re.sub(r'serial=\d+', 'serial=*', s.impl_key())
            started = s.start_log().get(c19.S1, 0) - started0
            entries = s.impl_pending().get(c19.S1, 0)
            return {'fired': fired, 'errs': [e.errname for e in errs] + ([('delivered', delivered), ('others', others)] if kind == 'take' else []),
                    'pre': pre, 'post': post, 'started': started, 'entries': entries, 'eof': s.eof.get(who)}
        finally:
            s.close()
    try:
        base = one(None)
        k = 0
        while k < 600:
            r = one(k)
            if not r['fired']:
                break
            n += 1
            case = dict(case0, k=k)
            same = (r['errs'], r['started'], r['entries'], r['post']) == (base['errs'], base['started'], base['entries'], base['post'])
            if same:
                kinds['absorbed'] += 1
            elif r['errs'][:1] == [b'org.freedesktop.DBus.Error.NoMemory'] and not r['eof'] and (kind != 'take' or r['errs'][1:] == [('delivered', []), ('others', [])]):
                kinds['nomem'] += 1
                # the request reported failure: no process may have been started for it and the bus state must be as before
                if r['started'] != 0 and not prior:
                    out.append(Violation('oom-state-changed', 'activation:process-started', 'auto-start %s (prior pending %d), allocation %d failing: the caller got NoMemory but the service process was started' % (kind, prior, k), case))
                elif r['post'] != r['pre']:
                    d0, d1 = diff_dump(r['pre'], r['post'])
                    out.append(Violation('oom-state-changed', 'activation:' + '+'.join(sorted({x.split(' ')[0] for x in d0 + d1})),
                                         'auto-start %s (prior pending %d), allocation %d failing: the caller got NoMemory but the state changed\n before: %s\n after : %s' % (kind, prior, k, d0, d1), case))
            elif kind == 'take' and r['errs'][0][0] == 'delivered' and r['entries'] == 0 and \
                    ((r['errs'][0][1] == [] and len(r['errs'][1][1]) == 1 and r['errs'][1][1][0][1] == R.MT_ERROR)):
                # the name was taken, but delivering the held message ran out of memory: its sender was told so
                # (exactly one error, no delivery) -- every party has a definite outcome
                kinds['held-message-failed-cleanly'] += 1
            else:
                kinds['partial'] += 1
                out.append(Violation('oom-partial-outcome', 'activation', 'auto-start %s (prior pending %d), allocation %d failing: errors %r, processes started %d, pending entries %d, sender disconnected %s; uninjected: errors %r, started %d, entries %d' %
                                     (kind, prior, k, r['errs'], r['started'], r['entries'], r['eof'], base['errs'], base['started'], base['entries']), case))
            k += 1
    except HarnessDied as e:
        out.append(crash_violation(e, case0))
        worker_bus().h.close()
    byfp = {}
    for v in out:
        byfp.setdefault(v.fingerprint, []).append(v)
    return {'viol': [v.to_json() for vs in byfp.values() for v in vs[:2]], 'counts': {k2: len(v) for k2, v in byfp.items()},
            'n': n, 'indices': n, 'nfail': kinds.get('nomem', 0), 'kinds': dict(kinds), 'part': 'bus'}


def diff_dump(a, b):
    sa, sb = set(a.split('|')), set(b.split('|'))
    return (sorted(sa - sb), sorted(sb - sa))


def _dispatch(t):
    fn, arg = t
    return fn(arg)


def config_set():
    from . import c13, c09, c18
    return [('permissive', B.make_config()), ('limits', B.make_config(limits=c13.LIM)),
            ('system-like', B.make_config(policy=c09.POLICY, limits={'max_replies_per_connection': 2, 'reply_timeout': 5000}, bustype=None)),
            ('monitor', B.make_config(policy=c18.POLICY.replace('@EXTRA@', '')))]


def run(ctx):
    quick = ctx.tier == 'quick'
    tasks = lib_tasks(ctx.tier)
    cfgs = config_set()
    for c in (cfgs[:4] if quick else cfgs):
        tasks.append((task_config, [c]))
    prefixes = PREFIXES       # all prior states in both tiers (the quick tier thins the flag words of RequestName instead)
    for p in prefixes:
        reqs = requests_for(p)
        if quick:
            reqs = [r for r in reqs if r[0] != 'req' or r[2] in (0, 3, 4)]
        for rq in reqs:
            tasks.append((task_bus, (p, rq)))
    for kind_ in ('call', 'start'):
        for prior_ in (0, 1):
            tasks.append((task_activation, (kind_, prior_)))
    tasks.append((task_activation, ('take', 1)))
    pool = Pool()
    lib_idx = bus_idx = 0
    nops = 0
    done = 0
    kinds = Counter()
    try:
        for r in pool.imap(_dispatch, tasks):
            done += 1
            if '__crash__' in r:
                ctx.add_violation(Violation('crash', r['__crash__'], r['stderr'], {'task': r['task']}))
                continue
            ctx.add_violations(r['viol'])
            for fp, c in r.get('counts', {}).items():
                ctx.viol_counts[fp] = ctx.viol_counts.get(fp, 0) + max(0, c - min(c, 2))
            nops += r['n'] if r['part'] == 'lib' else 1
            if r['part'] == 'lib':
                lib_idx += r['indices']
            else:
                bus_idx += r['indices']
            for k, v in r['kinds'].items():
                kinds[r['part'] + ':' + k] += v
            if ctx.expired():
                ctx.incomplete('deadline hit after %d of %d tasks' % (done, len(tasks)))
                pool.cancel()
                break
    finally:
        pool.close()
    ctx.merge_hits(dict(kinds))
    ctx.coverage.update({
        'evaluations': lib_idx + bus_idx, 'distinct_nontrivial': kinds.get('bus:nomem', 0) + sum(v for k, v in kinds.items() if k.startswith('lib:')),
        'rule': 'one evaluation = one (operation, prior state, failing allocation index) executed on the real code; indices run from 0 until the operation completes without consuming the failure, so every allocation of the operation fails once. '
                'Non-trivial = injected runs in which the failure was actually reported (library) or surfaced as NoMemory at the caller (bus); the rest were absorbed by retry loops / preallocation and gave the complete outcome.',
        'library_indices': lib_idx, 'bus_indices': bus_idx, 'operations': nops, 'bus_prior_states': len(prefixes), 'tasks': len(tasks), 'tasks_done': done,
    })
    ctx.sample({'bus': {'prefix': PREFIXES[2], 'request': ['req', 'B', 3], 'k': 17}})
    ctx.sample({'lib': 'OOMEDIT <signal message> path-'})
    ctx.assumptions = ['only dbus_malloc-family allocations fail', 'the canonical state dump covers name queues with flags, rules, pending replies and counters']
    ctx.replay_fn = replay


def replay(case):
    if 'activation' in case:
        r = task_activation(tuple(case['activation']))
        return [Violation.from_json(v) for v in r['viol']]
    if 'lib' in case:
        r = task_lib([(case['lib'], case['kind'])])
        return [Violation.from_json(v) for v in r['viol']]
    if 'config' in case:
        cfg = [c for c in config_set() if c[0] == case['config']]
        r = task_config(cfg)
        return [Violation.from_json(v) for v in r['viol']]
    if 'prefix' in case:
        r = task_bus((case['prefix'], case['req']))
        return [Violation.from_json(v) for v in r['viol']]
    return []
