"""C05 — unicast messages reach exactly the current owner, once, in order.

BFS over histories of sends (4 message types x NO_REPLY/NO_AUTO_START flags x
targets: contended well-known name, unique name, name of a closed client,
unowned name, the bus), ownership changes of the contended name between two
clients, disconnections, a recipient that stops reading (tiny socket buffers
so the bus-side queue really fills) and resumes, and batched arrivals (bytes
of two clients written before one pump; the model must explain the outcome by
one of the possible processing orders)."""
import itertools
from collections import Counter

from .. import refdbus as R
from .. import busbox as B
from .. import explore
from ..engine import Violation
from ..session import BusSession
from ..models import names as N
from ..registry import claim

claim('C05', 'model_checking',
      'explicit-state BFS over send / ownership-change / disconnect / slow-reader / batched-arrival histories on the real bus, judged by a registry model plus exactly-once and per-recipient FIFO checks on payload tokens',
      'Every history up to the depth bound over the alphabet is executed on an in-process bus; each message carries a unique token. The token must arrive exactly once, unchanged except SENDER, at the '
      'primary owner of the destination at processing time (per the specification\'s ownership model), at most once at a connection with an eavesdrop=true rule, and nowhere else (a bystander with a non-eavesdropping '
      'catch-all rule must see nothing); a recipient that stalls and resumes must see the exact processing order; an undeliverable method call yields exactly one error with its serial. A call written in the same main-loop iteration in which its recipient\'s socket closes (both write orders) yields exactly one error or reaches the heir of the name; a reload of the unchanged configuration changes nothing; every second message travels in the byte order foreign to the host. For batched '
      'arrivals one of the serialisations consistent with each client\'s own order must explain all observations.',
      'Trusts pyv/models/names.py for ownership. More than 3 senders/recipients, batches of more than 2 clients and histories beyond the depth bound are not covered. Auto-start is in C19.',
      'DESIGN.md section 4 C05')

FACTORY = 'pyv.checks.c05:Session'
NAME = b'com.example.N'
UNOWNED = b'com.example.Unowned'
PEERS = ['A', 'B', 'C']
PAD = b'p' * 12000


class Session(BusSession):
    COUNTER_ATTRS = ('tok',)

    def __init__(self, params):
        BusSession.__init__(self, params)
        self.reg = N.Registry()
        # B first: the bus-side send buffer is shrunk while B's is the only connection, so that only B backs up
        self.connect_slot('B')
        self.bus.h.cmd('SRVSOCKBUF 4608')
        for l in ('E', 'Z', 'D'):
            self.connect_slot(l)
        for l in PEERS:
            if l != 'B':
                self.connect_slot(l)
        self.method('E', 'AddMatch', [R.S(b"eavesdrop='true'")])
        self.method('Z', 'AddMatch', [R.S(b"type='signal'")])
        self.method('Z', 'AddMatch', [R.S(b"type='method_call'")])
        # the addressed recipient may itself hold an eavesdropping rule that matches what is addressed to it: it must
        # still get exactly one copy (it is marked as the addressed recipient before rule recipients are collected)
        self.method('B', 'AddMatch', [R.S(b"eavesdrop='true',destination='" + self.uname['B'] + b"'")])
        self.method('C', 'AddMatch', [R.S(b"eavesdrop='true',destination='" + self.uname['C'] + b"'")])
        self.closed_name = self.uname['D']
        self.close_slot('D')
        # small socket buffers on both ends so that a stalled B really backs up inside the bus (the bus-side send buffer
        # is what limits an AF_UNIX stream), where max_outgoing_bytes (see config) then makes the bus refuse further sends
        self.bus.h.cmd('SOCKBUF %d 0 2048' % self.slots['B'])      # receive side only: B must still be able to WRITE large messages in one piece
        self.answered = {}         # (label, serial) -> number of error replies received so far, over the whole history
        for l in list(self.inbox):
            self.take(l)
        self.tok = 0
        self.stalled = False
        self.backlog = []          # expected arrival sequence at B while it is stalled

    def config(self):
        return B.make_config(limits={'max_outgoing_bytes': 3000})

    def settle(self):
        """B's buffers are tiny and the payloads large: the bus needs several write/read rounds to get one message across."""
        quiet = 0
        for _ in range(60):
            self.bus.pump()
            o = self.bus.recvall()
            self._distribute(o)
            if any(rv.raw for rv in o.values()):
                quiet = 0
            else:
                quiet += 1
                if quiet >= 2:
                    break

    def send(self, label, msg, fds=None):
        BusSession.send(self, label, msg, fds)
        self.settle()

    # ---- alphabet -------------------------------------------------------
    def send_ops(self, l):
        ops = []
        for target in ('N', 'uB', 'closed', 'unowned', 'bus'):
            for kind, flags in (('call', 0), ('call', 1), ('call', 2), ('signal', 0), ('return', 1), ('error', 1)):
                if self.params.get('small') and (kind, flags) not in (('call', 0), ('signal', 0)) and \
                        not ((kind, flags) in (('call', 1), ('call', 2)) and target in ('unowned', 'closed') and l == 'A'):
                    continue      # (the quick tier keeps the flagged calls for the undeliverable targets, from one sender)
                ops.append(['send', l, target, kind, flags])
        # a call whose header ALREADY carries a SENDER field (which the bus must overwrite), stored in front of the other
        # fields and longer than the real unique name: routing must not depend on where the fields the bus did not touch
        # ended up after its edit
        if l == 'A':
            for target in ('N', 'uB'):
                ops.append(['send', l, target, 'callfs', 0])
        return ops

    def ops(self):
        ops = []
        for l in PEERS:
            if not self.is_open(l):
                continue
            if not (l == 'B' and self.stalled):
                ops += self.send_ops(l) if l in ('A', 'C') or not self.params.get('small') else []
            if l in ('B', 'C') and not (l == 'B' and self.stalled):
                for f in (0, 3, 4):
                    ops.append(['req', l, f])
                ops.append(['rel', l])
            if l != 'A':
                ops.append(['disc', l])
        # a call written in the same loop iteration in which its recipient's connection ends, both write orders
        if self.is_open('A') and self.is_open('C') and not self.stalled:
            for first in (0, 1):
                ops.append(['race', first, ['send', 'A', 'uC', 'call', 0], 'C'])
                if self.reg.owner(NAME) == 'C':
                    ops.append(['race', first, ['send', 'A', 'N', 'call', 0], 'C'])
        if self.is_open('B'):
            ops.append(['drain'] if self.stalled else ['stall'])
        if not self.stalled:
            ops.append(['reload'])
        # batches: a send by A together with an ownership change / send by C, both write orders
        if self.is_open('A') and self.is_open('C'):
            for o2 in (['req', 'C', 3], ['rel', 'C'], ['send', 'C', 'N', 'call', 0], ['send', 'C', 'uB', 'signal', 0]):
                for first in (0, 1):
                    ops.append(['batch', first, ['send', 'A', 'N', 'call', 0], o2])
                    ops.append(['batch', first, ['send', 'A', 'uB', 'signal', 0], o2])
        return ops

    # ---- building and predicting -------------------------------------------
    def target_name(self, target):
        return {'N': NAME, 'uC': self.uname['C'] if self.uname.get('C') else b':1.998', 'uB': self.uname['B'] if self.uname.get('B') else b':1.999', 'closed': self.closed_name, 'unowned': UNOWNED, 'bus': R.BUS}[target]

    def build(self, op, pad=True):
        _, l, target, kind, flags = op
        c = self.slots[l]
        s = self.bus.next_serial(c)
        self.tok += 1
        tok = b'T%d' % self.tok
        body = [R.S(tok), R.S(PAD if pad else b'p')]
        dest = self.target_name(target)
        if kind == 'callfs':
            m = R.method_call(s, dest, '/t', 't.i', 'Ping', body, flags=flags)
            m.fields.insert(0, (R.F_SENDER, (b's', b'com.example.Forged.Sender.Of.Thirty.Six')))
        elif kind == 'call':
            m = R.method_call(s, dest, '/t', 't.i', 'Ping', body, flags=flags)
        elif kind == 'signal':
            m = R.signal(s, '/t', 't.i', 'Sig', body, dest=dest, flags=flags)
        elif kind == 'return':
            m = R.method_return(s, 4242, dest, body, flags=flags)
        else:
            m = R.error(s, 4242, 't.Err', dest, body, flags=flags)
        if self.tok % 2:
            m.endian = 'B'      # every second message travels in the byte order that is foreign to this host: the bus relays it as it is
        return m, tok

    def build_name_op(self, op):
        l = op[1]
        c = self.slots[l]
        s = self.bus.next_serial(c)
        if op[0] == 'req':
            return R.bus_call(s, 'RequestName', [R.S(NAME), R.U(op[2])]), s
        return R.bus_call(s, 'ReleaseName', [R.S(NAME)]), s

    def recipient(self, reg, target):
        if target == 'N':
            return reg.owner(NAME)
        if target == 'uB':
            return 'B' if self.is_open('B') else None
        return None

    def predict(self, reg, op, built):
        """Apply op to registry copy reg; -> expectation dict."""
        exp = {'deliver': None, 'tok': None, 'error_to': None, 'serial': None, 'kind': None, 'flags': 0, 'sender': None, 'code': None, 'codefor': None}
        if op[0] == 'send':
            m, tok = built
            _, l, target, kind, flags = op
            kind = 'call' if kind == 'callfs' else kind
            exp.update(tok=tok, kind=kind, flags=flags, sender=l, serial=m.serial, msg=m)
            if target == 'bus':
                exp['bus'] = True
                return exp
            r = self.recipient(reg, target)
            if r is not None:
                exp['deliver'] = r
            else:
                exp['error_to'] = l
        elif op[0] == 'req':
            code, sig = reg.request(op[1], NAME, op[2])
            exp.update(code=code, codefor=op[1], serial=built[1])
        elif op[0] == 'rel':
            code, sig = reg.release(op[1], NAME)
            exp.update(code=code, codefor=op[1], serial=built[1])
        return exp

    # ---- observation ----------------------------------------------------------
    def observe(self):
        """Take all inboxes; -> {label: [items in arrival order]} with bus name signals dropped."""
        obs = {}
        for l in list(self.inbox):
            if l == 'B' and self.stalled:
                continue
            items = []
            for o in self.take(l):
                if o.sender == R.BUS and o.kind == R.MT_SIGNAL:
                    continue
                if o.sender == R.BUS and o.kind == R.MT_ERROR:
                    items.append(('err', o.rserial, o.errname))
                elif o.sender == R.BUS and o.kind == R.MT_RETURN:
                    items.append(('ret', o.rserial, tuple(o.args())))
                else:
                    tok = o.body[0][1] if o.body and o.body[0][0] == b's' else None
                    items.append(('msg', tok, o))
            obs[l] = items
        return obs

    def check(self, exps, obs, out, opdesc):
        """exps: expectations in PROCESSING order."""
        want = {}      # label -> list of tokens in order
        errs = Counter()
        rets = {}
        maybe_err = Counter()
        for e in exps:
            if e['tok'] is not None:
                if e.get('bus'):
                    if e['kind'] == 'call' and not (e['flags'] & 1):
                        errs[(e['sender'], e['serial'])] += 1      # unknown method on the bus: exactly one error
                    else:
                        maybe_err[(e['sender'], e['serial'])] += 1
                    want.setdefault('E', []).append(e['tok'])
                    continue
                if e['deliver'] is not None:
                    want.setdefault(e['deliver'], []).append(e['tok'])
                    if e['deliver'] != 'E':
                        want.setdefault('E', []).append(e['tok'])
                else:
                    # undeliverable: never delivered; the eavesdropper may still see the attempt
                    want.setdefault('E?', []).append(e['tok'])
                    # "a method call that cannot be delivered ... produces exactly one error reply", with and without
                    # NO_REPLY_EXPECTED (the property's quantifier names the flag): the caller learns that nobody got it
                    if e['kind'] == 'call':
                        errs[(e['sender'], e['serial'])] += 1
                    else:
                        maybe_err[(e['sender'], e['serial'])] += 1
            if e['code'] is not None:
                rets[(e['codefor'], e['serial'])] = e['code']
        # A delivery may be REFUSED because the recipient's outgoing queue is over max_outgoing_bytes (B has tiny socket
        # buffers, so this happens while it is stalled and also for the second of two large messages in one batch): then the
        # sender has exactly one LimitsExceeded error for that serial and the message is never delivered.
        for e in exps:
            if e['tok'] is None or e.get('deliver') is None:
                continue
            refused = any(it[0] == 'err' and it[1] == e['serial'] and it[2].endswith(b'LimitsExceeded') for it in obs.get(e['sender'], []))
            if refused:
                self.hit('refused-queue-full')
                maybe_err[(e['sender'], e['serial'])] += 1
                if e['tok'] in want.get(e['deliver'], []):
                    want[e['deliver']].remove(e['tok'])
                if e['tok'] in want.get('E', []):
                    want['E'].remove(e['tok'])
                    want.setdefault('E?', []).append(e['tok'])
        # B stalled: its expected arrivals go to the backlog instead
        if self.stalled and 'B' in want:
            self.backlog += want.pop('B')
        msgs_by_tok = {e['tok']: e for e in exps if e['tok'] is not None}
        for l, items in obs.items():
            got = [it[1] for it in items if it[0] == 'msg']
            w = list(want.get(l, []))
            if l == 'E':
                # the property grants an eavesdropper AT MOST one copy: what it sees must be a subsequence of
                # the processing order, without duplicates (traffic to the bus driver itself is ignored)
                got = [t for t in got if t is not None and t[:1] == b'T' and t[1:].isdigit()]
                allowed = [e['tok'] for e in exps if e['tok'] is not None]
                if any(c > 1 for c in Counter(got).values()):
                    out.append(Violation('delivered-twice', 'eavesdropper', '%s: eavesdropper received %r' % (opdesc, got), None))
                it_allowed = iter(allowed)
                if not all(any(t == a for a in it_allowed) for t in got):
                    out.append(Violation('eavesdropper-sequence', 'eavesdropper', '%s: eavesdropper received %r, processing order %r' % (opdesc, got, allowed), None))
                self.hit('eavesdropped', len(got))
            elif got != w:
                if sorted(map(repr, got)) == sorted(map(repr, w)):
                    clause, reason = 'out-of-order', 'recipient'
                elif len(got) > len(w):
                    clause, reason = ('delivered-twice', 'recipient') if any(c > 1 for c in Counter(got).values()) else ('delivered-to-wrong-connection', 'bystander' if l == 'Z' else 'recipient')
                else:
                    clause, reason = 'not-delivered', 'recipient'
                out.append(Violation(clause, reason, '%s: %s received tokens %r, expected %r' % (opdesc, l, got, w), None))
            # content of relayed messages
            for it in items:
                if it[0] != 'msg' or it[1] not in msgs_by_tok:
                    continue
                e = msgs_by_tok[it[1]]
                o = it[2]
                sent = e['msg']
                self.hit('relayed')
                if o.sender != self.uname[e['sender']]:
                    out.append(Violation('wrong-sender', 'relayed', '%s: token %r arrived with sender %r' % (opdesc, it[1], o.sender), None))
                if (o.kind, o.flags, o.serial, o.path, o.iface, o.member, o.errname, o.rserial, o.dest, o.sig) != \
                   (sent.mtype, sent.flags, sent.serial, sent.path, sent.interface, sent.member, sent.error_name, sent.reply_serial, sent.destination, sent.body_sig()) or \
                   [R.canon_value(v) for v in o.body] != [R.canon_value(v) for v in sent.body]:
                    out.append(Violation('field-changed', 'relayed', '%s: token %r changed in transit: %r' % (opdesc, it[1], o), None))
            # errors and replies
            goterr = Counter((l, it[1]) for it in items if it[0] == 'err')

            for k, c in goterr.items():
                allowed = errs.get(k, 0) + maybe_err.get(k, 0) + (1 if (k in rets) else 0)
                if c > max(allowed, 0) or (c > 1):
                    out.append(Violation('error-count', 'sender', '%s: %s received %d errors for serial %d' % (opdesc, l, c, k[1]), None))
            for k, c in errs.items():
                if k[0] == l and goterr.get(k, 0) != 1:
                    out.append(Violation('error-count', 'undeliverable-call', '%s: undeliverable method call (serial %d) produced %d errors at its sender' % (opdesc, k[1], goterr.get(k, 0)), None))
                    self.hit('err-missing')
                elif k[0] == l:
                    self.hit('undeliverable-call-error')
            for it in items:
                if it[0] == 'ret' and (l, it[1]) in rets:
                    if it[2] != (rets[(l, it[1])],):
                        out.append(Violation('reply-code', 'name-op', '%s: %s got reply %r, model %d' % (opdesc, l, it[2], rets[(l, it[1])]), None))
        for l in want:
            if l not in obs and l not in ('E?',) and want[l] and not (l == 'B' and self.stalled):
                out.append(Violation('not-delivered', 'recipient-gone', '%s: expected %r at %s which produced no observation' % (opdesc, want[l], l), None))

    def note_errors(self, obs, out, opdesc):
        """Over the whole history a call gets at most one error reply (refused, undeliverable, or NoReply because the
        recipient went away) -- never a second one for the same serial."""
        for lab, items in obs.items():
            for it in items:
                if it[0] == 'err':
                    k = (lab, it[1])
                    self.answered[k] = self.answered.get(k, 0) + 1
                    if self.answered[k] > 1:
                        out.append(Violation('error-count', 'second-error', '%s: %s has now received %d error replies for its serial %d (over the whole history)' % (opdesc, lab, self.answered[k], it[1]), None))

    def snapshot(self):
        s = BusSession.snapshot(self)
        return (s[0], dict(s[1], answered=dict(self.answered)))

    def restore(self, snap):
        BusSession.restore(self, (snap[0], {k: v for k, v in snap[1].items() if k != 'answered'}))
        self.answered = dict(snap[1]['answered'])

    # ---- transitions -----------------------------------------------------------
    def apply(self, op):
        out = []
        kind = op[0]
        if kind in ('send', 'req', 'rel'):
            built = self.build(op) if kind == 'send' else self.build_name_op(op)
            exp = self.predict(self.reg, op, built)
            self.send(op[1], built[0])
            self.hit(kind)
            obs = self.observe()
            self.check([exp], obs, out, repr(op))
            self.note_errors(obs, out, repr(op))
        elif kind == 'disc':
            l = op[1]
            if l == 'B':
                self.unstall_cmd()
                self.backlog = []
                self.stalled = False
            self.close_slot(l)
            self.reg.drop_connection(l)
            # a recipient that goes away may leave callers with NoReply for calls it never answered: still at most one
            # error per call over the whole history, and never for a call that was already refused
            self.note_errors(self.observe(), out, repr(op))
        elif kind == 'stall':
            self.bus.h.cmd('NODRAIN %d 1' % self.slots['B'])
            self.stalled = True
        elif kind == 'drain':
            self.unstall_cmd()
            self.stalled = False
            self._distribute(self.bus.recvall())
            # repeated pumping: the bus writes more as the socket drains
            for _ in range(50):
                r = self.bus.pump()
                o = self.bus.recvall()
                self._distribute(o)
                if not o:
                    break
            obs = self.observe()
            got = [it[1] for it in obs.get('B', []) if it[0] == 'msg']
            self.hit('drain-backlog', len(self.backlog))
            if got != self.backlog:
                clause = 'out-of-order' if sorted(map(repr, got)) == sorted(map(repr, self.backlog)) else ('not-delivered' if len(got) < len(self.backlog) else 'delivered-twice')
                out.append(Violation(clause, 'after-stall', 'after resuming, B received %r, processing order was %r' % (got, self.backlog), None))
            self.backlog = []
        elif kind == 'reload':
            self.reload_same(out, repr(op))
        elif kind == 'race':
            first, snd, victim = op[1], op[2], op[3]
            # a short message: the bus reads it in one go, so that it is complete in the very iteration that sees the victim's EOF
            m, tok = self.build(snd, pad=False)
            cv = self.slots[victim]
            if first == 0:
                self.bus.send(self.slots[snd[1]], R.encode_message(m))
                self.bus.h.cmd('CLOSE %d nopump' % cv)
            else:
                self.bus.h.cmd('CLOSE %d nopump' % cv)
                self.bus.send(self.slots[snd[1]], R.encode_message(m))
            self.slots[victim] = None
            self.bus.pump()
            self._distribute(self.bus.recvall())
            self.settle()
            self.reg.drop_connection(victim)
            obs = self.observe()
            self.hit('race-send-vs-close')
            # whichever the bus handles first, the caller ends up with exactly one error for this call (undeliverable, or
            # NoReply because the recipient went away with the call unanswered), and nobody else sees the call
            errs = [it for it in obs.get(snd[1], []) if it[0] == 'err' and it[1] == m.serial]
            # a call to the well-known name may instead reach the NEXT owner (the one that inherits the name when the
            # victim's disconnect is processed first): then it is delivered exactly once there and there is no error
            heir = self.reg.owner(NAME) if snd[2] == 'N' else None
            got_by = [l for l, items in obs.items() if l != 'E' and any(it[0] == 'msg' and it[1] == tok for it in items)]
            if heir is not None and got_by == [heir] and not (heir == 'B' and self.stalled):
                self.hit('race-delivered-to-heir')
                if errs:
                    out.append(Violation('error-count', 'race-with-disconnect', '%r: delivered to the new owner %s AND %d errors at the caller' % (op, heir, len(errs)), None))
            else:
                if len(errs) != 1:
                    out.append(Violation('error-count', 'race-with-disconnect', '%r: the caller received %d errors for a call whose recipient disconnected in the same loop iteration (delivered to %r)' % (op, len(errs), got_by), None))
                for l in got_by:
                    if l != snd[1]:
                        out.append(Violation('delivered-to-wrong-connection', 'race-with-disconnect', '%r: %s received the call' % (op, l), None))
            self.note_errors(obs, out, repr(op))
        elif kind == 'batch':
            first, o1, o2 = op[1], op[2], op[3]
            order = [o1, o2] if first == 0 else [o2, o1]
            built = {}
            for o in order:
                built[repr(o)] = self.build(o) if o[0] == 'send' else self.build_name_op(o)
                self.bus.send(self.slots[o[1]], R.encode_message(built[repr(o)][0]))
            self.bus.pump()
            self._distribute(self.bus.recvall())
            self.settle()
            obs = self.observe()
            self.hit('batch')
            # one of the two processing orders must explain everything
            verdicts = []
            for perm in ([o1, o2], [o2, o1]):
                reg = self.reg.copy()
                exps = [self.predict(reg, o, built[repr(o)]) for o in perm]
                vs = []
                saved = list(self.backlog)
                self.check(exps, obs, vs, repr(op))
                if not vs:
                    self.reg = reg
                    verdicts = None
                    break
                self.backlog = saved
                verdicts.append(vs)
            self.note_errors(obs, out, repr(op))
            if verdicts is not None:
                v = verdicts[0][0]
                out.append(Violation('batch-unexplained', v.clause, 'no processing order explains the observations of %r; first order: %s | second order: %s' %
                                     (op, verdicts[0][0].what, verdicts[1][0].what), None))
        self.obs_note(repr(op) + self.reg.key())
        return out

    def unstall_cmd(self):
        if self.is_open('B'):
            self.bus.h.cmd('NODRAIN %d 0' % self.slots['B'])

    def key(self):
        live = ''.join(l for l in PEERS if self.is_open(l))
        import re
        return re.sub(r'serial=\d+', 'serial=*', self.impl_key()) + '#' + self.reg.key() + '#' + live + ('#stalled:%d' % len(self.backlog) if self.stalled else '')


class ThrottleSession(BusSession):
    """max_incoming_bytes is small: while a recipient does not read, what its senders have sent stays alive inside the bus and
    the bus stops READING from those senders; when the recipient drains, reading resumes.  Nothing may be lost, duplicated
    or reordered by the pause, and other clients are served throughout."""

    def __init__(self, params=None):
        BusSession.__init__(self, params or {})
        self.connect_slot('B')
        self.bus.h.cmd('SRVSOCKBUF 4608')
        self.connect_slot('A')
        self.connect_slot('C')
        self.bus.h.cmd('SOCKBUF %d 0 2048' % self.slots['B'])
        for l in list(self.inbox):
            self.take(l)

    def config(self):
        return B.make_config(limits={'max_incoming_bytes': self.params.get('limit', 4000)})


def task_throttle(scns):
    out = []
    n = 0
    for limit, count, kind in scns:
        case = {'throttle': [limit, count, kind]}
        try:
            s = ThrottleSession({'limit': limit})
            s.bus.h.cmd('NODRAIN %d 1' % s.slots['B'])
            toks = []
            ca = s.slots['A']
            for i in range(count):
                ser = s.bus.next_serial(ca)
                tok = b'Q%03d' % i + b'p' * 1500
                toks.append(tok)
                if kind == 'call':
                    m = R.method_call(ser, s.uname['B'], '/t', 't.i', 'Ping', [R.S(tok)], flags=1)
                else:
                    m = R.signal(ser, '/t', 't.i', 'Sig', [R.S(tok)], dest=s.uname['B'])
                s.send('A', m)
            gser = s.bus.next_serial(ca)
            s.send('A', R.bus_call(gser, 'GetId'))
            # a bystander is served while A is being held back
            cser = s.bus.next_serial(s.slots['C'])
            s.send('C', R.bus_call(cser, 'GetId'))
            if len([o for o in s.take('C') if o.kind == R.MT_RETURN and o.rserial == cser]) != 1:
                out.append(Violation('bystander-not-served', 'throttle', 'while a sender is held back by max_incoming_bytes=%d a third client got no answer to GetId' % limit, case))
            s.bus.h.cmd('NODRAIN %d 0' % s.slots['B'])

            def settle():
                for _ in range(60):
                    s.bus.pump()
                    o = s.bus.recvall()
                    s._distribute(o)
                    if not o:
                        break
            settle()
            gotb = [o.body[0][1] for o in s.take('B') if o.body and o.body[0][0] == b's' and o.body[0][1][:1] == b'Q']
            ga = [o for o in s.take('A') if o.rserial == gser]
            if gotb != toks or len(ga) != 1:
                # everything the sender wrote is inside the bus and the recipient has drained, yet something has not been
                # processed: it must not take further input from the sender to get it moving (judged separately: the
                # exactly-once / in-order / resumed clauses below are judged after one more byte of input has arrived)
                out.append(Violation('delivery-waits-for-more-input', 'throttle',
                                     '%d %s messages of 1.5 KB to a recipient that was not reading (max_incoming_bytes %d): after the recipient drained, %d of them and %d of 1 own requests had been processed; the rest sits in the bus until the sender writes again' %
                                     (count, kind, limit, len(gotb), len(ga)), case))
            pser = s.bus.next_serial(ca)
            s.send('A', R.bus_call(pser, 'GetId'))
            settle()
            gotb += [o.body[0][1] for o in s.take('B') if o.body and o.body[0][0] == b's' and o.body[0][1][:1] == b'Q']
            later = s.take('A')
            ga += [o for o in later if o.rserial == gser]
            gp = [o for o in later if o.rserial == pser]
            n += 1
            if gotb != toks:
                lost = [t[:4] for t in toks if t not in gotb]
                out.append(Violation('unicast-lost' if lost else 'unicast-order-or-duplicate', 'throttle',
                                     '%d %s messages of 1.5 KB to a recipient that was not reading (max_incoming_bytes %d): it received %d after resuming (and one more request of the sender), missing %r, order kept: %s' %
                                     (count, kind, limit, len(gotb), lost[:3], gotb == [t for t in toks if t in gotb]), case))
            if len(ga) != 1 or ga[0].kind != R.MT_RETURN or len(gp) != 1:
                out.append(Violation('sender-not-resumed', 'throttle', 'the sender\'s own requests behind %d queued messages were answered %r / %r after the recipient drained' % (count, ga, gp), case))
            if s.eof.get('A') or s.eof.get('B'):
                out.append(Violation('disconnected', 'throttle', 'a well-behaved client was disconnected (A eof=%s, B eof=%s)' % (s.eof.get('A'), s.eof.get('B')), case))
        except HarnessDied as e:
            out.append(crash_violation(e, case))
            worker_bus().h.close()
    return {'viol': [v.to_json() for v in out], 'n': n}


def run(ctx):
    quick = ctx.tier == 'quick'
    scns = [(lim, cnt, k) for lim in (2000, 4000, 20000) for cnt in (3, 12) for k in ('call', 'signal')]
    from ..engine import Pool
    pool = Pool()
    nthr = 0
    try:
        for r in pool.imap(task_throttle, [scns[i:i + 2] for i in range(0, len(scns), 2)]):
            if '__crash__' in r:
                ctx.add_violation(Violation('crash', r['__crash__'], r['stderr'], {'task': r['task']}))
                continue
            ctx.add_violations(r['viol'])
            nthr += r['n']
    finally:
        pool.close()
    ctx.hit('sender-throttle-scenarios', nthr)
    st = explore.bfs(ctx, FACTORY, {'small': quick}, max_depth=5 if quick else 6, ops_chunk=8)
    ctx.coverage.update({
        'states': st['states'], 'transitions': st['transitions'], 'traces_validated_against_impl': st['transitions'],
        'completed_depth': st['completed_depth'], 'fixpoint': st['fixpoint'],
        'bound': '3 peers + eavesdropper + bystander; sends: 5 targets x %d kind/flag combinations; RequestName flags {0, ALLOW|REPLACE, DO_NOT_QUEUE}, ReleaseName, disconnect, stall/resume of B (2 KiB socket buffers, 1.5 KiB payloads), '
                 '16 two-client batches in both write orders; BFS depth %d' % (2 if quick else 6, 4 if quick else 5),
    })
    ctx.assumptions = ['pyv/models/names.py gives the owner at processing time', 'whether the sender of an undeliverable non-call is told is observed, not judged']
    ctx.replay_fn = replay


def replay(case):
    if 'throttle' in case:
        r = task_throttle([tuple(case['throttle'])])
        return [Violation.from_json(v) for v in r['viol']]
    return explore.replay_history(FACTORY, case['params'], case['history'])
