"""C18 — a monitor sees everything that matches and can affect nothing.

BFS over traffic histories (delivered, policy-denied and undeliverable
unicasts, broadcasts, calls to the driver, name changes, connects,
disconnects) on TWO in-process buses run in lock-step: in run A a connection
calls BecomeMonitor, in run B the same connection is disconnected instead.
Differential oracle: every other client observes the same in both runs.
Monitor oracle: the monitor receives exactly one copy of every message the
bus processed that matches its filter (every client-written message with the
true sender, every bus-originated message any client received), and nothing
else; afterwards it owns nothing, is never addressed, and is disconnected if
it sends."""
from collections import Counter

from .. import refdbus as R
from .. import busbox as B
from .. import explore
from ..engine import known_fingerprints, Violation, worker_harness
from ..session import BusSession, Obs, NOC_RULE
from ..models import matchrules as M
from ..vbox import HarnessDied
from ..registry import claim

claim('C18', 'model_checking',
      'explicit-state BFS over traffic histories executed in lock-step on two real buses (BecomeMonitor vs. disconnect of the same connection): differential oracle for non-interference plus an exact multiset oracle for what the monitor receives',
      'Histories over sends (delivered / denied by send policy / denied by receive policy / no owner / to the driver, all four types), broadcasts, RequestName/ReleaseName, connect/Hello/disconnect and BecomeMonitor with seven filters '
      '(by a fresh connection or one that owns a name, is queued, holds match rules or has a call outstanding) are explored breadth-first. Run B replaces each BecomeMonitor by a disconnect: all other clients must observe identical '
      'message sequences in both runs. The monitor must receive exactly the multiset of filter-matching messages the harness knows the bus processed, each with the true sender, and EOF once it sends anything. Filters include rules naming the unique name of a connection that disconnects later; an unfiltered reference monitor accompanies every filtered one; a reload of the unchanged configuration is an operation; NameLost signals to a departing connection are required at the monitor; a throw-away connection speaks before Hello under another client\'s name; the monitor may close its connection (nothing of it stays behind, traffic goes on).',
      'Trusts pyv/models/matchrules.py for filter matching. One monitor at a time in the quick tier. The bus shows a placeholder sender for messages of connections that have not completed Hello; only "not a name of another connection" is required there.',
      'DESIGN.md section 4 C18')

MSEND_KINDS = ['bus-call', 'call-nodest', 'return-nodest', 'error-nodest', 'signal', 'call-B', 'peer-ping-nodest']
FACTORY = 'pyv.checks.c18:Session'
NAME = b'com.example.N'
POLICY = """
  <policy context="default">
    <allow send_destination="*" eavesdrop="true"/>
    <allow eavesdrop="true"/>
    <allow own="*"/>
    <allow user="*"/>
    <deny send_interface="com.example.CannotSend"/>
    <deny receive_interface="com.example.CannotReceive"/>
@EXTRA@  </policy>
"""
VARIANTS = {
    'base': '',
    # bus-originated messages are refused too while a monitor is attached
    'deny-bus-errors': '    <deny receive_sender="org.freedesktop.DBus" receive_type="error" receive_requested_reply="true"/>\n',
    'deny-bus-signals': '    <deny receive_sender="org.freedesktop.DBus" receive_type="signal" receive_member="NameOwnerChanged" receive_interface="org.freedesktop.DBus"/>\n',
}
FILTERS = {'all': [], 'signals': [b"type='signal'"], 'fromA': None, 'ns': [b"path_namespace='/t'"], 'toA': 'destA', 'toAname': [b"destination='com.example.A'"],
           # rules naming the unique name of a connection that goes away later (B disconnects in the alphabet): the filter is
           # what the monitor asked for, for as long as it is a monitor
           'aboutB': 'aboutB'}


def filter_texts(name, run):
    f = FILTERS[name]
    if f is None:
        return [b"sender='%s'" % run.uname['A']]
    if f == 'destA':
        return [b"destination='%s'" % run.uname['A']]
    if f == 'aboutB':
        return [b"destination='%s'" % run.uname['B'], b"sender='%s'" % run.uname['B']]
    return f
PEERS = ['A', 'B']


class Run(BusSession):
    """One of the two lock-step runs."""

    def __init__(self, harness, variant='base'):
        from ..busbox import Bus
        self.params = {}
        self.bus = Bus(harness)
        self.bus.reset(B.make_config(policy=POLICY.replace('@EXTRA@', VARIANTS[variant])))
        self.slots = {}
        self.uname = {}
        self.label_of = {}
        self.inbox = {}
        self.eof = {}
        self.junk = []
        self.rawbuf = {}
        self.hits = {}
        import hashlib
        self._obs_log = hashlib.sha1()


class Session:
    COUNTER_ATTRS = ()

    def __init__(self, params):
        self.params = params
        self.a = Run(worker_harness('vbox'), params.get('variant', 'base'))
        self.b = Run(_second_harness(), params.get('variant', 'base'))
        self.monitor = None         # label of the monitor in run A
        self.filter = None
        self.dead = set()
        self.tok = 0
        self.hits = {}
        for r in (self.a, self.b):
            for l in PEERS + ['M', 'R0']:
                r.connect_slot(l)
            r.method('A', 'AddMatch', [R.S(NOC_RULE)])
            r.method('A', 'RequestName', [R.S(b'com.example.A'), R.U(0)])
            r.method('B', 'AddMatch', [R.S(b"type='signal',interface='t.i'")])
            r.method('B', 'AddMatch', [R.S(b"type='signal',interface='com.example.CannotReceive'")])      # subscribed, but its receive policy refuses these
            for l in PEERS + ['M', 'R0']:
                r.take(l)
        self.refmon = False         # a second, unfiltered monitor (R0) attached together with a FILTERED monitor M
        self.mstate = 'plain'       # plain | owner | queued | rules | calling
        self.c_state = 'closed'

    def hit(self, k, n=1):
        self.hits[k] = self.hits.get(k, 0) + n

    def snapshot(self):
        return (dict(self.a.bus.serial), dict(self.b.bus.serial), self.tok)

    def restore(self, s):
        self.a.bus.serial.clear(); self.a.bus.serial.update(s[0])
        self.b.bus.serial.clear(); self.b.bus.serial.update(s[1])
        self.tok = s[2]

    # ---- alphabet ---------------------------------------------------------
    def ops(self):
        ops = []
        live = [l for l in PEERS if l not in self.dead]
        if 'A' in live:
            for target in ('uB', 'N', 'unowned', 'bus'):
                for kind in ('call', 'signal'):
                    ops.append(['send', 'A', target, kind, 'ok'])
            ops.append(['send', 'A', 'uB', 'call', 'cannot-send'])
            ops.append(['send', 'A', 'uB', 'signal', 'cannot-receive'])
            ops.append(['send', 'A', 'uB', 'error', 'ok'])
            # NO_AUTO_START: the bus takes its other "no such name" path (no activation attempt)
            ops.append(['send', 'A', 'unowned', 'call', 'noautostart'])
            ops.append(['send', 'A', 'unowned', 'signal', 'noautostart'])
            ops.append(['bcast', 'A', 'ok'])
            ops.append(['bcast', 'A', 'cannot-send'])
            ops.append(['bcast', 'A', 'cannot-receive'])
        if 'B' in live:
            for f in (0, 3):
                ops.append(['req', 'B', f])
            ops.append(['rel', 'B'])
            ops.append(['disc', 'B'])
        ops.append(['conn', 'C'] if self.c_state == 'closed' else ['disc', 'C'])
        ops.append(['reload'])        # unchanged configuration re-read: the monitor stays a monitor, nobody hears anything
        if self.monitor is None and 'M' not in self.dead:
            if self.mstate == 'plain':
                ops.append(['mprep', 'own'])
                ops.append(['mprep', 'rules'])
                ops.append(['mprep', 'calling'])
            for f in sorted(FILTERS):
                ops.append(['become', f])
        elif self.monitor is not None:
            for k in MSEND_KINDS:
                ops.append(['msend', k])
            # the monitor goes away by itself (socket closed): its filter rules and its entry in the monitor list go with
            # it, the others notice nothing, and the traffic after it is judged like any other
            ops.append(['mdisc'])
        return ops

    # ---- helpers -----------------------------------------------------------------
    def both(self, fn):
        return fn(self.a), fn(self.b)

    def build_send(self, run, op):
        _, l, target, kind, variant = op
        c = run.slots[l]
        s = run.bus.next_serial(c)
        tok = b'T%d' % self.tok
        dest = {'uB': run.uname.get('B') or b':1.9999', 'N': NAME, 'unowned': b'com.example.Unowned', 'bus': R.BUS}[target]
        iface = {'ok': 't.i', 'noautostart': 't.i', 'cannot-send': 'com.example.CannotSend', 'cannot-receive': 'com.example.CannotReceive'}[variant]
        body = [R.S(tok)]
        fl = 2 if variant == 'noautostart' else 0
        if kind == 'call':
            return R.method_call(s, dest, '/t/x', iface, 'Do', body, flags=fl)
        if kind == 'signal':
            return R.signal(s, '/t/x', iface, 'Sig', body, dest=dest, flags=fl)
        return R.error(s, 777, 't.Err', dest, body)

    def observations(self, run, skip=()):
        """label -> list of canonical strings (unique names renamed), in arrival order."""
        out = {}
        for l in list(run.inbox):
            if l in skip:
                run.take(l)
                continue
            lst = []
            for o in run.take(l):
                c = run.rename(R.canon_msg(o.msg))
                if o.sender == R.BUS and o.kind == R.MT_ERROR:
                    c = c.split(' body=')[0]      # the human-readable text names pids and paths of the daemon process
                lst.append(c)
            out[l] = lst
        return out

    def compare_runs(self, oa, ob, out, desc, multiset_ok=False):
        for l in set(oa) | set(ob):
            if l in ('M', 'R0') or l == self.monitor:
                continue
            x, y = oa.get(l, []), ob.get(l, [])
            if x != y:
                if multiset_ok:
                    # the two code paths release names in different list orders (not fixed by the property), and the
                    # bus numbers its signals in emission order: compare as a multiset, serials of bus signals aside
                    import re
                    strip = lambda t: re.sub(r'^T=4 F=(\d+) S=\d+ ', r'T=4 F=\1 S=* ', t) if ('sender=%s ' % R.BUS.hex()) in t else t
                    if Counter(map(strip, x)) == Counter(map(strip, y)):
                        continue
                out.append(Violation('monitor-changes-observations', 'client', '%s: client %s observes %r with the monitor and %r without' % (desc, l, x[:4], y[:4]), None))

    def view_of(self, run, m: R.Msg, writer):
        """MsgView of a message for filter matching."""
        if writer == 'bus':
            sn = {R.BUS}
        else:
            sn = {run.uname.get(writer)} | ({NAME} if self.owner(run) == writer else set())
        dn = set()
        if m.destination is not None:
            dn = {m.destination}
        return M.MsgView(m.mtype, sn, dn, m.interface, m.member, m.path, m.body, False)

    def owner(self, run):
        d = run.impl_key()
        for line in d.split('|'):
            if line.startswith('svc %s ' % NAME.decode()):
                return line.split(' ')[2].split(':')[0].lstrip('@')
        return None

    def filter_rules(self, run):
        f = filter_texts(self.filter, run)
        rules = []
        for t in f:
            v = M.parse(t)
            r = v[1]
            r.eavesdrop = True
            rules.append(r)
        return rules

    def check_monitor(self, run, sent, received_by_clients, out, desc):
        """sent: list of (writer label, Msg as written); received_by_clients: list of Obs from the bus at ordinary clients."""
        rules = self.filter_rules(run)
        if self.refmon:
            # filtered monitor M against the unfiltered reference monitor R0 (R0 itself is judged below as monitor 'all')
            ref = run.take('R0')
            # an error the bus synthesises for one of its OWN messages that a recipient's policy refused carries
            # DESTINATION org.freedesktop.DBus in its header while the bus treats the refusing connection as its
            # addressee: which of the two a destination= filter means for it is not specified -> not judged
            selfaddr = lambda m_: m_.sender == R.BUS and m_.destination == R.BUS
            gotm = Counter(R.canon_msg(o.msg) for o in run.take(self.monitor) if not selfaddr(o.msg))
            wantm = Counter()
            owned = {}            # unique name -> well-known names it is the primary owner of
            for line in run.impl_key().split('|'):
                if line.startswith('svc ') and not line.startswith('svc @') and len(line.split(' ')) > 2:
                    lab = line.split(' ')[2].split(':')[0].lstrip('@')
                    if run.uname.get(lab):
                        owned.setdefault(run.uname[lab], set()).add(line.split(' ')[1].encode())
            owner_of = {n: u for u, ns in owned.items() for n in ns}

            def dest_names(d):
                # a destination rule is compared with the connection the message is addressed to: every name that
                # connection is the primary owner of (its unique name included) counts
                if d is None:
                    return set()
                u = owner_of.get(d, d)
                return {d, u} | owned.get(u, set()) if (u in owned or u in owner_of.values() or d in owner_of) else {d}
            for o in ref:
                m_ = o.msg
                if selfaddr(m_):
                    continue
                v_ = M.MsgView(m_.mtype, {m_.sender} | owned.get(m_.sender, set()), dest_names(m_.destination), m_.interface, m_.member, m_.path, m_.body, False)
                if any(M.matches(r, v_, holder_is_addressee=True) for r in rules):
                    wantm[R.canon_msg(m_)] += 1
            if gotm != wantm:
                missing, extra = wantm - gotm, gotm - wantm
                k = sorted(missing or extra)[0]
                out.append(Violation('monitor-filter-differs', 'missing' if missing else 'extra', '%s: a monitor with filter %r received %d messages, the unfiltered monitor\'s stream has %d matching ones; first difference: %s' %
                                     (desc, [r.text for r in rules], sum(gotm.values()), sum(wantm.values()), k[:300]), None))
            box = ref
            rules = []
        else:
            box = run.take(self.monitor)
        got = Counter()
        for o in box:
            got[R.canon_msg(o.msg)] += 1
        expected = Counter()
        seen_bus = set()

        def wants(m, writer):
            if not rules:
                return True
            v = self.view_of(run, m, writer)
            return any(M.matches(r, v, holder_is_addressee=True) for r in rules)
        placeholder = []
        for writer, m in sent:
            m2 = m.copy()
            m2.fields = [(c, v) for c, v in m2.fields if c <= 9 and c != R.F_SENDER]
            name = run.uname.get(writer)
            if name is None:
                placeholder.append(m2)
                continue
            m2.fields.append((R.F_SENDER, (b's', name)))
            if m2.body and not m2.field(R.F_SIGNATURE):
                m2.fields.append((R.F_SIGNATURE, (b'g', m2.body_sig())))
            if wants(m2, writer):
                expected[R.canon_msg(m2)] += 1
        for o in received_by_clients:
            if o.sender != R.BUS:
                continue
            c = R.canon_msg(o.msg)
            if c in seen_bus:
                continue
            seen_bus.add(c)
            if wants(o.msg, 'bus'):
                expected[c] += 1
        # messages of a connection that has no name yet: sender must be a placeholder, not anyone's name
        for m2 in placeholder:
            cand = [k for k in got if ('member=%s ' % (m2.member or b'').hex()) in k and ('S=%d ' % m2.serial) in k and k not in expected]
            for k in cand[:1]:
                snd = [t for t in k.split(' ') if t.startswith('sender')][0]
                names = {n.hex() for n in run.label_of}
                if snd[7:] in names:
                    out.append(Violation('monitor-wrong-sender', 'unregistered', '%s: a message of an unregistered connection is shown to the monitor with another connection\'s name' % desc, None))
                expected[k] += 1
        extra0 = got - expected
        gone = {n.hex() for n, l in run.label_of.items() if not run.is_open(l)}
        lost_seen = Counter()
        for k in list(extra0):
            f0 = dict(t.split('=', 1) for t in k.split(' ') if '=' in t)
            if f0.get('sender') == R.BUS.hex() and f0.get('member') == b'NameLost'.hex() and f0.get('dest') in gone:
                lost_seen[(f0['dest'], f0.get('body'))] += extra0[k]
        req = getattr(self, 'lost_required', None)
        if req and not rules:
            for n_ in req[1]:
                c_ = lost_seen.get((req[0].hex(), '[s:%s]' % n_.hex()), 0)
                self.hit('namelost-to-departed-connection')
                if c_ != 1:
                    out.append(Violation('monitor-missed-message' if c_ == 0 else 'monitor-duplicate', 'namelost-to-departed', '%s: the monitor saw %d NameLost(%r) signals addressed to the departing connection %r (it was the primary owner)' % (desc, c_, n_, req[0]), None))
        if got != expected:
            missing, extra = expected - got, got - expected
            if missing:
                k = sorted(missing)[0]
                kind = 'bus-originated' if 'sender=%s ' % R.BUS.hex() in k else 'client'
                out.append(Violation('monitor-missed-message', kind, '%s: monitor did not receive %d message(s), e.g. %s (received %d, expected %d)' % (desc, sum(missing.values()), k[:300], sum(got.values()), sum(expected.values())), None))
            # bus-originated messages addressed to a connection that has just gone (NameLost for its names) reach nobody
            # but the monitor: they are "messages the bus processed" that the harness cannot observe anywhere else
            gone = {n.hex() for n, l in run.label_of.items() if not run.is_open(l)}
            for k in list(extra):
                f = dict(t.split('=', 1) for t in k.split(' ') if '=' in t)
                if f.get('sender') == R.BUS.hex() and f.get('dest') in gone:
                    del extra[k]
                    self.hit('monitor-saw-message-to-closed-connection')
                elif f.get('sender') == R.BUS.hex() and expected.get(k, 0) == 0 and extra[k] == 1:
                    # a bus-originated message nobody else received: one the bus refused to deliver (or the error it
                    # synthesised for it).  The harness has no second place to observe those; exactly-once is still required.
                    del extra[k]
                    self.hit('monitor-saw-undelivered-bus-message')
            if extra:
                k = sorted(extra)[0]
                twice = any(expected.get(x, 0) >= 1 for x in extra)
                out.append(Violation('monitor-duplicate' if twice else 'monitor-unexplained-message', 'extra', '%s: monitor received %d unexpected message(s), e.g. %s' % (desc, sum(extra.values()), k[:300]), None))
        else:
            self.hit('monitor-messages-matched', sum(got.values()))

    # ---- transitions -------------------------------------------------------------
    def apply(self, op):
        out = []
        kind = op[0]
        desc = repr(op)
        sent = []
        self.lost_required = None
        if kind in ('send', 'bcast'):
            self.tok += 1
            for run in (self.a, self.b):
                if kind == 'send':
                    m = self.build_send(run, op)
                else:
                    c = run.slots[op[1]]
                    s = run.bus.next_serial(c)
                    iface = {'ok': 't.i', 'cannot-send': 'com.example.CannotSend', 'cannot-receive': 'com.example.CannotReceive'}[op[2]]
                    m = R.signal(s, '/t/b', iface, 'Bc', [R.S(b'T%d' % self.tok)])
                run.send(op[1], m)
                if run is self.a:
                    sent.append((op[1], m))
            self.hit(kind)
        elif kind in ('req', 'rel'):
            for run in (self.a, self.b):
                c = run.slots[op[1]]
                s = run.bus.next_serial(c)
                m = R.bus_call(s, 'RequestName', [R.S(NAME), R.U(op[2])]) if kind == 'req' else R.bus_call(s, 'ReleaseName', [R.S(NAME)])
                run.send(op[1], m)
                if run is self.a:
                    sent.append((op[1], m))
        elif kind == 'reload':
            for run in (self.a, self.b):
                run.reload_same(out, desc + (' (bus with monitor)' if run is self.a else ' (bus without monitor)'))
            if out:
                return out
        elif kind == 'disc':
            l = op[1]
            # what the departing connection is the primary owner of (its unique name included): the bus tells it so with a
            # NameLost per name -- addressed to a connection that is already gone, so only a monitor can see them
            self.lost_required = None
            if self.a.uname.get(l):
                owned = [self.a.uname[l]]
                for line in self.a.impl_key().split('|'):
                    f = line.split(' ')
                    if line.startswith('svc ') and not line.startswith('svc @') and len(f) > 2 and f[2].split(':')[0] == '@' + l:
                        owned.append(f[1].encode())
                self.lost_required = (self.a.uname[l], owned)
            for run in (self.a, self.b):
                run.close_slot(l)
            if l == 'C':
                self.c_state = 'closed'
            else:
                self.dead.add(l)
        elif kind == 'conn':
            for run in (self.a, self.b):
                # a throw-away connection that speaks before Hello and claims to be A: whatever the monitor is shown of it
                # must not bear A's (or anybody's) name
                run.connect_slot('D', hello=False)
                cd_ = run.slots['D']
                sd_ = run.bus.next_serial(cd_)
                md_ = R.Msg(R.MT_CALL, 0, sd_, [(R.F_PATH, (b'o', R.BUS_PATH if isinstance(R.BUS_PATH, bytes) else R.BUS_PATH.encode())), (R.F_INTERFACE, (b's', R.BUS)), (R.F_MEMBER, (b's', b'GetId')),
                                                (R.F_DESTINATION, (b's', R.BUS)), (R.F_SENDER, (b's', run.uname['A']))], [])
                run.send('D', md_)
                if run is self.a:
                    sent.append(('D', md_))
                if run.slots.get('D') is not None:
                    run.close_slot('D')
                run.uname['D'] = None
                run.connect_slot('C', hello=False)
                c = run.slots['C']
                s = run.bus.next_serial(c)
                m = R.bus_call(s, 'Hello')
                if run is self.a:
                    sent.append(('C', m))
                run.send('C', m)
                rep = [o for o in run.inbox.get('C', []) if o.kind == R.MT_RETURN and o.rserial == s]
                if rep:
                    run.uname['C'] = rep[0].args()[0]
                    run.label_of[run.uname['C']] = 'C'
                    run.bus.names[c] = run.uname['C']
            self.c_state = 'open'
        elif kind == 'mprep':
            for run in (self.a, self.b):
                if op[1] == 'own':
                    c = run.slots['M']; s = run.bus.next_serial(c)
                    m = R.bus_call(s, 'RequestName', [R.S(NAME), R.U(1)])
                elif op[1] == 'rules':
                    c = run.slots['M']; s = run.bus.next_serial(c)
                    m = R.bus_call(s, 'AddMatch', [R.S(b"type='signal'")])
                else:
                    c = run.slots['M']; s = run.bus.next_serial(c)
                    m = R.method_call(s, run.uname['A'], '/t/x', 't.i', 'Do', [R.S('from-M')])
                run.send('M', m)
                if run is self.a:
                    sent.append(('M', m))
            self.mstate = op[1]
        elif kind == 'become':
            self.filter = op[1]
            f = filter_texts(op[1], self.a)
            c = self.a.slots['M']
            s = self.a.bus.next_serial(c)
            m = R.method_call(s, R.BUS, R.BUS_PATH, b'org.freedesktop.DBus.Monitoring', 'BecomeMonitor', [R.A('s', [R.S(x) for x in f]), R.U(0)])
            self.a.send('M', m)
            rep = self.a.take_reply('M', s)
            if rep is None or rep.kind != R.MT_RETURN:
                out.append(Violation('become-monitor-refused', 'BecomeMonitor', '%s answered %r' % (desc, rep), None))
                return out
            self.b.close_slot('M')
            self.monitor = 'M'
            if op[1] != 'all':
                # reference monitor without a filter: what a filtered monitor receives must be exactly the part of the
                # reference monitor's stream that its filter matches (covers messages only monitors can see, such as the
                # errors the bus synthesises when it refuses a delivery)
                c0 = self.a.slots['R0']
                s0 = self.a.bus.next_serial(c0)
                self.a.send('R0', R.method_call(s0, R.BUS, R.BUS_PATH, b'org.freedesktop.DBus.Monitoring', 'BecomeMonitor', [R.A('s', []), R.U(0)]))
                rep0 = self.a.take_reply('R0', s0)
                if rep0 is None or rep0.kind != R.MT_RETURN:
                    out.append(Violation('become-monitor-refused', 'BecomeMonitor', 'reference monitor: %r' % (rep0,), None))
                    return out
                self.b.close_slot('R0')
                self.refmon = True
                self.a.take('R0')
                self.a.take('M')
            self.hit('become-' + self.mstate)
            oa = self.observations(self.a, skip=('M', 'R0'))
            ob = self.observations(self.b, skip=('M', 'R0'))
            self.compare_runs(oa, ob, out, desc, multiset_ok=True)
            # (iii) it owns nothing any more
            d = self.a.impl_key()
            for line in d.split('|'):
                if line.startswith('svc ') and '@M' in line.split(' ')[2:]:
                    out.append(Violation('monitor-still-owner', 'registry', '%s: the monitor is still in an owner queue: %s' % (desc, line), None))
                if line.startswith('rule @M'):
                    out.append(Violation('monitor-keeps-rules', 'rules', '%s: the monitor still holds an ordinary match rule: %s' % (desc, line), None))
                if line.startswith('reply ') and '@M' in line:
                    out.append(Violation('monitor-keeps-pending-reply', 'replies', '%s: %s' % (desc, line), None))
            return out
        elif kind == 'msend':
            c = self.a.slots['M']
            s = self.a.bus.next_serial(c)
            mk = op[1] if len(op) > 1 else 'bus-call'
            m = {'bus-call': lambda: R.bus_call(s, 'GetId'),
                 'call-nodest': lambda: R.method_call(s, None, '/m', 'm.i', 'Do', [R.S('m')]),
                 'return-nodest': lambda: R.method_return(s, 4711, None, [R.S('m')]),
                 'error-nodest': lambda: R.error(s, 4711, 'm.Err', None, [R.S('m')]),
                 'signal': lambda: R.signal(s, '/m', 'm.i', 'Sig', [R.S('m')]),
                 'call-B': lambda: R.method_call(s, self.a.uname.get('B') or b':1.9999', '/m', 'm.i', 'Do', [R.S('m')]),
                 'peer-ping-nodest': lambda: R.method_call(s, None, '/', 'org.freedesktop.DBus.Peer', 'Ping', [])}[mk]()
            self.a.send('M', m)
            got = self.a.take('M')
            addressed = [o for o in got if o.rserial == s and o.kind in (R.MT_RETURN, R.MT_ERROR)]
            if addressed:
                v = Violation('monitor-addressed', mk, 'a monitor that sent %s received an answer addressed to it: %r' % (mk, addressed[0]), None)
                v.resynced = v.fingerprint in known_fingerprints('C18')
                out.append(v)
            if not self.a.eof.get('M'):
                v = Violation('sending-monitor-kept', mk, 'a monitor that sent a message (%s) was not disconnected' % mk, None)
                v.resynced = v.fingerprint in known_fingerprints('C18')
                out.append(v)
                self.a.close_slot('M')
            self.monitor = None
            self.dead.add('M')
            self.a.slots['M'] = None
            if self.refmon:
                self.a.close_slot('R0')
                self.refmon = False
                self.dead.add('R0')
            self.hit('monitor-sends')
        elif kind == 'mdisc':
            self.a.close_slot('M')
            self.monitor = None
            self.dead.add('M')
            self.a.slots['M'] = None
            if self.refmon:
                self.a.close_slot('R0')
                self.refmon = False
                self.dead.add('R0')
            d = self.a.impl_key()
            left = [line for line in d.split('|') if line.startswith('monitor ') or line.startswith('mrule ') or (line.startswith('conns ') and 'n_monitors=0' not in line)]
            if left:
                out.append(Violation('departed-monitor-left-behind', 'dump', '%s: after the monitor closed its connection the bus still holds %s' % (desc, left[:3]), None))
            self.hit('monitor-disconnects')
        # collect observations
        received = []
        if self.monitor is not None:
            for l in list(self.a.inbox):
                if l != self.monitor and not (self.refmon and l == 'R0'):     # the reference monitor is judged, it is not a witness
                    received += list(self.a.inbox[l])
            self.check_monitor(self.a, sent, received, out, desc)
        oa = self.observations(self.a, skip=('M', 'R0') if self.monitor else ())
        ob = self.observations(self.b, skip=('M', 'R0') if self.monitor else ())
        if self.monitor is None and 'M' not in self.dead:
            pass
        self.compare_runs(oa, ob, out, desc, multiset_ok=(kind == 'disc'))
        if self.monitor is not None:
            # never addressed: anything the monitor got was judged above; its eof must be clear
            if self.a.eof.get('M'):
                out.append(Violation('monitor-disconnected', 'eof', '%s: the silent monitor was disconnected' % desc, None))
        return out

    def key(self):
        import re
        ka = re.sub(r'serial=\d+', 'serial=*', self.a.impl_key())
        return ka + '#' + repr((self.monitor, self.filter, self.mstate, self.c_state, sorted(self.dead), self.refmon))

    def died(self):
        self.a.bus.h.close()
        self.b.bus.h.close()

    def close(self):
        pass


class StalledMonitorSession(BusSession):
    """A monitor that does not read for a while: whatever piles up for it inside the bus, it is owed one copy of every
    matching message, in order, once it reads again - a monitor is not a recipient that the bus may refuse."""

    def __init__(self, params=None):
        BusSession.__init__(self, params or {})
        self.connect_slot('M')
        self.bus.h.cmd('SRVSOCKBUF 4608')
        self.connect_slot('A')
        self.connect_slot('B')
        self.bus.h.cmd('SOCKBUF %d 0 2048' % self.slots['M'])
        for l in list(self.inbox):
            self.take(l)

    def config(self):
        return B.make_config(policy=POLICY.replace('@EXTRA@', ''), limits={'max_outgoing_bytes': 3000})


def task_stalled_monitor(scns):
    out = []
    n = 0
    for filt, kind, count in scns:
        case = {'stalled_monitor': [filt, kind, count]}
        try:
            s = StalledMonitorSession()
            s.method('B', 'AddMatch', [R.S(b"type='signal',interface='t.i'")])
            rules = [R.S(x) for x in ([b"type='signal'"] if filt == 'signals' else [])]
            rep = s.method('M', 'BecomeMonitor', [R.A('s', rules), R.U(0)], iface=b'org.freedesktop.DBus.Monitoring')
            for l in ('A', 'B', 'M'):
                s.take(l)
            s.bus.h.cmd('NODRAIN %d 1' % s.slots['M'])
            toks = []
            for i in range(count):
                c = s.slots['A']
                ser = s.bus.next_serial(c)
                tok = b'K%03d' % i + b'p' * 1500
                toks.append(tok)
                if kind == 'bcast':
                    m = R.signal(ser, '/t/b', 't.i', 'Bc', [R.S(tok)])
                elif kind == 'usignal':
                    m = R.signal(ser, '/t/b', 't.i', 'Us', [R.S(tok)], dest=s.uname['B'])
                else:
                    m = R.method_call(ser, s.uname['B'], '/t/x', 't.i', 'Do', [R.S(tok)], flags=1)
                s.send('A', m)
            gotb = [o.body[0][1] for o in s.take('B') if o.body and o.body[0][1][:1] == b'K']
            if gotb != toks:
                out.append(Violation('monitor-changes-observations', 'stalled-monitor', 'with a monitor that does not read, B received %d of %d messages (%s)' % (len(gotb), count, kind), case))
            s.bus.h.cmd('NODRAIN %d 0' % s.slots['M'])
            for _ in range(40):
                s.bus.pump()
                o = s.bus.recvall()
                s._distribute(o)
                if not o:
                    break
            gotm = [o.body[0][1] for o in s.take('M') if o.body and o.body[0][0] == b's' and o.body[0][1][:1] == b'K' and o.sender == s.uname['A']]
            wantm = toks if (filt == 'all' or kind != 'call') else []
            n += 1
            if gotm != wantm:
                missing = [t[:4] for t in wantm if t not in gotm]
                out.append(Violation('monitor-missed-message' if missing else 'monitor-duplicate', 'stalled-monitor',
                                     'a monitor (filter %s) that did not read while %d %s messages of 1.5 KB went by received %d of them after it resumed reading (max_outgoing_bytes 3000); missing e.g. %r, eof=%s' %
                                     (filt, count, kind, len(gotm), missing[:3], s.eof.get('M')), case))
        except HarnessDied as e:
            from ..engine import crash_violation, worker_bus
            out.append(crash_violation(e, case))
            worker_bus().h.close()
    return {'viol': [v.to_json() for v in out], 'n': n}


_second = {}


def _second_harness():
    from ..engine import _worker_state
    from ..vbox import Harness
    h = _worker_state.get(('vbox', 'asan', 2))
    if h is None:
        h = Harness('vbox')
        _worker_state[('vbox', 'asan', 2)] = h
    return h


def run(ctx):
    quick = ctx.tier == 'quick'
    depth = 5 if quick else 6
    # scripted scenarios first: a monitor that falls behind
    from ..engine import Pool
    scns = [(f, k, c) for f in ('all', 'signals') for k in ('bcast', 'usignal', 'call') for c in ((4, 12) if quick else (2, 4, 12, 40))]
    pool = Pool()
    nst = 0
    try:
        for r in pool.imap(task_stalled_monitor, [scns[i:i + 2] for i in range(0, len(scns), 2)]):
            if '__crash__' in r:
                ctx.add_violation(Violation('crash', r['__crash__'], r['stderr'], {'task': r['task']}))
                continue
            ctx.add_violations(r['viol'])
            nst += r['n']
    finally:
        pool.close()
    ctx.hit('stalled-monitor-scenarios', nst)
    st = explore.bfs(ctx, FACTORY, {'variant': 'base'}, max_depth=depth, ops_chunk=8)
    extra = []
    for v in ('deny-bus-errors', 'deny-bus-signals'):
        if ctx.expired():
            ctx.incomplete('deadline before variant ' + v)
            break
        s2 = explore.bfs(ctx, FACTORY, {'variant': v}, max_depth=depth - 1 if quick else depth, ops_chunk=8)
        extra.append({'variant': v, 'states': s2['states'], 'transitions': s2['transitions'], 'depth': s2['completed_depth']})
        st['states'] += s2['states']
        st['transitions'] += s2['transitions']
    ctx.coverage.update({
        'states': st['states'], 'transitions': st['transitions'], 'traces_validated_against_impl': 2 * st['transitions'],
        'completed_depth': st['completed_depth'], 'fixpoint': st['fixpoint'], 'policy_variants': extra,
        'bound': '2 ordinary peers + late joiner + monitor candidate; 13 sends (4 targets x call/signal, unowned target with NO_AUTO_START, denied-by-send, denied-by-receive, unicast error), 2 broadcasts, RequestName flags {0,3}, ReleaseName, disconnects, connect+Hello; '
                 'monitor candidate may first own the name / add a rule / have a call outstanding; BecomeMonitor with 4 filters; monitor sends; BFS depth %d, every history on two buses' % depth,
    })
    ctx.assumptions = ['run B (disconnect instead of BecomeMonitor) is the reference for what others should see', 'pyv/models/matchrules.py decides filter matches']
    ctx.replay_fn = replay


def replay(case):
    if 'stalled_monitor' in case:
        r = task_stalled_monitor([tuple(case['stalled_monitor'])])
        return [Violation.from_json(v) for v in r['viol']]
    return explore.replay_history(FACTORY, case['params'], case['history'])
