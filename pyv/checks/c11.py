"""C11 — message framing is independent of how the byte stream is chunked.

Loader part: for every stream of the corpus product, EVERY partition with
<= k cut points, the byte-at-a-time partition and "one cut then byte-at-a-time"
are fed to a real DBusMessageLoader (enumerated inside vbox, LOADERCUTS) and
compared with the unsplit run, which itself is compared with the reference
stream splitter.  Transport part: handshake + BEGIN + messages written to an
in-process bus with every single (and, around the BEGIN boundary, every
double) cut; the bus's answers must equal those of the unsplit run."""
import itertools
import re

from .. import gen
from .. import refdbus as R
from .. import busbox as B
from ..engine import Pool, Violation, worker_harness, worker_bus, crash_violation
from ..vbox import HarnessDied, Harness, parse_kv
from ..registry import claim

claim('C11', 'model_checking',
      'exhaustive enumeration of all partitions with <= k cuts (plus byte-at-a-time schedules) of every corpus stream, executed on the real loader / bus transport, differential against the unsplit run and the reference splitter',
      'The read schedule is the only nondeterminism of framing. For each stream (1-3 messages of varied sizes and byte orders, including messages of types the implementation does not know, optionally an invalid message and trailing bytes) every partition '
      'with at most k cut points and the byte-wise partitions are executed on the real DBusMessageLoader; the popped message sequence and the place where corruption is declared must equal the unsplit run, '
      'which must equal the independent stream splitter. The same is done through the real socket transport of an in-process bus across the BEGIN/message boundary, and with libdbus as the server end of a peer-to-peer connection (harness/vserve) driven once by blocking iterations (dbus_connection_read_write_dispatch: the do_iteration path) and once by its watches, where the client writes a pipelined handshake plus 3 or 40 messages (5 KB, more than one 2048-byte read behind BEGIN) with every single cut and double cuts around BEGIN and the read-size boundaries; and a 120-message stream (calls among them, which the server answers) after which the writer closes before the reader has run.',
      'Streams outside the corpus and partitions with more than k cuts (other than byte-wise) are not covered. Unix fd passing interaction with max_to_read is covered by running every partition with and without honouring the hint.',
      'DESIGN.md section 4 C11')


def corpus():
    """Valid messages: both byte orders, body sizes 0,1,7,8,9, header sizes across 8-byte residues."""
    out = []
    for e in 'lB':
        for n in range(0, 8):   # member length shifts header padding through every residue
            m = R.Msg(R.MT_CALL, 0, 3, [(R.F_PATH, (b'o', b'/a')), (R.F_MEMBER, (b's', b'M' * (n + 1)))], [], e)
            out.append(R.encode_message(m))
        for blen in (1, 7, 8, 9):
            m = R.Msg(R.MT_SIGNAL, 0, 4, [(R.F_PATH, (b'o', b'/a')), (R.F_INTERFACE, (b's', b'a.b')), (R.F_MEMBER, (b's', b'S'))],
                      [(b'ay', [(b'y', i) for i in range(blen - 4)])] if blen > 4 else [(b'y', 1)], e)
            out.append(R.encode_message(m))
        m = R.Msg(R.MT_RETURN, 1, 5, [(R.F_REPLY_SERIAL, (b'u', 3)), (R.F_DESTINATION, (b's', b':1.0'))], [(b's', b'xyz'), (b'v', (b'u', 2))], e)
        out.append(R.encode_message(m))
    return out


def invalid_tails():
    """One invalid message per reason family."""
    good = R.encode_message(R.Msg(R.MT_CALL, 0, 3, [(R.F_PATH, (b'o', b'/a')), (R.F_MEMBER, (b's', b'M'))], [(b's', b'hi')]))
    out = []
    b = bytearray(good); b[0] = ord('x'); out.append(bytes(b))            # byte order
    b = bytearray(good); b[1] = 0; out.append(bytes(b))                    # message type
    b = bytearray(good); b[3] = 2; out.append(bytes(b))                    # protocol version
    b = bytearray(good); b[8:12] = b'\0\0\0\0'; out.append(bytes(b))       # serial 0
    b = bytearray(good); b[-1] = 1; out.append(bytes(b))                   # string nul
    b = bytearray(good); b[16] = 0; out.append(bytes(b))                   # field code 0
    b = bytearray(good); b[7] = 0x10; out.append(bytes(b[:40]))            # huge body length, truncated
    out.append(R.encode_message(R.Msg(R.MT_CALL, 0, 3, [(R.F_PATH, (b'o', b'/a'))], [])))  # missing member
    return out


def streams(tier):
    c = corpus()
    inv = invalid_tails()
    small = c[0:3] + c[8:10] + c[12:14] + c[22:24]
    # messages of a type this implementation does not know (valid: the specification asks for them to be ignored, the loader
    # hands them on), with all the header fields a known type could require and with none of them
    unk = []
    for e in 'lB':
        unk.append(R.encode_message(R.Msg(7, 0, 9, [(R.F_PATH, (b'o', b'/u')), (R.F_INTERFACE, (b's', b'u.v')), (R.F_MEMBER, (b's', b'U'))], [(b's', b'unknown')], e)))
        unk.append(R.encode_message(R.Msg(200, 0, 9, [], [], e)))
    c = c + unk
    small = small[:4] + unk[:2] + small[4:] + unk[2:]
    out = []
    # single messages
    for m in c:
        out.append((m, 3 if tier == 'thorough' else 2))
    # pairs
    pool = small if tier == 'quick' else c[::2]
    for a, b in itertools.product(pool, repeat=2):
        out.append((a + b, 2))
    # triples (single cuts + bytewise only, k=1; k=2 in thorough for the small pool)
    for a, b, d in itertools.product(small[:4], repeat=3):
        out.append((a + b + d, 2 if tier == 'thorough' else 1))
    # valid prefix + invalid + trailing bytes
    for a in small[:3]:
        for bad in inv:
            for trail in (b'', b'\0', b'l\1\0\1' + b'\0' * 12):
                out.append((a + bad + trail, 2 if tier == 'thorough' else 1))
    for bad in inv:
        out.append((bad, 2))
        out.append((bad + small[0], 2 if tier == 'thorough' else 1))
    return out


def ref_trace(data):
    msgs, status = R.split_stream(data, 0)
    t = ''.join('m:%s;' % raw.hex() for _, raw in msgs)
    if isinstance(status, tuple):
        t += 'X;'
    return t, len(msgs), status


def task_stream(t):
    data_hex, k = t
    data = bytes.fromhex(data_hex)
    h = worker_harness('vbox')
    out = []
    runs = 0
    for hint in (0, 1):
        case = {'stream': data_hex, 'k': k, 'hint': hint}
        try:
            r = h.cmd('LOADERCUTS %s %d %d' % (data_hex, k, hint), timeout=900)
        except HarnessDied as e:
            out.append(crash_violation(e, case))
            continue
        kv = parse_kv(r)
        runs += int(kv['runs'])
        if int(kv['mismatches']):
            out.append(Violation('chunking-changes-result', 'loader', 'partition %s (hint=%d) of a %d-byte stream gives a different message sequence than the unsplit run (%s mismatching partitions)' %
                                 (kv['first'], hint, len(data), kv['mismatches']), dict(case, cuts=kv['first'])))
        want, n, status = ref_trace(data)
        got = kv.get('ref', '')
        if got != want:
            out.append(Violation('unsplit-differs-from-reference', 'loader', 'unsplit loader run differs from the reference splitter\n impl: %s\n ref : %s (%s)' % (got[:300], want[:300], status), case))
    return {'viol': [v.to_json() for v in out], 'runs': runs, 'n': 1, 'kind': 'loader'}


# ---- transport -------------------------------------------------------------

GUID_RE = re.compile(rb'OK [0-9a-f]{32}')


def transport_stream():
    hello = R.encode_message(R.bus_call(1, 'Hello'))
    getid = R.encode_message(R.bus_call(2, 'GetId'))
    names = R.encode_message(R.bus_call(3, 'ListNames'))
    hs = b'\0AUTH EXTERNAL 30\r\nNEGOTIATE_UNIX_FD\r\nBEGIN\r\n'
    return hs, hello + getid + names


def run_transport(bus, cuts, cfg):
    hs, msgs = transport_stream()
    data = hs + msgs
    bus.reset(cfg)
    c = bus.rawconnect(0)
    got = b''
    eof = False
    pos = 0
    for cut in list(cuts) + [len(data)]:
        if cut <= pos:
            continue
        o = bus.step(c, data[pos:cut], raw=True)
        pos = cut
        if c in o:
            got += o[c].raw
            eof = eof or o[c].eof
    got = GUID_RE.sub(b'OK <guid>', got)
    # the bus id returned by GetId is random too
    return got, eof


def normalise_transport(got):
    """Split into handshake text and messages; blank the GetId payload."""
    idx = got.find(b'AGREE_UNIX_FD\r\n')
    if idx < 0:
        return ('nohandshake', got)
    hs = got[:idx + 15]
    rest = got[idx + 15:]
    msgs, status = R.split_stream(rest, 0)
    canon = []
    for m, _ in msgs:
        s = R.canon_msg(m)
        if m.signature == b's' and m.reply_serial == 2:
            s = re.sub(r'body=\[s:[0-9a-f]+\]', 'body=[s:<id>]', s)
        canon.append(s)
    return (hs, tuple(canon), status if isinstance(status, str) else status[0])


def task_transport(cutsets):
    bus = worker_bus()
    cfg = B.make_config()
    out = []
    n = 0
    try:
        ref, refeof = run_transport(bus, [], cfg)
        nref = normalise_transport(ref)
        if len(nref) != 3 or len(nref[1]) < 4:
            out.append(Violation('transport-baseline', 'unsplit', 'unsplit pipelined handshake+messages did not produce the expected replies: %r' % (nref,), {'cuts': []}))
            return {'viol': [v.to_json() for v in out], 'runs': 1, 'n': 1, 'kind': 'transport'}
        for cuts in cutsets:
            got, eof = run_transport(bus, cuts, cfg)
            n += 1
            ng = normalise_transport(got)
            if ng != nref or eof != refeof:
                out.append(Violation('chunking-changes-result', 'transport', 'writing the handshake+messages with cuts %s changes what the bus answers\n split  : %r\n unsplit: %r' % (cuts, ng, nref), {'cuts': list(cuts)}))
    except HarnessDied as e:
        out.append(crash_violation(e, {'cutsets': [list(c) for c in cutsets][:20]}))
        bus.h.close()
    return {'viol': [v.to_json() for v in out[:5]], 'runs': n, 'n': n, 'kind': 'transport'}


# ---- libdbus as the server end, driven by blocking iterations or by watches ----------------

def server_streams():
    """(name, handshake, [messages]) — one short stream and one that leaves more than one 2048-byte read behind BEGIN."""
    hs = b'\0AUTH EXTERNAL 30\r\nNEGOTIATE_UNIX_FD\r\nBEGIN\r\n'
    short = [R.encode_message(R.signal(1, '/a', 'a.b', 'S0', [R.S('x')])),
             R.encode_message(R.method_call(2, None, '/a', 'a.b', 'M', [R.U(7), R.S('yy')], endian='B')),
             R.encode_message(R.signal(3, '/a', 'a.b', 'S2', []))]
    long_ = [R.encode_message(R.signal(i + 1, '/a', 'a.b', 'L%d' % i, [R.S('p' * (40 + i))])) for i in range(40)]
    huge = [R.encode_message(R.signal(i + 1, '/a', 'a.b', 'H%d' % i, [R.S('q' * (60 + i % 7))]) if i % 5 else R.method_call(i + 1, None, '/a', 'a.b', 'C%d' % i, [R.S('q' * 50)]))
            for i in range(120)]
    return [('short', hs, short), ('long', hs, long_), ('huge', hs, huge)]


def server_expected(msgs):
    out = []
    for raw in msgs:
        m = R.decode_message(raw)
        out.append((m.mtype, (m.member or b'-').decode(), m.serial))
    return out


def task_server(t):
    """t = (stream name, mode, list of cut tuples)"""
    name, mode, cutsets = t
    h = worker_harness('vserve')
    out = []
    n = 0
    st = [x for x in server_streams() if x[0] == name][0]
    data = st[1] + b''.join(st[2])
    want = server_expected(st[2])
    from ..vbox import RUN_ROOT
    try:
        for cuts in cutsets:
            r = h.cmd('SERVE %s %s' % (mode, RUN_ROOT))
            if not r.startswith('OK accepted=1'):
                out.append(Violation('server-setup', mode, 'SERVE answered %r' % r, {'server': [name, mode, list(cuts)]}))
                break
            pos = 0
            # a first element of -1: the writer closes its end right after the last write, before the server side has run
            closing = bool(cuts) and cuts[0] == -1
            pts = [c for c in cuts if c >= 0] + [len(data)]
            for j, c in enumerate(pts):
                h.cmd(('WCLOSE ' if closing and j == len(pts) - 1 else 'W ') + (data[pos:c].hex() or '-'))
                pos = c
            r = h.cmd('LOG')
            n += 1
            log = r.split('log=', 1)[1] if 'log=' in r else ''
            got = []
            for item in log.strip(';').split(';'):
                if item and item != '-' and item != 'DISCONNECTED':
                    f = item.split(':')
                    got.append((int(f[0]), f[1], int(f[2])))
            connected = ' connected=1 ' in r or closing
            if got != want or not connected:
                out.append(Violation('chunking-changes-result', 'server-' + mode,
                                     'libdbus as server (%s), stream %r written with cuts %s: received %d of %d messages%s; first difference at index %d' %
                                     (mode, name, list(cuts)[:12], len(got), len(want), '' if connected else ', connection closed as corrupt',
                                      next((i for i, (a, b) in enumerate(zip(got + [None] * len(want), want)) if a != b), -1)), {'server': [name, mode, list(cuts)]}))
        h.cmd('END')
    except HarnessDied as e:
        out.append(crash_violation(e, {'server': [name, mode, [list(c) for c in cutsets][:1][0] if cutsets else []]}))
        h.close()
    return {'viol': [v.to_json() for v in out[:4]], 'runs': n, 'n': n, 'kind': 'server'}


def _dispatch(t):
    fn, arg = t
    return fn(arg)


def run(ctx):
    tasks = [(task_stream, (s.hex(), k)) for s, k in streams(ctx.tier)]
    hs, msgs = transport_stream()
    L = len(hs) + len(msgs)
    singles = [(a,) for a in range(1, L)]
    lo, hi = len(hs) - 8, len(hs) + 24
    doubles = [(a, b) for a in range(max(1, lo), hi) for b in range(a + 1, hi + 8)]
    if ctx.tier == 'thorough':
        doubles = [(a, b) for a in range(1, L) for b in range(a + 1, L)]
    bytewise = [tuple(range(1, L))]
    after = [tuple([a] + list(range(a + 1, L))) for a in range(1, L, 7)]
    cutsets = singles + doubles + bytewise + after
    for i in range(0, len(cutsets), 60):
        tasks.append((task_transport, cutsets[i:i + 60]))
    # libdbus as server: every single cut of both streams, double cuts around BEGIN and around the 2048-byte read
    # boundaries behind it, one cut followed by byte-at-a-time; blocking-iteration and watch-driven
    server_runs_planned = 0
    for name, hs_, msgs_ in server_streams():
        Ls = len(hs_) + sum(len(x) for x in msgs_)
        if name == 'huge':
            # the writer writes (in one piece, or the handshake first and the rest after it, or with one more cut at a read
            # boundary) and closes at once: the reader finds more than two reads' worth of data together with the hang-up
            # (the handshake is always completed first: a peer that has gone before the server could WRITE its side of the
            # handshake legitimately gets nowhere -- that is a write failure, not a question of how reads are split)
            cs = [(-1, len(hs_))] + [(-1, len(hs_), len(hs_) + k) for k in (1, 2047, 2048, 2049, 4096, 4097, 8192)] + [(), (len(hs_),)]
            for mode in ('rwd', 'watch'):
                server_runs_planned += len(cs)
                tasks.append((task_server, (name, mode, cs)))
            continue
        cs = [()] + [(a,) for a in range(1, Ls)]
        near = sorted(set(range(max(1, len(hs_) - 6), len(hs_) + 10)) | set(len(hs_) + k + d for k in (2048, 4096) for d in range(-12, 4) if 0 < len(hs_) + k + d < Ls))
        cs += [(a, b) for a in near for b in near if a < b]
        if name == 'short' or ctx.tier == 'thorough':
            cs += [tuple(range(1, Ls))]
            cs += [tuple([a] + list(range(a + 1, Ls))) for a in range(1, min(Ls, 80), 5)]
        for mode in ('rwd', 'watch'):
            server_runs_planned += len(cs)
            for i in range(0, len(cs), 400):
                tasks.append((task_server, (name, mode, cs[i:i + 400])))
    pool = Pool()
    server_runs = 0
    loader_runs = 0
    transport_runs = 0
    nstreams = 0
    done = 0
    try:
        for r in pool.imap(_dispatch, tasks):
            done += 1
            if '__crash__' in r:
                ctx.add_violation(Violation('crash', r['__crash__'], r['stderr'], {'task': r['task']}))
                continue
            ctx.add_violations(r['viol'])
            if r['kind'] == 'loader':
                loader_runs += r['runs']
                nstreams += 1
            elif r['kind'] == 'server':
                server_runs += r['runs']
            else:
                transport_runs += r['runs']
            if ctx.expired():
                ctx.incomplete('deadline hit after %d of %d tasks' % (done, len(tasks)))
                pool.cancel()
                break
    finally:
        pool.close()
    # read-size hint on a real socket: a descriptor-carrying message arriving in two writes with another one queued
    # behind it (scenario family shared with C15)
    from . import c15
    pscn = list(c15.pipelined_scenarios(ctx.tier))
    pool = Pool()
    npl = 0
    try:
        for r in pool.imap(c15.task_pipelined, [pscn[i:i + 3] for i in range(0, len(pscn), 3)]):
            if '__crash__' in r:
                ctx.add_violation(Violation('crash', r['__crash__'], r['stderr'], {'task': r['task']}))
                continue
            for v in r['viol']:
                v = Violation.from_json(v)
                v.clause = 'chunking-changes-result'
                v.reason = 'fd-read-hint'
                ctx.add_violation(v)
            npl += r['n']
    finally:
        pool.close()
    ctx.hit('pipelined-fd-scenarios', npl)
    ctx.hit('loader-partitions', loader_runs)
    ctx.hit('transport-partitions', transport_runs)
    ctx.hit('server-side-partitions', server_runs)
    ctx.coverage.update({
        'states': nstreams + 1,
        'transitions': loader_runs + transport_runs + server_runs,
        'traces_validated_against_impl': loader_runs + transport_runs + server_runs,
        'streams': nstreams, 'loader_schedules': loader_runs, 'transport_schedules': transport_runs, 'server_side_schedules': server_runs,
        'bound': 'loader: every partition with <= k cuts (k per stream: 1..3) + byte-at-a-time + one-cut-then-byte-at-a-time, each with and without honouring the max_to_read hint; '
                 'transport: every single cut of the %d-byte pipelined handshake+3 messages, %s double cuts, byte-at-a-time; '
                 'libdbus as server (blocking iterations and watch-driven): every single cut of a 3-message and a 40-message (5 KB) stream, double cuts around BEGIN and the 2048-byte read boundaries' % (L, 'all' if ctx.tier == 'thorough' else 'all around the BEGIN boundary'),
        'tasks': len(tasks), 'tasks_done': done,
    })
    ctx.samples = [{'stream': 'call(le) + signal(be, 7-byte body)', 'partition': [17, 93]}, {'transport_cuts': [len(hs) - 1, len(hs) + 3]}]
    ctx.assumptions = ['every schedule is a real execution of the loader/transport: traces_validated_against_impl equals the schedules run', 'pyv/refdbus.split_stream is the reference for the unsplit run']
    ctx.replay_fn = replay


def replay(case):
    if 'stream' in case:
        r = task_stream((case['stream'], case['k']))
        return [Violation.from_json(v) for v in r['viol']]
    if 'pipelined' in case:
        from . import c15
        r = c15.task_pipelined([case])
        out = []
        for v in r['viol']:
            v = Violation.from_json(v)
            v.clause, v.reason = 'chunking-changes-result', 'fd-read-hint'
            out.append(v)
        return out
    if 'server' in case:
        name, mode, cuts = case['server']
        r = task_server((name, mode, [tuple(cuts)]))
        return [Violation.from_json(v) for v in r['viol']]
    if 'cuts' in case:
        r = task_transport([tuple(case['cuts'])])
        return [Violation.from_json(v) for v in r['viol']]
    if 'cutsets' in case:
        r = task_transport([tuple(c) for c in case['cutsets']])
        return [Violation.from_json(v) for v in r['viol']]
    return []
