"""C17 — every call awaiting a reply completes exactly once.

(a) BFS over single-threaded event orders on a real private DBusConnection
    (harness/vconn): send_with_reply with short/long/infinite timeouts, peer
    replies/errors/duplicates/unknown serials (delivered at once or queued so
    that they are first seen by a blocking wait), peer close, virtual-clock
    advance, cancel, block.  Model: each call is pending -> exactly one of
    {replied with its own serial, timed out, disconnected} or cancelled
    (never notified).
(b) all schedules of 2-3 threads with a bounded number of preemptions under a
    cooperative scheduler (harness/vsched), and
(c) a free-running ThreadSanitizer pass of the same thread bodies
    -- see run_threads()."""
import os
import re
import subprocess
import json

from .. import refdbus as R
from .. import explore
from ..engine import Violation, worker_harness, Pool, crash_violation, known_fingerprints
from ..vbox import HarnessDied, Harness, parse_kv, harness_path, ASAN_ENV
from ..registry import claim

TREES = ['asan', 'tsan']

claim('C17', 'model_checking',
      'explicit-state BFS over single-threaded event orders plus exhaustive preemption-bounded schedule enumeration of real threads on a real DBusConnection, judged by a per-call completion model; ThreadSanitizer free-run as a side condition',
      '(a) Histories of send_with_reply (3 timeout classes), peer reply/error/duplicate/unknown-serial (immediate or queued behind a blocking wait), peer close, clock advance, cancel and block over up to 3 calls '
      'are explored breadth-first on the real connection with a virtual clock; after every event the completed flag, the notify count and the stolen reply of every call must match the model (exactly-once, own serial, cancelled never notified); '
      'serials must be non-zero and distinct, also across the seeded 32-bit wrap. (b) Two or three real threads (send+block, dispatch loop, cancel, close) plus the scripted peer are run under a cooperative scheduler hooked into every '
      'mutex/condvar/poll operation; every schedule with at most k preemptions/environment deviations is executed and judged by the same model, with deadlock and livelock detection. (c) The same bodies run free under TSan. Peer replies may carry the serial number of another outstanding call; thread configurations also run with infinite timeouts, where a wait that misses its queued reply is a dead-lock. The peer may close unnoticed: reading the end-of-stream without dispatching, timers and dispatch are then separate operations.',
      'Scheduling points are the synchronisation operations (hook H3); unsynchronised accesses are only caught by the TSan pass, which is not exhaustive. Memory orderings weaker than SC are not modelled. More than 3 calls / 3 threads and larger preemption bounds are not covered.',
      'DESIGN.md section 4 C17')

FACTORY = 'pyv.checks.c17:Session'
INFINITE = 0x7fffffff
TIMEOUTS = {'short': 1000, 'long': 5000, 'inf': INFINITE}
NCALLS = 3
LOCAL_ERRORS = ('org.freedesktop.DBus.Error.NoReply', 'org.freedesktop.DBus.Error.Disconnected', 'org.freedesktop.DBus.Error.Timeout')


class Session:
    def __init__(self, params):
        self.params = params
        self.h = worker_harness('vconn')
        if self.h.proc is not None:
            self.h.restart()
        r = self.h.cmd('OPEN')
        if not r.startswith('OK'):
            raise RuntimeError('vconn OPEN failed: ' + r)
        self.calls = {}        # i -> dict(state, serial, deadline, outcome)
        self.time = 0
        self.queued = []       # peer messages written but not yet read by the connection: (i or None, kind)
        self.readq = []        # the subset of self.queued that has been read into the incoming queue (not dispatched yet)
        self.connected = True
        self.peer_serial = 500
        self.hits = {}
        self.ncalls = params.get('ncalls', NCALLS)
        if params.get('seed'):
            self.h.cmd('SEED %d' % params['seed'])

    def hit(self, k):
        self.hits[k] = self.hits.get(k, 0) + 1

    def ops(self):
        ops = []
        if getattr(self, 'closing', False):
            # the peer has closed its end; the library has not dispatched the disconnection yet
            # reading the end-of-stream WITHOUT dispatching only differs from dispatching when something is still queued ahead
            # of it (with an empty queue the library runs its disconnect handling straight away -- the recorded finding's zone)
            if not self.eof_read and self.queued:
                ops.append(['rw'])
            return ops + [['advance', 1500], ['advance', 6000], ['pump']]
        if self.connected:
            for i in range(self.ncalls):
                if i not in self.calls:
                    if i == 0 or (i - 1) in self.calls:
                        for t in ('short', 'long', 'inf'):
                            ops.append(['call', i, t])
            for i in self.calls:
                for k in ('reply', 'error'):
                    ops.append(['peer', i, k])
                # a SIGNAL that carries the call's serial as REPLY_SERIAL (legal on the wire).  libdbus pairs messages with
                # calls by that field alone, so it is the call's reply: the call completes with it, once - what must not
                # happen is a half-way treatment (time-out removed, call never completed)
                ops.append(['peer', i, 'sigserial'])
                ops.append(['peerq', i, 'reply'])
                # the peer numbers its messages independently: its reply to call i may itself carry the serial number of
                # another call that is still outstanding here
                for j, cj in self.calls.items():
                    if j != i and cj['state'] == 'pending':
                        ops.append(['peer', i, 'reply', j])
            ops.append(['peer', -1, 'reply'])
            if not any(q == (-1, 'bigsig') for q in self.queued):
                # a 9 KB unrelated signal written (unread) ahead of later replies: a blocking wait then wakes up at least
                # once without its reply (the transport reads at most about 4 KB per iteration)
                ops.append(['peerq', -1, 'bigsig'])
            ops.append(['close'])
            ops.append(['closeq'])      # the peer closes; nothing on this side runs yet (then: read without dispatching, timers, dispatch)
        ops.append(['advance', 1500])
        ops.append(['advance', 6000])
        if self.queued:
            ops.append(['pump'])
            if not all(q in self.readq for q in self.queued):
                ops.append(['rw'])          # read what the peer wrote into the incoming queue WITHOUT dispatching it
        for i, c in self.calls.items():
            if c['state'] == 'pending':
                ops.append(['cancel', i])
            # a blocking wait is only issued when it is guaranteed to return: finite timeout, queued reply, or closed connection
            if c['state'] in ('pending',) and (c['timeout'] != INFINITE or any(q[0] == i for q in self.queued) or not self.connected):
                ops.append(['block', i])
            if c['state'] == 'done' or (c['state'] == 'cancelled' and c['timeout'] != INFINITE):
                ops.append(['block', i])
            if c['state'] == 'orphaned':
                ops.append(['block', i])
        return ops

    # ---- model helpers ---------------------------------------------------------
    def complete(self, i, outcome):
        c = self.calls[i]
        if c['state'] == 'pending':
            c['state'] = 'done'
            c['outcome'] = outcome
            self.hit('complete-' + outcome[0])

    def process_queue(self):
        for i, kind in self.queued:
            if i in self.calls and self.calls[i]['state'] == 'pending':
                self.complete(i, ('reply', kind))
            else:
                self.hit('stray-reply')
        self.queued = []
        self.readq = []

    def expire(self):
        for i, c in self.calls.items():
            if c['state'] == 'pending' and c['timeout'] != INFINITE and c['deadline'] <= self.time:
                if any(q[0] == i for q in self.readq):
                    continue       # its reply is already in the incoming queue: the timeout was removed when it arrived
                self.complete(i, ('timeout', None))

    def peer_msg(self, i, kind, own=None):
        self.peer_serial += 1
        rs = self.calls[i]['serial'] if i in self.calls else 99999
        if own is not None:
            return R.encode_message(R.method_return(own, rs, None, [R.U(1)])).hex()
        if kind == 'bigsig':
            m = R.signal(self.peer_serial, '/s', 's.s', 'Big', [R.S('b' * 9000)])
        elif kind == 'reply':
            m = R.method_return(self.peer_serial, rs, None, [R.U(1)])
        elif kind == 'sigserial':
            m = R.signal(self.peer_serial, '/s', 's.s', 'WithSerial', [R.U(1)])
            m.fields.append((R.F_REPLY_SERIAL, (b'u', rs)))
        else:
            m = R.error(self.peer_serial, rs, 'peer.Err', None, [R.S('e')])
        return R.encode_message(m).hex()

    # ---- judge -------------------------------------------------------------------
    def judge(self, resp, out, opdesc):
        if resp.startswith('HANG') or not resp:
            out.append(Violation('hang', 'block', '%s: the connection blocked forever' % opdesc, None))
            return
        mo = re.search(r' cdump=(\S+)', resp)
        self.cdump = mo.group(1) if mo else ''
        if mo:
            # the connection's own table of outstanding calls must hold exactly the calls the model still considers
            # outstanding (a completed or cancelled call that stays in the table can be completed a second time)
            tab = set(int(x.split(':')[0]) for x in re.search(r'pending=\[([^\]]*)\]', self.cdump).group(1).split(',') if x)
            for i, c in self.calls.items():
                if c['state'] == 'pending' and self.connected and c['serial'] not in tab:
                    out.append(Violation('pending-table-differs', 'missing', '%s: call %d (serial %d) is outstanding but not in the connection\'s pending table %r' % (opdesc, i, c['serial'], sorted(tab)), None))
                if c['state'] in ('done', 'cancelled') and c['serial'] in tab:
                    out.append(Violation('pending-table-differs', 'stale', '%s: call %d (serial %d, %s) is still in the connection\'s pending table' % (opdesc, i, c['serial'], c['state']), None))
        got = {}
        for mo in re.finditer(r'pc(\d+)=(\d+)/(\d+)/(\S+)', resp):
            got[int(mo.group(1))] = (int(mo.group(2)), int(mo.group(3)), mo.group(4))
        for i, c in self.calls.items():
            g = got.get(i)
            if g is None:
                out.append(Violation('observation-missing', 'call', '%s: no state for call %d in %r' % (opdesc, i, resp[:200]), None))
                continue
            completed, notified, result = g
            if c['state'] in ('pending', 'orphaned'):
                if completed or notified:
                    out.append(Violation('completed-early', 'pending', '%s: call %d is pending in the model but completed=%d notified=%d result=%s' % (opdesc, i, completed, notified, result), None))
            elif c['state'] == 'cancelled':
                if notified:
                    # the recorded finding is specifically a blocking wait ON the cancelled call; a notification reaching a
                    # cancelled call by any other path (late reply dispatched, timeout fired, disconnect) is a different defect
                    how = 'block-after-cancel' if opdesc.startswith("['block', %d" % i) else 'other-path'
                    out.append(Violation('cancelled-call-notified', how, '%s: cancelled call %d was notified %d times' % (opdesc, i, notified), None))
            else:
                if not completed:
                    out.append(Violation('not-completed', c['outcome'][0], '%s: call %d should be complete (%r) but is not (notified=%d)' % (opdesc, i, c['outcome'], notified), None))
                    continue
                if notified != 1:
                    out.append(Violation('notify-count', c['outcome'][0], '%s: call %d notified %d times' % (opdesc, i, notified), None))
                kv = dict(t.split('=', 1) for t in result.split(',') if '=' in t)
                if kv.get('rserial') != str(c['serial']):
                    out.append(Violation('wrong-reply-paired', c['outcome'][0], '%s: call %d (serial %d) completed with %s' % (opdesc, i, c['serial'], result), None))
                kind = c['outcome']
                if kind[0] == 'reply':
                    want_type = {'reply': '2', 'sigserial': '4'}.get(kind[1], '3')
                    if kv.get('type') != want_type or (kind[1] == 'error' and kv.get('err') != 'peer.Err'):
                        out.append(Violation('wrong-reply-paired', 'content', '%s: call %d completed with %s, expected the peer\'s %s' % (opdesc, i, result, kind[1]), None))
                else:
                    if kv.get('type') != '3' or kv.get('err') not in LOCAL_ERRORS:
                        out.append(Violation('wrong-local-error', kind[0], '%s: call %d completed with %s, expected a local error' % (opdesc, i, result), None))

    def apply(self, op):
        out = []
        kind = op[0]
        desc = repr(op)
        if kind == 'call':
            i, t = op[1], op[2]
            r = self.h.cmd('CALL %d %d' % (i, TIMEOUTS[t]))
            kv = parse_kv(r)
            if not r.startswith('OK') or 'pending' in kv:
                out.append(Violation('send-failed', 'send_with_reply', '%s answered %r' % (desc, r), None))
                return out
            s = int(kv['serial'])
            if s == 0 or any(c['serial'] == s for c in self.calls.values()):
                out.append(Violation('serial', 'zero-or-reused', '%s got serial %d; earlier serials %r' % (desc, s, [c['serial'] for c in self.calls.values()]), None))
            self.calls[i] = {'state': 'pending', 'serial': s, 'timeout': TIMEOUTS[t], 'deadline': self.time + TIMEOUTS[t], 'outcome': None}
            self.hit('call-' + t)
            self.process_queue()
            resp = self.h.cmd('PUMP')
        elif kind == 'peer' and op[2] == 'sigserial':
            # Two behaviours satisfy the property: the library takes the signal for the call's reply (what it does: calls
            # are paired by REPLY_SERIAL alone) and completes the call with it, once; or it ignores the field on a
            # non-reply and the call stays outstanding WITH its time-out.  The model follows whichever the implementation
            # shows; what is excluded is the half-way state (neither completed nor able to time out), which the table
            # invariant and the later clock advances expose.
            i = op[1]
            self.process_queue()
            resp = self.h.cmd('PEER ' + self.peer_msg(i, 'sigserial'))
            mo = re.search(r'pc%d=(\d+)/' % i, resp)
            if mo and mo.group(1) == '1' and i in self.calls and self.calls[i]['state'] == 'pending':
                self.complete(i, ('reply', 'sigserial'))
            self.hit('signal-with-the-calls-serial')
        elif kind == 'peer':
            i, k = op[1], op[2]
            self.queued.append((i, k))
            self.process_queue()
            if len(op) > 3:
                self.hit('reply-numbered-like-another-outstanding-call')
            resp = self.h.cmd('PEER ' + self.peer_msg(i, k, self.calls[op[3]]['serial'] if len(op) > 3 else None))
        elif kind == 'peerq':
            i, k = op[1], op[2]
            hx = self.peer_msg(i, k)
            self.queued.append((i, k))
            self.h.cmd('PEERQ ' + hx)
            resp = self.h.cmd('STATE')
            self.hit('queued-reply')
        elif kind == 'closeq':
            self.closing = True
            self.eof_read = False
            self.hit('peer-closes-unnoticed')
            resp = self.h.cmd('PEERCLOSE nopump')
        elif kind in ('close', 'pump', 'advance') and (kind == 'close' or getattr(self, 'closing', False)):
            if kind == 'advance':
                self.time += op[1]
                self.expire()           # due timers fire first -- also while the transport is already gone but messages are undispatched
                if getattr(self, 'eof_read', False):
                    self.hit('timer-fires-between-eof-and-dispatch')
            self.process_queue()
            self.connected = False
            self.closing = False
            self.eof_read = False
            resp = self.h.cmd('PEERCLOSE' if kind == 'close' else ('PUMP' if kind == 'pump' else 'ADVANCE %d' % op[1]))
            pend = [i for i in self.calls if self.calls[i]['state'] == 'pending']
            for i in pend:
                self.complete(i, ('disconnect', None))
            vs = []
            self.judge(resp, vs, desc)
            if vs and all(v.fingerprint == 'not-completed/disconnect' for v in vs) and 'not-completed/disconnect' in known_fingerprints('C17'):
                # recorded finding: dispatching after a disconnect does not complete pending calls (their synthesized error is
                # handed to filters instead).  Re-synchronise: they stay incomplete until somebody blocks on them.
                for v in vs:
                    v.resynced = True
                for i in pend:
                    self.calls[i]['state'] = 'orphaned'
                    self.calls[i]['outcome'] = None
                self.hit('resynced-after-known-finding')
            return vs
        elif kind == 'rw':
            if getattr(self, 'closing', False):
                self.eof_read = True
            self.readq = list(self.queued)
            self.hit('read-without-dispatch')
            for _ in range(4):      # one call reads at most about 4 KB; everything the peer queued must be in
                resp = self.h.cmd('RW')
        elif kind == 'pump':
            self.process_queue()
            resp = self.h.cmd('PUMP')
        elif kind == 'advance':
            self.time += op[1]
            self.expire()             # the application's main loop runs due timeouts, then reads the socket
            self.process_queue()
            resp = self.h.cmd('ADVANCE %d' % op[1])
        elif kind == 'cancel':
            i = op[1]
            if self.calls[i]['state'] == 'pending':
                self.calls[i]['state'] = 'cancelled'
                self.hit('cancel')
            resp = self.h.cmd('CANCEL %d' % i)
        elif kind == 'block':
            i = op[1]
            c = self.calls[i]
            self.hit('block-' + c['state'])
            if c['state'] == 'orphaned':
                c['state'] = 'pending'
                self.complete(i, ('disconnect', None))
            elif c['state'] == 'cancelled':
                # recorded finding: a blocking wait on a cancelled call completes and NOTIFIES it when its timeout expires
                has_reply = any(q[0] == i for q in self.queued)
                reply_kind = next((q[1] for q in self.queued if q[0] == i), None)
                self.process_queue()
                resp = self.h.cmd('BLOCK %d' % i)
                if not resp.startswith('HANG'):
                    resp = self.h.cmd('PUMP')
                vs = []
                self.judge(resp, vs, desc)
                if vs and all(v.fingerprint == 'cancelled-call-notified/block-after-cancel' for v in vs) and 'cancelled-call-notified/block-after-cancel' in known_fingerprints('C17'):
                    for v in vs:
                        v.resynced = True
                    c['state'] = 'done'
                    # (what the implementation then holds: the queued reply if there was one, else the local error)
                    c['outcome'] = ('reply', reply_kind) if has_reply else (('timeout', None) if self.connected else ('disconnect', None))
                    if self.connected and not has_reply:
                        self.time = self.time + c['timeout']
                    self.hit('resynced-after-known-finding')
                return vs
            if c['state'] == 'pending':
                has_reply = any(q[0] == i for q in self.queued)
                self.process_queue()
                if not has_reply:
                    if self.connected:
                        # dbus_pending_call_block() waits the call's whole timeout interval counted from the moment the
                        # blocking wait STARTS (start_tv in _dbus_connection_block_pending_call), not from the send
                        self.time = self.time + c['timeout']
                        self.complete(i, ('timeout', None))
                    else:
                        self.complete(i, ('disconnect', None))
            else:
                self.process_queue()
            resp = self.h.cmd('BLOCK %d' % i)
            if not resp.startswith('HANG'):
                resp = self.h.cmd('PUMP')
        else:
            raise ValueError(op)
        self.judge(resp, out, desc)
        return out

    def key(self):
        rel = []
        for i in sorted(self.calls):
            c = self.calls[i]
            rel.append((i, c['state'], c['outcome'], c['timeout'], (c['deadline'] - self.time) if c['state'] == 'pending' and c['timeout'] != INFINITE else None))
        # the implementation's own state (hook H2), with serials renamed to call indices
        cd = getattr(self, 'cdump', '')
        for i, c in self.calls.items():
            cd = re.sub(r'([\[,])%d:' % c['serial'], r'\1c%d:' % i, cd)
        return repr(rel) + repr(self.queued) + repr(self.readq) + repr((self.connected, getattr(self, 'closing', False), getattr(self, 'eof_read', False))) + cd

    def died(self):
        self.h.close()

    def close(self):
        try:
            self.h.cmd('QUIT')
        except Exception:
            pass
        self.h.close()


def wrap_scenario(ctx):
    """Six calls across the 32-bit serial wrap: serials non-zero, distinct, each reply paired with its own call."""
    h = Harness('vconn')
    try:
        h.cmd('OPEN')
        h.cmd('SEED %d' % (2 ** 32 - 3))
        serials = []
        for i in range(6):
            kv = parse_kv(h.cmd('CALL %d %d' % (i, 5000)))
            serials.append(int(kv['serial']))
        if 0 in serials or len(set(serials)) != 6:
            ctx.add_violation(Violation('serial', 'wrap', 'serials across the 32-bit wrap: %r' % serials, {'wrap': True}))
        h.cmd('PUMP')
        # answer in reverse order
        resp = ''
        for n, i in enumerate(reversed(range(6))):
            m = R.method_return(900 + n, serials[i], None, [R.U(i)])
            resp = h.cmd('PEER ' + R.encode_message(m).hex())
        for mo in re.finditer(r'pc(\d+)=(\d+)/(\d+)/(\S+)', resp):
            i = int(mo.group(1))
            if mo.group(2) != '1' or mo.group(3) != '1' or ('rserial=%d,' % serials[i]) not in mo.group(4):
                ctx.add_violation(Violation('wrong-reply-paired', 'wrap', 'call %d (serial %d) after the wrap: %s' % (i, serials[i], mo.group(0)), {'wrap': True}))
        return serials
    except HarnessDied as e:
        ctx.add_violation(crash_violation(e, {'wrap': True}))
        return None
    finally:
        h.close()


def nested_scenarios(ctx):
    """A call made and waited for from INSIDE a callback that dbus_connection_dispatch() is running - a pending call's notify
    function, a message filter, an object-path handler - with either blocking API, the reply being the first message of the
    incoming queue or queued behind an unrelated signal: the nested call completes with its own reply, not with a time-out."""
    n = 0
    for where in 'nfh':
        for mode in 'bp':
            for ahead in (0, 1, 2):
                case = {'nested': [where, mode, ahead]}
                if sum(ctx.viol_counts.values()) >= 3:
                    return                  # enough evidence; a wait that never ends costs a harness time-out each
                h = Harness('vconn', timeout=8.0)
                try:
                    h.cmd('OPEN')
                    sig = lambda k: R.encode_message(R.signal(700 + k, '/x', 'x.y', 'Ahead', [R.U(k)]))
                    tail = b''.join(sig(k) for k in range(ahead))
                    h.cmd('NEST %s %s' % (where, mode))
                    if where == 'n':
                        kv = parse_kv(h.cmd('CALL 0 5000'))
                        h.cmd('PUMP')
                        trig = R.encode_message(R.method_return(600, int(kv['serial']), None, [R.U(0)]))
                    elif where == 'f':
                        trig = R.encode_message(R.signal(600, '/x', 'x.y', 'Trigger', [R.U(0)]))
                    else:
                        h.cmd('REG /h h')
                        trig = R.encode_message(R.method_call(600, None, '/h', 'x.y', 'Poke', [], flags=1))
                    resp = h.cmd('PEER ' + (trig + tail).hex())
                    n += 1
                    mo = re.search(r'N%s%s:(\d+):(\d+):([^:;]+):(\d+);' % (where, mode), resp)
                    if not mo:
                        ctx.add_violation(Violation('nested-call', 'not-made', 'nested call from %s (%s, %d signals behind the trigger) did not run: %s' % (where, mode, ahead, resp[:300]), case))
                    elif mo.group(1) != '2' or mo.group(2) != mo.group(4) or mo.group(3) != '-':
                        ctx.add_violation(Violation('not-completed', 'nested-' + {'n': 'notify', 'f': 'filter', 'h': 'handler'}[where],
                                                    'a call made inside a %s callback (%s, its reply already written by the peer, %d other messages queued) completed with type=%s reply_serial=%s error=%s instead of its reply (serial %s)' %
                                                    ({'n': 'notify', 'f': 'filter', 'h': 'handler'}[where], {'b': 'send_with_reply_and_block', 'p': 'send_with_reply + block'}[mode], ahead, mo.group(1), mo.group(2), mo.group(3), mo.group(4)), case))
                    # the unrelated signals are still delivered, once each, afterwards
                    resp2 = h.cmd('PUMP')
                    seen = len(re.findall(r'f:4:Ahead:', resp + resp2))
                    if seen != ahead:
                        ctx.add_violation(Violation('message-lost-or-duplicated', 'nested', 'after a nested call in %s the %d signals queued with the trigger reached the filter %d times' % (where, ahead, seen), case))
                except HarnessDied as e:
                    ctx.add_violation(crash_violation(e, case))
                finally:
                    h.close()
    ctx.hit('nested-call-scenarios', n)


def run(ctx):
    quick = ctx.tier == 'quick'
    depth = 5 if quick else 7
    nested_scenarios(ctx)
    with ctx.sub_budget(0.45):      # leave at least half of the time to the thread part
        st = explore.bfs(ctx, FACTORY, {'ncalls': 2 if quick else 3}, max_depth=depth, ops_chunk=8)
    serials = wrap_scenario(ctx)
    thr = run_threads(ctx)
    ctx.coverage.update({
        'states': st['states'] + thr.get('schedules', 0), 'transitions': st['transitions'] + thr.get('steps', 0),
        'traces_validated_against_impl': st['transitions'] + thr.get('schedules', 0),
        'single_thread': {'states': st['states'], 'transitions': st['transitions'], 'completed_depth': st['completed_depth'], 'fixpoint': st['fixpoint']},
        'serial_wrap_scenario': serials, 'threads': thr,
        'bound': '(a) %d calls x 3 timeout classes, BFS depth %d; (b) see threads' % (2 if quick else 3, depth),
    })
    ctx.assumptions = ['virtual clock (H1) and poll/lock scheduling points (H3) are the only sources of time and blocking in the connection code',
                       'the TSan pass found no race in the free-running bodies (otherwise the check fails)']
    ctx.replay_fn = replay


def run_threads(ctx):
    """Parts (b) and (c); implemented in c17_threads (kept separate because it drives a different harness)."""
    try:
        from . import c17_threads
    except ImportError:
        return {'note': 'thread part not built'}
    return c17_threads.run(ctx)


def replay(case):
    if case.get('nested'):
        from ..engine import Ctx
        c = Ctx('C17', 'quick', 'model_checking')
        nested_scenarios(c)
        return [v for vs in c.violations.values() for v in vs]
    if case.get('wrap'):
        from ..engine import Ctx
        c = Ctx('C17', 'quick', 'model_checking')
        wrap_scenario(c)
        return [v for vs in c.violations.values() for v in vs]
    if 'schedule' in case:
        from . import c17_threads
        return c17_threads.replay(case)
    return explore.replay_history(FACTORY, case['params'], case['history'])
