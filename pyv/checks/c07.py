"""C07 — broadcasts reach exactly the connections whose match rules match.

Three exhaustive parts, all on the real in-process bus:
  parser   every rule string that is a concatenation of <= k lexical pieces, plus templated and boundary rules:
           AddMatch accepts iff the specification grammar accepts; RemoveMatch of the same text then succeeds
  matcher  every rule of a pool (and every pair of rules on one holder) x every probe message:
           delivered exactly once iff some rule matches per the specification
  history  BFS over AddMatch/RemoveMatch/disconnect/reconnect histories of two holders with a pool of rules that
           differ pairwise in ONE key's value, probes after every transition, rule multiset compared with the
           implementation's own dump."""
import itertools
from collections import Counter

from .. import refdbus as R
from .. import busbox as B
from .. import explore
from ..engine import Pool, Violation, worker_bus, crash_violation, known_fingerprints
from ..vbox import HarnessDied
from ..session import BusSession
from ..models import matchrules as M
from ..registry import claim

claim('C07', 'model_checking',
      'exhaustive enumeration of rule strings and rule x message products plus explicit-state BFS over rule-set histories on the real bus, judged by a transcription of the specification\'s match-rule grammar and semantics',
      'AddMatch is given every concatenation of <= k lexical pieces (keys, misspelt keys, =, comma, quote, backslash, valid/invalid values) and templated/boundary rules; every pool rule and every pair '
      'of rules is crossed with every probe message (all keys, absent fields, prefix/extension values, non-string and missing arguments, unicast with and without eavesdrop); AddMatch/RemoveMatch/disconnect '
      'histories are explored breadth-first with the implementation\'s rule dump in the state key. Delivery must be exactly-once iff a held rule matches per the specification; sanitizers must stay silent. Further parts: quoting semantics (the denoted value must be what is matched), rules naming prefix-related unique names across disconnects, and fan-out scenarios in which a recipient the bus must skip (no descriptor passing, receive policy) sits at every position among three holders.',
      'Trusts pyv/models/matchrules.py. Rule strings longer than k pieces other than the templated ones, and more than two holders, are not covered. Forms the specification leaves open '
      '(whitespace outside quotes, empty items, duplicate keys) are counted as unspecified and not judged.',
      'DESIGN.md section 4 C07')

FACTORY = 'pyv.checks.c07:HistSession'

PIECES = [b'type', b'sender', b'interface', b'member', b'path', b'path_namespace', b'destination', b'eavesdrop',
          b'arg0', b'arg63', b'arg64', b'arg0path', b'arg1namespace', b'arg0namespace', b'typ', b'argx', b'arg',
          b'=', b',', b"'", b'\\', b"\\'", b' ',
          b'signal', b'a.b', b'M', b'/a', b':1.5', b'true', b'x', b'1a', b'/a/', b'']


def piece_rules(k):
    seen = set()
    for n in range(1, k + 1):
        for t in itertools.product(PIECES[:-1], repeat=n):
            s = b''.join(t)
            if s not in seen:
                seen.add(s)
                yield s


def templated_rules():
    items = [b"type='signal'", b"sender='a.b'", b"interface='a.b'", b"member='M'", b"path='/a'", b"path_namespace='/a'",
             b"destination=':1.5'", b"arg0='x'", b"arg3path='/a/'", b"arg0namespace='a.b'", b"eavesdrop='true'"]
    out = []
    for a, b_ in itertools.permutations(items, 2):
        out.append(a + b',' + b_)
    for a, b_, c in itertools.permutations(items[:7], 3):
        out.append(a + b',' + b_ + b',' + c)
    # quoting forms of the specification's examples applied to argN
    quoted = [b"''\\'''", b"'\\'", b"','", b"'\\\\'", b"\\'", b"\\", b"\\\\", b"'a'b", b"a'b'", b"'a''b'", b"a\\'b", b"'a\\'", b"''", b"'", b"\\'\\'",
              b"a\\", b"a\\b", b"'a,b'", b"a,b", b"'a=b'", b"a=b"]
    for q in quoted:
        out.append(b"arg0=" + q)
        out.append(b"arg0=" + q + b",arg1='z'")
        out.append(b"member=" + q)
    # boundaries
    for n in (1023, 1024, 1025, 1100):
        base = b"arg0='"
        out.append(base + b'x' * (n - len(base) - 1) + b"'")
    for nk in (15, 16, 17, 18, 40, 64, 65, 70):
        out.append(b','.join(b"arg%d='v%d'" % (i, i) for i in range(nk)))
    out.append(b"type='signal',type='signal'")
    out.append(b"arg0='x',arg0='y'")
    out.append(b"arg0='x',arg0path='/y'")
    out.append(b"path='/a',path_namespace='/a'")
    out.append(b"arg00='x'")
    out.append(b"arg063='x'")
    out.append(b"arg-1='x'")
    out.append(b"arg4294967296='x'")
    out.append(b"arg99999999999999999999='x'")
    for v in (b'', b'a', b'a.b', b'a.', b'.a', b'a..b', b'1a', b':1', b':1.2', b'a-b', b'a b'):
        out.append(b"arg0namespace='" + v + b"'")
    for v in (b'', b'/', b'/a', b'/a/', b'a', b'//'):
        out.append(b"arg0path='" + v + b"'")
        out.append(b"path_namespace='" + v + b"'")
    out.append(b"arg0='\xff'")
    out.append(b"member='\xc3\xa9'")
    return out


def task_parser(rules):
    bus = worker_bus()
    out, hits = [], {}
    n = 0
    i = 0
    try:
        bus.reset(B.make_config())
        c = bus.connect(0)
        bus.hello(c)
        for i, rule in enumerate(rules):
            verdict = M.parse(rule)
            case = {'part': 'parser', 'rule': rule.hex()}
            hits['parse:' + verdict[0]] = hits.get('parse:' + verdict[0], 0) + 1
            if verdict[0] == 'invalid':
                hits['reason:' + verdict[1]] = hits.get('reason:' + verdict[1], 0) + 1
            if not M.G.valid_utf8(rule):
                continue      # not a valid STRING: the message itself would be invalid (C10)
            ser, o = bus.bus_method(c, 'AddMatch', [R.S(rule)])
            rep = B.find_reply(o.get(c), ser)
            n += 1
            if rep is None:
                out.append(Violation('no-reply', 'AddMatch', 'no reply to AddMatch(%r)' % rule, case))
                break
            accepted = rep.mtype == R.MT_RETURN
            if verdict[0] == 'valid' and not accepted:
                out.append(Violation('rejected-but-valid', 'AddMatch', 'AddMatch(%r) refused with %r' % (rule, rep.error_name), case))
            elif verdict[0] == 'invalid' and accepted:
                out.append(Violation('accepted-but-invalid', 'AddMatch:' + verdict[1], 'AddMatch(%r) accepted; the specification grammar rejects it (%s)' % (rule, verdict[1]), case))
            elif verdict[0] == 'invalid' and rep.error_name not in (b'org.freedesktop.DBus.Error.MatchRuleInvalid', b'org.freedesktop.DBus.Error.LimitsExceeded'):
                out.append(Violation('wrong-error', 'AddMatch', 'AddMatch(%r) refused with %r' % (rule, rep.error_name), case))
            if accepted:
                ser, o = bus.bus_method(c, 'RemoveMatch', [R.S(rule)])
                rep = B.find_reply(o.get(c), ser)
                if rep is None or rep.mtype != R.MT_RETURN:
                    out.append(Violation('remove-failed', 'RemoveMatch', 'RemoveMatch of the just-added rule %r answered %r' % (rule, rep and rep.error_name), case))
        # nothing may be left behind
        d = bus.dump()
        if '|rule ' in d or d.startswith('rule '):
            out.append(Violation('rules-left-behind', 'RemoveMatch', 'after adding and removing every rule the bus still holds rules: %s' % d[:300], {'part': 'parser-batch', 'rules': [r.hex() for r in rules]}))
    except HarnessDied as e:
        out.append(crash_violation(e, {'part': 'parser-batch', 'rules': [r.hex() for r in rules[:i + 1]][-40:]}))
        bus.h.close()
    return {'viol': [v.to_json() for v in out[:30]], 'n': n, 'hits': hits}


# ---- quoting semantics: the VALUE a rule text denotes ----------------------------

QUOTE_ALPHABET = [b"\\", b"'", b",", b"a", b"arg1=", b" "]


def quoting_rules(k):
    """arg0=<every string of <= k pieces over backslash, apostrophe, comma, a letter, a second key, a space>."""
    seen = set()
    for n in range(0, k + 1):
        for t in itertools.product(QUOTE_ALPHABET, repeat=n):
            s_ = b'arg0=' + b''.join(t)
            if s_ not in seen:
                seen.add(s_)
                yield s_


def task_quoting(rules):
    """For each rule the model accepts, the bus must deliver exactly the signals whose arguments equal the values the
    specification's quoting rules give (and not a signal whose argument differs by one character)."""
    bus = worker_bus()
    out, hits = [], {}
    n = 0
    try:
        bus.reset(B.make_config())
        c = bus.connect(0)
        bus.hello(c)
        s_ = bus.connect(0)
        bus.hello(s_)
        for rule in rules:
            verdict = M.parse(rule)
            hits['quoting:' + verdict[0]] = hits.get('quoting:' + verdict[0], 0) + 1
            if verdict[0] != 'valid':
                continue
            r = verdict[1]
            if not r.args or any(k != 'str' for k, _ in r.args.values()):
                continue
            case = {'part': 'quoting', 'rule': rule.hex()}
            ser, o = bus.bus_method(c, 'AddMatch', [R.S(rule)])
            rep = B.find_reply(o.get(c), ser)
            if rep is None or rep.mtype != R.MT_RETURN:
                continue          # acceptance is judged by the parser part
            nargs = max(r.args) + 1
            want = [r.args[i][1] if i in r.args else b'other' for i in range(nargs)]
            variants = [(want, True)]
            for i in r.args:
                w2 = list(want)
                w2[i] = want[i] + b'q'
                variants.append((w2, False))
                if want[i]:
                    w3 = list(want)
                    w3[i] = want[i][:-1]
                    variants.append((w3, False))
            for k_, (args, expect) in enumerate(variants):
                o = bus.step(s_, R.encode_message(R.signal(bus.next_serial(s_), '/q', 'q.q', 'Q%d' % k_, [R.S(a) for a in args])))
                got = any(m.mtype == R.MT_SIGNAL and m.field(R.F_MEMBER) == b'Q%d' % k_ for m, _ in (o.get(c).msgs if o.get(c) else []))
                n += 1
                if got != expect:
                    out.append(Violation('quoting-value', 'delivered' if got else 'not-delivered',
                                         'rule %r denotes the argument values %r; a signal with arguments %r was %s' % (rule, want, args, 'delivered' if got else 'not delivered'), case))
                    break
            bus.bus_method(c, 'RemoveMatch', [R.S(rule)])
    except HarnessDied as e:
        out.append(crash_violation(e, {'part': 'quoting-batch', 'rules': [r.hex() for r in rules]}))
        bus.h.close()
    return {'viol': [v.to_json() for v in out[:30]], 'n': n, 'hits': hits}


# ---- matcher ---------------------------------------------------------------

S_NAME = b'com.example.S'
X_NAME = b'com.example.X'

RULE_POOL = [
    b"type='signal'", b"type='method_call',eavesdrop='true'", b"type='error',eavesdrop='true'", b"type='method_return',eavesdrop='true'",
    b"interface='a.b'", b"interface='a.bc'", b"member='M'", b"member='MM'",
    b"path='/a'", b"path='/a/b'", b"path_namespace='/a'", b"path_namespace='/a/b'", b"path_namespace='/'", b"path_namespace='/b'",
    b"sender='com.example.S'", b"sender='com.example.T'", b"sender='org.freedesktop.DBus'",
    b"destination='com.example.X',eavesdrop='true'", b"destination='com.example.Y',eavesdrop='true'", b"destination='com.example.X'",
    b"destination='org.freedesktop.DBus',eavesdrop='true'", b"destination='org.freedesktop.DBus'",
    b"arg0='x'", b"arg0='xy'", b"arg1='x'", b"arg0=''", b"arg0='/a/b'",
    b"arg0path='/a/'", b"arg0path='/a/b'", b"arg0path=''", b"arg0path='/'", b"arg0path='/a/b/'", b"arg1path='/a/'",
    b"arg0namespace='a.b'", b"arg0namespace='a'", b"arg0namespace='a.bc'",
    b"eavesdrop='true'", b"eavesdrop='false'", b"arg63='x'", b"arg62='x'", b"arg2='x'",
    b"type='signal',interface='a.b',member='M',path='/a',arg0='x'",
    b"type='signal',interface='a.b',member='M',path='/a',arg0='q',arg1='q',arg2='q',arg3='q',arg4='q',arg5='q',arg6='q',arg7='q',arg8='q',arg9='q',arg10='q',arg11='q',arg12='DIFFERENT'",
    b"type='signal',interface='a.b',member='M',path='/a',arg0='q',arg1='q',arg2='q',arg3='q',arg4='q',arg5='q',arg6='q',arg7='q',arg8='q',arg9='q',arg10='q',arg11='q',arg12='q'",
    b"arg0='q',arg1='q',arg2='q',arg3='q',arg4='q',arg5='q',arg6='q',arg7='q',arg8='q',arg9='q',arg10='q',arg11='q',arg12='q',arg13='q',arg14='q',arg15='q',arg16='DIFFERENT'",
]


def probe_messages():
    """(description, builder(serial) -> Msg, unicast_target or None)"""
    out = []

    def sig(path=b'/a', iface=b'a.b', member=b'M', body=()):
        return lambda s: R.signal(s, path, iface, member, list(body))
    out.append(('sig', sig(), None))
    for p in (b'/a/b', b'/ab', b'/', b'/b'):
        out.append(('sig path=%s' % p.decode(), sig(path=p), None))
    out.append(('sig iface=a.bc', sig(iface=b'a.bc'), None))
    out.append(('sig member=MM', sig(member=b'MM'), None))
    bodies = [[R.S('x')], [R.S('xy')], [R.S('')], [R.S('/a/b')], [R.S('/a/')], [R.S('/')], [R.S('/a')], [R.S('/a/b/c')],
              [R.O('/a/b')], [R.O('/a')], [R.O('/')], [R.U(5)], [R.S('a.b.c')], [R.S('a.b')], [R.S('a.bc')], [R.S('a')],
              [R.S('x'), R.S('x')], [R.U(5), R.S('x')], [R.S('q'), R.S('x'), R.S('x')], [R.V(R.S('x'))], [R.A('s', [R.S('x')])],
              [R.S('q')] * 13, [R.S('q')] * 17, [R.S('q')] * 12 + [R.S('z')], [R.S('q')] * 16 + [R.S('z')],
              [R.S('q')] * 62 + [R.S('x'), R.S('x')]]
    for b_ in bodies:
        out.append(('sig body=%s' % ','.join(R.canon_value(v) for v in b_)[:60], sig(body=b_), None))
    # unicast traffic to X (only eavesdropping rules may see it)
    out.append(('call->X', lambda s: R.method_call(s, X_NAME, '/a', 'a.b', 'M', [R.S('x')], flags=1), X_NAME))
    out.append(('call->X no iface', lambda s: R.method_call(s, X_NAME, '/a', None, 'M', [], flags=1), X_NAME))
    out.append(('signal->X', lambda s: R.signal(s, '/a', 'a.b', 'M', [R.S('x')], dest=X_NAME), X_NAME))
    out.append(('error->X', lambda s: R.error(s, 99, 'a.b.Err', X_NAME, [R.S('x')]), X_NAME))
    out.append(('return->X', lambda s: R.method_return(s, 99, X_NAME, [R.S('x')]), X_NAME))
    out = [t + ('S',) for t in out]
    # traffic written by X, which is only QUEUED for S's well-known name (a sender= rule for that name must not match it)
    out.append(('sig from X (queued for S_NAME)', sig(), None, 'X'))
    out.append(('sig body=s:78 from X (queued for S_NAME)', sig(body=[R.S('x')]), None, 'X'))
    out.append(('signal X->S', lambda s: R.signal(s, '/a', 'a.b', 'M', [R.S('x')], dest=S_NAME), 'toS', 'X'))
    return out


PROBES = probe_messages()


class MatchSession(BusSession):
    """S sends, X is a unicast target, R1/R2 hold rules."""

    def __init__(self, params=None):
        BusSession.__init__(self, params or {})
        self.connect_slot('S')
        self.connect_slot('X')
        self.connect_slot('R1')
        self.connect_slot('R2')
        self.method('S', 'RequestName', [R.S(S_NAME), R.U(0)])
        self.method('X', 'RequestName', [R.S(X_NAME), R.U(0)])
        self.method('X', 'RequestName', [R.S(S_NAME), R.U(0)])       # IN_QUEUE behind S
        for l in ('S', 'X', 'R1', 'R2'):
            self.take(l)
        self.rules = {'R1': [], 'R2': []}      # label -> list of model Rules (multiset, insertion order)

    def view(self, m, target, sender='S'):
        sender_names = {self.uname['S'], S_NAME} if sender == 'S' else {self.uname['X'], X_NAME}
        dest_names = set()
        if target == 'toS':
            dest_names = {self.uname['S'], S_NAME}
        elif target is not None:
            dest_names = {self.uname['X'], X_NAME}
        return M.MsgView(m.mtype, sender_names, dest_names, m.interface, m.member, m.path, m.body, target is not None)

    def probe(self, out, which=None, opdesc=''):
        for i, (desc, build, target, snd) in enumerate(PROBES):
            if which is not None and i not in which:
                continue
            c = self.slots[snd]
            s = self.bus.next_serial(c)
            m = build(s)
            self.send(snd, m)
            v = self.view(m, target, snd)
            for holder in ('R1', 'R2'):
                if not self.is_open(holder):
                    continue
                want = 1 if any(M.matches(r, v) for r in self.rules[holder]) else 0
                box = self.take(holder)
                got = sum(1 for o in box if o.serial == s and o.sender == self.uname[snd])
                other = [o for o in box if not (o.serial == s and o.sender == self.uname[snd])]
                self.hit('probe-deliver' if want else 'probe-silent')
                if got != want:
                    which_rules = [r.text.decode('latin-1') for r in self.rules[holder]]
                    clause = 'not-delivered' if got < want else ('delivered-twice' if want else 'delivered-without-match')
                    key = self.blame(v, self.rules[holder], want)
                    out.append(Violation(clause, key, '%s probe %r: %s received %d copies, specification says %d; rules held: %r' %
                                         (opdesc, desc, holder, got, want, which_rules), None))
            self.take('S')
            self.take('X')

    def blame(self, v, rules, want):
        """Which key family is responsible (for fingerprints): the keys of the single rule if there is one."""
        if len(rules) == 1:
            r = rules[0]
            keys = [k for k in ('type', 'sender', 'interface', 'member', 'path', 'path_namespace', 'destination') if getattr(r, k) is not None]
            keys += sorted({'arg-' + kind for kind, _ in r.args.values()})
            if len(r.args) + len(keys) - len({'arg-' + kind for kind, _ in r.args.values()}) > 16:
                return 'more-than-16-keys'
            if r.eavesdrop:
                keys.append('eavesdrop')
            return '+'.join(keys) or 'empty'
        return 'multi-rule'

    def add_rule(self, holder, text, out, op=''):
        v = M.parse(text)
        s, rep = self.method(holder, 'AddMatch', [R.S(text)])
        if rep is None:
            out.append(Violation('no-reply', 'AddMatch', 'no reply', None))
            return False
        ok = rep.kind == R.MT_RETURN
        if v[0] == 'valid':
            if not ok:
                out.append(Violation('rejected-but-valid', 'AddMatch', '%s AddMatch(%r) refused: %r' % (op, text, rep.errname), None))
                return False
            self.rules[holder].append(v[1])
            return True
        if ok and v[0] == 'invalid':
            out.append(Violation('accepted-but-invalid', 'AddMatch:' + v[1], '%s AddMatch(%r) accepted' % (op, text), None))
        return False

    def remove_rule(self, holder, text, out, op=''):
        v = M.parse(text)
        s, rep = self.method(holder, 'RemoveMatch', [R.S(text)])
        if rep is None:
            out.append(Violation('no-reply', 'RemoveMatch', 'no reply', None))
            return
        if v[0] != 'valid':
            return
        canon = v[1].canon()
        idx = [i for i, r in enumerate(self.rules[holder]) if r.canon() == canon]
        if idx:
            self.hit('remove-present')
            if rep.kind != R.MT_RETURN:
                out.append(Violation('remove-failed', 'RemoveMatch', '%s RemoveMatch(%r) of a held rule answered %r' % (op, text, rep.errname), None))
                return
            # which of several equal rules goes is unobservable; drop the last added
            del self.rules[holder][idx[-1]]
        else:
            self.hit('remove-absent')
            if rep.kind != R.MT_ERROR or rep.errname != b'org.freedesktop.DBus.Error.MatchRuleNotFound':
                out.append(Violation('remove-wrong', 'RemoveMatch', '%s RemoveMatch(%r) of a rule not held answered %r (rules held: %r)' %
                                     (op, text, rep.errname if rep.kind == R.MT_ERROR else 'success', [r.text for r in self.rules[holder]]), None))

    def check_dump_counts(self, out, op=''):
        d = self.impl_key()
        for holder in ('R1', 'R2'):
            n = sum(1 for line in d.split('|') if line.startswith('rule @%s ' % holder))
            want = len(self.rules[holder]) if self.is_open(holder) else 0
            if n != want:
                out.append(Violation('rule-count', 'dump', '%s: implementation holds %d rules for %s, model %d' % (op, n, holder, want), None))


def task_matcher(t):
    """t = list of rule-index tuples (one or two rules held by R1)."""
    out, hits = [], {}
    n = 0
    for combo in t:
        case = {'part': 'matcher', 'rules': list(combo)}
        try:
            s = MatchSession()
            vs = []
            for ri in combo:
                s.add_rule('R1', RULE_POOL[ri], vs)
            s.probe(vs, opdesc='rules %r' % (combo,))
            n += len(PROBES)
            for k, v in s.hits.items():
                hits[k] = hits.get(k, 0) + v
            for v in vs:
                v.case = case
            out.extend(vs)
        except HarnessDied as e:
            out.append(crash_violation(e, case))
            worker_bus().h.close()
    byfp = {}
    for v in out:
        byfp.setdefault(v.fingerprint, []).append(v)
    return {'viol': [v.to_json() for vs in byfp.values() for v in vs[:2]], 'n': n, 'hits': hits}


# ---- rule equality: RemoveMatch(Y) while holding X, for every ordered pair of a pool of near-equal rules ------------

def equality_pool():
    """Rules that differ from one another in ONE respect - a key present / absent / present with an empty value, the
    argument number, the kind of argument test, the value, eavesdrop - plus different spellings of the same rule (key
    order, quoting) which must count as equal."""
    singles = [b"type='signal'", b"type='method_call'", b"sender='com.example.S'", b"sender='com.example.T'", b"interface='a.b'", b"interface='a.bc'",
               b"member='M'", b"member='MM'", b"path='/a'", b"path='/a/b'", b"path_namespace='/a'", b"path_namespace='/a/b'",
               b"destination='com.example.X'", b"destination='com.example.Y'",
               b"arg0=''", b"arg0='x'", b"arg0='xy'", b"arg1=''", b"arg1='x'", b"arg2='z'", b"arg63='x'", b"arg62='x'",
               b"arg0path=''", b"arg0path='/a/'", b"arg1path='/a/'", b"arg0namespace='a.b'", b"arg0namespace='a'", b"eavesdrop='true'"]
    combos = [b"arg0='',arg1='x'", b"arg0='x',arg1=''", b"arg0='x',arg1='x'", b"arg1='x',arg0='x'", b"arg1='',arg2='z'", b"arg0='',arg2='z'",
              b"arg0='',arg1='',arg2='z'", b"arg0path='/a/',arg1='x'", b"arg0='/a/',arg1='x'", b"arg0path='',arg1='x'", b"arg0namespace='a',arg1='x'",
              b"arg0='a',arg1='x'", b"type='signal',arg0=''", b"type='signal',arg0='x'", b"arg0='x',type='signal'", b"member='M',eavesdrop='true'",
              b"member='M',arg0=''", b"member='M',arg1=''", b"arg0=x", b"path='/a',arg0=''", b"arg62='x',arg63='x'", b"arg63='x',arg62='x'",
              b"arg62='',arg63='x'"]
    return singles + combos


def task_equality(held_idx):
    """For each held rule X (index list) and every Y of the pool: AddMatch(X); RemoveMatch(Y) must succeed exactly when Y
    is the same rule as X (and then X is gone: a second RemoveMatch(X) fails); otherwise X is still held and still works."""
    pool = equality_pool()
    out, hits = [], {}
    n = 0
    for xi in held_idx:
        case = {'part': 'equality', 'held': xi}
        try:
            s = MatchSession()
            vs = []
            for yi in range(len(pool)):
                if not s.add_rule('R1', pool[xi], vs, 'equality'):
                    break
                s.remove_rule('R1', pool[yi], vs, 'holding %r:' % pool[xi])
                s.check_dump_counts(vs, 'after RemoveMatch(%r) while holding %r' % (pool[yi], pool[xi]))
                for _ in range(len(s.rules['R1'])):
                    s.remove_rule('R1', s.rules['R1'][-1].text, vs, 'cleanup after RemoveMatch(%r):' % pool[yi])
                    if vs:
                        break
                if vs:
                    break
                s.check_dump_counts(vs, 'after removing everything (held %r, tried %r)' % (pool[xi], pool[yi]))
                n += 1
                if vs:
                    break
            hits['equality-pairs'] = hits.get('equality-pairs', 0) + len(pool)
            for k, v in s.hits.items():
                hits[k] = hits.get(k, 0) + v
            for v in vs:
                v.case = case
            out.extend(vs)
        except HarnessDied as e:
            out.append(crash_violation(e, case))
            worker_bus().h.close()
    byfp = {}
    for v in out:
        byfp.setdefault(v.fingerprint, []).append(v)
    return {'viol': [v.to_json() for vs in byfp.values() for v in vs[:2]], 'n': n, 'hits': hits}


# ---- rules that name unique connection names, across disconnects of OTHER connections --------------

class UniqueSession(BusSession):
    """Z (:1.0), P (:1.1), eight short-lived connections, Q (:1.10), R (holder), so that P's unique name is a proper
    prefix of Q's.  Rules naming P or Q must keep working (and stay removable) whatever happens to the other one."""

    def __init__(self, params=None):
        BusSession.__init__(self, params or {})
        self.connect_slot('Z')
        self.connect_slot('P')
        for i in range(8):
            self.connect_slot('D')
            self.close_slot('D')
        self.connect_slot('Q')
        self.connect_slot('R')
        if not (self.uname['Q'].startswith(self.uname['P']) and self.uname['Q'] != self.uname['P']):
            raise RuntimeError('unique names not prefix-related: %r %r' % (self.uname['P'], self.uname['Q']))
        for l in ('Z', 'P', 'Q'):
            self.method(l, 'AddMatch', [R.S(b"type='signal',member='Never'")])     # every connection holds some rule
        for l in list(self.inbox):
            self.take(l)


def unique_scenarios():
    rules = ["sender='{P}'", "sender='{Q}'", "destination='{Q}',eavesdrop='true'", "destination='{P}',eavesdrop='true'", "sender='{Q}',member='M'", "sender='{Z}'"]
    combos = [(r,) for r in rules] + list(itertools.combinations(rules, 2))
    for combo in combos:
        for event in ('none', 'disc-P', 'disc-Q', 'disc-Z', 'disc-P-then-Z'):
            yield {'part': 'unique', 'rules': list(combo), 'event': event}


def task_unique(scns):
    out, hits = [], {}
    n = 0
    for scn in scns:
        try:
            s = UniqueSession()
            names = {k: s.uname[k].decode() for k in ('P', 'Q', 'Z')}
            held = []
            for rt in scn['rules']:
                text = rt.format(**names).encode()
                v = M.parse(text)
                ser, rep = s.method('R', 'AddMatch', [R.S(text)])
                if rep is None or rep.kind != R.MT_RETURN:
                    out.append(Violation('rejected-but-valid', 'AddMatch', 'AddMatch(%r) refused' % text, scn))
                    continue
                held.append(v[1])
            gone = set()
            for ev in {'none': [], 'disc-P': ['P'], 'disc-Q': ['Q'], 'disc-Z': ['Z'], 'disc-P-then-Z': ['P', 'Z']}[scn['event']]:
                s.close_slot(ev)
                gone.add(ev)
            for l in list(s.inbox):
                s.take(l)
            # probes: every live sender emits a broadcast and a unicast signal to every other live named connection
            for src in ('P', 'Q', 'Z'):
                if src in gone:
                    continue
                for dst in (None, 'P', 'Q', 'Z'):
                    if dst == src or dst in gone:
                        continue
                    c = s.slots[src]
                    ser = s.bus.next_serial(c)
                    m = R.signal(ser, '/u', 'u.u', 'M', [R.S('u')], dest=s.uname[dst] if dst else None)
                    s.send(src, m)
                    view = M.MsgView(m.mtype, {s.uname[src]}, {s.uname[dst]} if dst else set(), m.interface, m.member, m.path, m.body, dst is not None)
                    want = 1 if any(M.matches(r, view) for r in held) else 0
                    got = sum(1 for o in s.take('R') if o.serial == ser and o.sender == s.uname[src])
                    n += 1
                    hits['unique-deliver' if want else 'unique-silent'] = hits.get('unique-deliver' if want else 'unique-silent', 0) + 1
                    if got != want:
                        out.append(Violation('not-delivered' if got < want else 'delivered-without-match', 'unique-name-rule:' + scn['event'],
                                             'rules %r held by R, after %s: signal from %s (%s) to %s: R received %d copies, specification says %d' %
                                             ([r.text for r in held], scn['event'], src, names[src], dst, got, want), scn))
                    for l in list(s.inbox):
                        s.take(l)
            # rules that do not name a connection that went away must still be removable
            for r in held:
                named = {r.sender, r.destination}
                if any(s.uname.get(g) in named for g in gone):
                    continue
                ser, rep = s.method('R', 'RemoveMatch', [R.S(r.text)])
                if rep is None or rep.kind != R.MT_RETURN:
                    out.append(Violation('remove-failed', 'unique-name-rule:' + scn['event'], 'RemoveMatch(%r) of a held rule answered %r after %s' % (r.text, rep and rep.errname, scn['event']), scn))
        except HarnessDied as e:
            out.append(crash_violation(e, scn))
            worker_bus().h.close()
    byfp = {}
    for v in out:
        byfp.setdefault(v.fingerprint, []).append(v)
    return {'viol': [v.to_json() for vs in byfp.values() for v in vs[:2]], 'n': n, 'hits': hits}


# ---- fan-out: a recipient the bus has to skip does not end the delivery to the others ------------------------------

FANOUT_POLICY = """
  <policy context="default">
    <allow send_destination="*" eavesdrop="true"/>
    <allow eavesdrop="true"/>
    <allow own="*"/>
    <allow user="*"/>
  </policy>
  <policy user="65534">
    <deny receive_interface="f.denied"/>
  </policy>
"""
FANOUT_RULES = [b"type='signal'", b"type='signal',interface='f.plain'", b"path='/f'", b"interface='f.denied'", b"member='Fan',path_namespace='/f'"]


class FanoutSession(BusSession):
    """S broadcasts; R1 never negotiated descriptor passing, R2 (another user) is refused interface f.denied by its receive
    policy, R3 is an ordinary client.  All hold matching rules, added in a given order (the bus walks its rule pools in
    insertion order)."""

    def __init__(self, params=None):
        BusSession.__init__(self, params or {})
        self.bus.h.cmd('MKFD 1')
        self.connect_slot('S')
        self.connect_slot('R1', nofd=True)
        self.connect_slot('R2', uid=65534)
        self.connect_slot('R3')
        for l in list(self.inbox):
            self.take(l)

    def config(self):
        return B.make_config(policy=FANOUT_POLICY)


def fanout_scenarios():
    for order in itertools.permutations(('R1', 'R2', 'R3')):
        for ri in range(len(FANOUT_RULES)):
            for mixed in (0, 1):
                yield {'part': 'fanout', 'order': list(order), 'rule': ri, 'mixed': mixed}


def task_fanout(scns):
    out, hits = [], {}
    n = 0
    for scn in scns:
        try:
            s = FanoutSession()
            held = {}
            for j, h in enumerate(scn['order']):
                # mixed: the holders use different (all matching or not) rules, so that they sit in different rule pools
                text = FANOUT_RULES[(scn['rule'] + (j if scn['mixed'] else 0)) % len(FANOUT_RULES)]
                ser, rep = s.method(h, 'AddMatch', [R.S(text)])
                if rep is None or rep.kind != R.MT_RETURN:
                    out.append(Violation('rejected-but-valid', 'AddMatch', 'AddMatch(%r) refused' % text, scn))
                held[h] = M.parse(text)[1]
            for l in list(s.inbox):
                s.take(l)
            for iface, nfd in ((b'f.plain', 0), (b'f.plain', 1), (b'f.denied', 0), (b'f.denied', 1), (b'f.other', 1)):
                c = s.slots['S']
                ser = s.bus.next_serial(c)
                fields = [(R.F_PATH, (b'o', b'/f')), (R.F_INTERFACE, (b's', iface)), (R.F_MEMBER, (b's', b'Fan'))]
                body = [R.S(b'fan')]
                if nfd:
                    fields.append((R.F_UNIX_FDS, (b'u', 1)))
                    body.append(R.H(0))
                m = R.Msg(R.MT_SIGNAL, 0, ser, fields, body)
                s.send_raw('S', R.encode_message(m), [0] if nfd else None)
                view = M.MsgView(m.mtype, {s.uname['S']}, set(), m.interface, m.member, m.path, m.body, False)
                for h in ('R1', 'R2', 'R3'):
                    matches = M.matches(held[h], view)
                    skipped = (h == 'R1' and nfd) or (h == 'R2' and iface == b'f.denied')
                    got = sum(1 for o in s.take(h) if o.serial == ser and o.sender == s.uname['S'])
                    n += 1
                    if skipped:
                        hits['fanout-skipped-recipient'] = hits.get('fanout-skipped-recipient', 0) + 1
                        if got:
                            out.append(Violation('delivered-without-match', 'fanout:skipped-recipient', '%s received a broadcast it cannot/may not receive (interface %r, %d descriptors)' % (h, iface, nfd), scn))
                        continue
                    want = 1 if matches else 0
                    hits['fanout-deliver' if want else 'fanout-silent'] = hits.get('fanout-deliver' if want else 'fanout-silent', 0) + 1
                    if got != want:
                        out.append(Violation('not-delivered' if got < want else ('delivered-twice' if want else 'delivered-without-match'), 'fanout:' + ('after-skipped-recipient' if got < want else 'other'),
                                             'rules added in order %r; broadcast on %r with %d descriptors: %s (rule %r) received %d copies, specification says %d' %
                                             (scn['order'], iface, nfd, h, held[h].text, got, want), scn))
                if s.eof.get('S'):
                    out.append(Violation('sender-disconnected', 'fanout', 'the sender of a valid broadcast was disconnected', scn))
                    break
                s.take('S')
        except HarnessDied as e:
            out.append(crash_violation(e, scn))
            worker_bus().h.close()
    byfp = {}
    for v in out:
        byfp.setdefault(v.fingerprint, []).append(v)
    return {'viol': [v.to_json() for vs in byfp.values() for v in vs[:2]], 'n': n, 'hits': hits}


# ---- rule-set histories ------------------------------------------------------

HIST_POOL = [b"path_namespace='/a'", b"path_namespace='/b'", b"arg0='x'", b"arg0='y'", b"member='M'", b"member='MM'",
             b"type='signal',path='/a'", b"path='/a',type='signal'"]
HIST_PROBES = None


def hist_probe_indexes():
    want = {'sig', 'sig path=/b', 'sig member=MM', 'sig path=/a/b', 'sig from X (queued for S_NAME)'}
    idx = [i for i, (d, _, _, _) in enumerate(PROBES) if d in want or d.startswith('sig body=s:78') or d.startswith('sig body=s:7879')]
    return idx


class HistSession(MatchSession):
    def __init__(self, params):
        MatchSession.__init__(self, params)
        self.pool = HIST_POOL[:params.get('pool', len(HIST_POOL))]
        self.probe_idx = hist_probe_indexes()

    def ops(self):
        ops = []
        for h in ('R1', 'R2'):
            if not self.is_open(h):
                ops.append(['conn', h])
                continue
            for i in range(len(self.pool)):
                ops.append(['add', h, i])
                ops.append(['rm', h, i])
            ops.append(['disc', h])
        return ops

    def apply(self, op):
        out = []
        kind, h = op[0], op[1]
        if kind == 'add':
            self.add_rule(h, self.pool[op[2]], out, repr(op))
        elif kind == 'rm':
            self.remove_rule(h, self.pool[op[2]], out, repr(op))
        elif kind == 'disc':
            self.close_slot(h)
            self.rules[h] = []
            self.hit('disconnect')
        elif kind == 'conn':
            self.connect_slot(h)
            self.take(h)
        for l in ('R1', 'R2', 'S', 'X'):
            self.take(l)
        if not out:
            self.check_dump_counts(out, repr(op))
        if not out:
            self.probe(out, self.probe_idx, repr(op))
        return out

    def key(self):
        mk = ';'.join('%s=%s' % (h, sorted(str(r.canon()) for r in self.rules[h])) for h in ('R1', 'R2'))
        live = ''.join(h for h in ('R1', 'R2') if self.is_open(h))
        # rule ORDER inside the implementation's pools is not part of the key (matching is order independent)
        d = self.impl_key().split('|')
        d = sorted(d)
        return '|'.join(d) + '#' + mk + '#' + live


def _dispatch(t):
    fn, arg = t
    return fn(arg)


def run(ctx):
    quick = ctx.tier == 'quick'
    # part 1: parser
    rules = list(piece_rules(3 if quick else 4))
    rules += templated_rules()
    rules = list(dict.fromkeys(rules))
    tasks = [(task_parser, rules[i:i + 250]) for i in range(0, len(rules), 250)]
    qrules = list(quoting_rules(5 if quick else 6))
    tasks += [(task_quoting, qrules[i:i + 150]) for i in range(0, len(qrules), 150)]
    # part 2: matcher product
    singles = [(i,) for i in range(len(RULE_POOL))]
    pairs = list(itertools.combinations(range(len(RULE_POOL)), 2))
    combos = singles + pairs
    for i in range(0, len(combos), 8):
        tasks.append((task_matcher, combos[i:i + 8]))
    neq = len(equality_pool())
    tasks += [(task_equality, list(range(i, min(i + 4, neq)))) for i in range(0, neq, 4)]
    uscn = list(unique_scenarios())
    tasks += [(task_unique, uscn[i:i + 6]) for i in range(0, len(uscn), 6)]
    fscn = list(fanout_scenarios())
    tasks += [(task_fanout, fscn[i:i + 5]) for i in range(0, len(fscn), 5)]
    pool = Pool()
    nparse = nprobe = nquote = nuniq = 0
    nfan = 0
    neqdone = 0
    done = 0
    try:
        for r in pool.imap(_dispatch, tasks):
            done += 1
            if '__crash__' in r:
                ctx.add_violation(Violation('crash', r['__crash__'], r['stderr'], {'task': r['task']}))
                continue
            ctx.merge_hits(r['hits'])
            ctx.add_violations(r['viol'])
            if any(k.startswith('parse:') for k in r['hits']):
                nparse += r['n']
            elif any(k.startswith('quoting:') for k in r['hits']):
                nquote += r['n']
            elif any(k.startswith('unique-') for k in r['hits']):
                nuniq += r['n']
            elif any(k.startswith('fanout-') for k in r['hits']):
                nfan += r['n']
            elif 'equality-pairs' in r['hits']:
                neqdone += r['n']
            else:
                nprobe += r['n']
            if ctx.expired():
                ctx.incomplete('deadline hit in parser/matcher product after %d of %d tasks' % (done, len(tasks)))
                pool.cancel()
                break
    finally:
        pool.close()
    # part 3: histories
    st = explore.bfs(ctx, FACTORY, {'pool': 8}, max_depth=4 if quick else 6, ops_chunk=6)
    ctx.coverage.update({
        'states': st['states'] + len(combos), 'transitions': st['transitions'] + nparse + nprobe,
        'traces_validated_against_impl': st['transitions'] + nparse + nprobe,
        'rule_strings': nparse, 'rule_x_message_probes': nprobe, 'quoting_rules': len(qrules), 'quoting_probes': nquote, 'unique_name_scenarios': len(uscn), 'unique_name_probes': nuniq, 'fanout_scenarios': len(fscn), 'fanout_probes': nfan, 'equality_pairs': neqdone, 'history_states': st['states'], 'history_transitions': st['transitions'],
        'history_depth': st['completed_depth'], 'history_fixpoint': st['fixpoint'],
        'bound': 'parser: all concatenations of <= %d of %d lexical pieces%s + %d templated/boundary rules; matcher: %d single rules and %d rule pairs x %d probe messages; '
                 'histories: 2 holders x %d-rule pool (pairs differing in one value), add/remove/disconnect/reconnect, BFS depth %d' %
                 (3 if quick else 4, len(PIECES) - 1, '; quoting: every value of <= %d pieces over {backslash, apostrophe, comma, letter, second key, space}, delivered iff the arguments equal the denoted values' % (5 if quick else 6), len(templated_rules()), len(singles), len(pairs), len(PROBES), 8, st['completed_depth']),
    })
    ctx.sample({'rule': "arg0=\\',arg1=\\,arg2=',',arg3=\\\\", 'expect': 'valid, values \' \\ , \\\\'})
    ctx.sample({'rules': [RULE_POOL[10].decode()], 'probe': 'sig path=/ab', 'expect': 'not delivered'})
    ctx.assumptions = ['pyv/models/matchrules.py transcribes the specification', 'forms the specification leaves open are not judged (counted under parse:unspecified)']
    ctx.replay_fn = replay


def replay(case):
    if case.get('part') == 'parser':
        r = task_parser([bytes.fromhex(case['rule'])])
        return [Violation.from_json(v) for v in r['viol']]
    if case.get('part') == 'parser-batch':
        r = task_parser([bytes.fromhex(x) for x in case['rules']])
        return [Violation.from_json(v) for v in r['viol']]
    if case.get('part') == 'unique':
        r = task_unique([case])
        return [Violation.from_json(v) for v in r['viol']]
    if case.get('part') == 'fanout':
        r = task_fanout([case])
        return [Violation.from_json(v) for v in r['viol']]
    if case.get('part') == 'quoting':
        r = task_quoting([bytes.fromhex(case['rule'])])
        return [Violation.from_json(v) for v in r['viol']]
    if case.get('part') == 'equality':
        r = task_equality([case['held']])
        return [Violation.from_json(v) for v in r['viol']]
    if case.get('part') == 'matcher':
        r = task_matcher([tuple(case['rules'])])
        return [Violation.from_json(v) for v in r['viol']]
    if 'history' in case:
        return explore.replay_history(FACTORY, case['params'], case['history'])
    return []
