"""C08 — a peer counts as authenticated only after a valid SASL exchange.

Protocol level: BFS over command sequences on a REAL server-side DBusAuth
object (harness/vauth) for every combination of socket credentials and
allowed mechanisms; each line is also delivered byte by byte.  The reference
model is the specification's three-state server table plus the mechanism
definitions (EXTERNAL, DBUS_COOKIE_SHA1 with SHA-1 computed by hashlib,
ANONYMOUS).  Bus level: handshakes over a real socket of an in-process bus
for two uids and three <auth>/<allow_anonymous/> configurations, followed by
Hello and GetConnectionUnixUser."""
import hashlib
import os
import re

from .. import refdbus as R
from .. import grammars as G
from .. import busbox as B
from .. import explore
from ..engine import Violation, worker_harness, worker_bus, Pool, crash_violation
from ..vbox import HarnessDied, parse_kv
from ..registry import claim

claim('C08', 'model_checking',
      'explicit-state BFS over SASL command sequences on the real DBusAuth state machine for every credential/mechanism setting, lock-step with a transcription of the specification\'s server state table; plus raw handshakes against an in-process bus',
      'For socket credentials {uid 0, uid 1000, none} x allowed mechanisms {all, EXTERNAL, DBUS_COOKIE_SHA1, ANONYMOUS} every sequence of the command alphabet (AUTH with each mechanism and initial response class, DATA valid/wrong/malformed, '
      'CANCEL, ERROR, BEGIN, NEGOTIATE_UNIX_FD, unknown and non-ASCII lines, an over-long line) is explored breadth-first with dedup on (model state, implementation state); every line is fed whole and byte-by-byte. '
      'Bus level also: peers connecting over TCP (no socket credentials) claiming identities with EXTERNAL; final admission by every list of <=2 allow/deny user/group connect rules over the default and mandatory contexts; keyring cookies dated far in the past or the future (never offered, never accepted, purged). The response class, the end state, "authenticated only via BEGIN in WaitingForBegin", the identity (never one granted by a cancelled exchange), the rejection bound, unused bytes after BEGIN only, and the 16 KiB buffering cap are judged.',
      'Trusts the model. SHA-1 responses use hashlib. The harness process is root, so DBUS_COOKIE_SHA1 is for user root. Sequences beyond the depth bound on states not yet seen are not covered.',
      'DESIGN.md section 4 C08')

FACTORY = 'pyv.checks.c08:Session'
GUID = b'0123456789abcdef0123456789abcdef'
ALL_MECHS = ['EXTERNAL', 'DBUS_COOKIE_SHA1', 'ANONYMOUS']
MAX_FAILURES = 6


def hx(b):
    return b.hex().encode()


COMMANDS = ['AUTH', 'AUTH_EXT', 'AUTH_EXT_own', 'AUTH_EXT_other', 'AUTH_EXT_empty', 'AUTH_EXT_nonhex', 'AUTH_EXT_name',
            'AUTH_COOKIE', 'AUTH_COOKIE_root', 'AUTH_COOKIE_other', 'AUTH_ANON', 'AUTH_ANON_trace', 'AUTH_ANON_badutf8', 'AUTH_BOGUS',
            'DATA_empty', 'DATA_own', 'DATA_other', 'DATA_cookie_ok', 'DATA_cookie_wronghash', 'DATA_cookie_prefix4', 'DATA_cookie_prefix39', 'DATA_cookie_junk', 'DATA_cookie_nohash', 'DATA_cookie_wrongform', 'DATA_nonhex',
            'CANCEL', 'ERROR', 'BEGIN', 'BEGIN_msg', 'NEGOTIATE_UNIX_FD', 'UNKNOWN', 'NONASCII', 'LONGLINE', 'lowercase']


class Model:
    def __init__(self, creds, mechs, fd_possible):
        self.creds = creds                 # int uid or None
        self.mechs = mechs                 # list of allowed mechanism names
        self.fd_possible = fd_possible
        self.state = 'WaitingForAuth'
        self.mech = None
        self.failures = 0
        self.identity = None               # ('uid', n) | ('anon',) once a mechanism returned OK
        self.fdneg = False
        self.cookie = None                 # (server challenge, cookie) while a cookie exchange is in progress
        self.cookie_stage = None

    def key(self):
        return (self.state, self.mech, self.failures, self.identity, self.fdneg, self.cookie_stage)

    def reject(self):
        self.failures += 1
        self.mech = None
        self.identity = None
        self.cookie = None
        self.cookie_stage = None
        self.fdneg = self.fdneg
        if self.failures >= MAX_FAILURES:
            self.state = 'Disconnected'
            return ['REJECTED', 'DISCONNECT']
        self.state = 'WaitingForAuth'
        return ['REJECTED']

    def mech_external(self, resp):
        """resp: None (no response given) | bytes | 'badhex' -> list of acceptable outcomes"""
        if resp is None:
            if self.creds is None:
                return 'DATA-or-REJECTED'     # without socket credentials EXTERNAL can never succeed: rejecting at once is as good as asking
            self.state = 'WaitingForData'
            self.mech = 'EXTERNAL'
            return ['DATA']
        if resp == 'badhex':
            return 'REJECTED-or-ERROR'
        if resp == b'':
            if self.creds is None:
                return self.reject()
            return self.ok(('uid', self.creds))
        if resp.isdigit():
            if self.creds is not None and int(resp) == self.creds:
                return self.ok(('uid', self.creds))
            return self.reject()
        return 'NAME'

    def ok(self, identity):
        self.identity = identity
        self.state = 'WaitingForBegin'
        return ['OK']

    def step(self, cmd, arg):
        """-> list of expected response classes (in order), or a special marker string."""
        st = self.state
        if st in ('Authenticated', 'Disconnected'):
            return ['NOTHING']
        if cmd == 'LONGLINE':
            self.state = 'Disconnected'
            return ['DISCONNECT']
        if cmd in ('UNKNOWN', 'NONASCII', 'lowercase'):
            return ['ERROR']
        if st == 'WaitingForAuth':
            if cmd == 'AUTH':
                mech, resp = arg
                if mech is None:
                    return self.reject()
                if mech not in self.mechs:
                    return self.reject()
                return self.run_mech(mech, resp, initial=True)
            if cmd == 'BEGIN':
                self.state = 'Disconnected'
                return ['DISCONNECT']
            if cmd == 'ERROR':
                return self.reject()
            return ['ERROR']
        if st == 'WaitingForData':
            if cmd == 'DATA':
                return self.run_mech(self.mech, arg, initial=False)
            if cmd == 'BEGIN':
                self.state = 'Disconnected'
                return ['DISCONNECT']
            if cmd in ('CANCEL', 'ERROR'):
                return self.reject()
            return ['ERROR']
        if st == 'WaitingForBegin':
            if cmd == 'BEGIN':
                self.state = 'Authenticated'
                return ['NOTHING']
            if cmd == 'NEGOTIATE_UNIX_FD':
                if self.fd_possible:
                    self.fdneg = True
                    return ['AGREE_UNIX_FD']
                return ['ERROR']
            if cmd in ('CANCEL', 'ERROR'):
                return self.reject()
            return ['ERROR']
        raise ValueError(st)

    def run_mech(self, mech, resp, initial):
        if mech == 'EXTERNAL':
            r = self.mech_external(resp)
            if r == 'NAME':
                return 'NAME'
            if r in ('REJECTED-or-ERROR', 'DATA-or-REJECTED'):
                return r
            if r == ['DATA']:
                return r
            return r
        if mech == 'ANONYMOUS':
            if resp == 'badhex':
                return 'REJECTED-or-ERROR'
            if resp is not None and not G.valid_utf8(resp):
                return self.reject()
            return self.ok(('anon',))
        if mech == 'DBUS_COOKIE_SHA1':
            if resp == 'badhex':
                return 'REJECTED-or-ERROR'
            if self.cookie_stage is None:
                if resp is None or resp == b'':
                    return 'DATA-or-REJECTED'      # no user name given: ask for it, or treat it as an error in RESP
                if resp not in (b'root', b'0'):
                    return self.reject()
                self.state = 'WaitingForData'
                self.mech = mech
                self.cookie_stage = 'challenged'
                return ['DATA-CHALLENGE']
            # response to the challenge
            if resp == 'COOKIE-OK':
                self.cookie_stage = None
                return self.ok(('uid', 0))
            return self.reject()
        return self.reject()


class Session:
    def __init__(self, params):
        self.params = params
        self.h = worker_harness('vauth', args=[])
        creds = params['creds']
        self.mechs = ALL_MECHS if params['mechs'] == 'all' else [params['mechs']]
        r = self.h.cmd('NEW %s %s %d' % ('none' if creds is None else creds, params['mechs'], 1 if params.get('fd', 1) else 0))
        if not r.startswith('OK'):
            raise RuntimeError(r)
        self.m = Model(creds, self.mechs, bool(params.get('fd', 1)))
        self.chunk = params.get('chunk', 'whole')
        self.challenge = None
        self.impl_state = 'waiting'
        self.impl_dump = ''
        self.hits = {}
        self.keyring = os.path.join(self.h.rundir, '.dbus-keyrings')

    def hit(self, k):
        self.hits[k] = self.hits.get(k, 0) + 1

    def ops(self):
        if self.m.state in ('Authenticated', 'Disconnected'):
            return []
        return [[c] for c in COMMANDS]

    # ---- wire text of each command ---------------------------------------
    def line(self, c):
        own = str(self.m.creds if self.m.creds is not None else 1000).encode()
        t = {
            'AUTH': (b'AUTH', ('AUTH', (None, None))),
            'AUTH_EXT': (b'AUTH EXTERNAL', ('AUTH', ('EXTERNAL', None))),
            'AUTH_EXT_own': (b'AUTH EXTERNAL ' + hx(own), ('AUTH', ('EXTERNAL', own))),
            'AUTH_EXT_other': (b'AUTH EXTERNAL ' + hx(b'1234'), ('AUTH', ('EXTERNAL', b'1234'))),
            'AUTH_EXT_empty': (b'AUTH EXTERNAL ', ('AUTH', ('EXTERNAL', None))),
            'AUTH_EXT_nonhex': (b'AUTH EXTERNAL zz', ('AUTH', ('EXTERNAL', 'badhex'))),
            'AUTH_EXT_name': (b'AUTH EXTERNAL ' + hx(b'root'), ('AUTH', ('EXTERNAL', b'root'))),
            'AUTH_COOKIE': (b'AUTH DBUS_COOKIE_SHA1', ('AUTH', ('DBUS_COOKIE_SHA1', None))),
            'AUTH_COOKIE_root': (b'AUTH DBUS_COOKIE_SHA1 ' + hx(b'root'), ('AUTH', ('DBUS_COOKIE_SHA1', b'root'))),
            'AUTH_COOKIE_other': (b'AUTH DBUS_COOKIE_SHA1 ' + hx(b'nobody'), ('AUTH', ('DBUS_COOKIE_SHA1', b'nobody'))),
            'AUTH_ANON': (b'AUTH ANONYMOUS', ('AUTH', ('ANONYMOUS', None))),
            'AUTH_ANON_trace': (b'AUTH ANONYMOUS ' + hx(b'trace me'), ('AUTH', ('ANONYMOUS', b'trace me'))),
            'AUTH_ANON_badutf8': (b'AUTH ANONYMOUS ' + hx(b'\xff\xfe'), ('AUTH', ('ANONYMOUS', b'\xff\xfe'))),
            'AUTH_BOGUS': (b'AUTH BOGUS ' + hx(b'x'), ('AUTH', ('BOGUS', b'x'))),
            'DATA_empty': (b'DATA', ('DATA', b'')),
            'DATA_own': (b'DATA ' + hx(own), ('DATA', own)),
            'DATA_other': (b'DATA ' + hx(b'1234'), ('DATA', b'1234')),
            'DATA_nonhex': (b'DATA zz', ('DATA', 'badhex')),
            'CANCEL': (b'CANCEL', ('CANCEL', None)),
            'ERROR': (b'ERROR some text', ('ERROR', None)),
            'BEGIN': (b'BEGIN', ('BEGIN', None)),
            'BEGIN_msg': (b'BEGIN', ('BEGIN', None)),
            'NEGOTIATE_UNIX_FD': (b'NEGOTIATE_UNIX_FD', ('NEGOTIATE_UNIX_FD', None)),
            'UNKNOWN': (b'EXTENSION_FOO bar', ('UNKNOWN', None)),
            'NONASCII': (b'\xc3\xa9\xff', ('NONASCII', None)),
            'lowercase': (b'auth EXTERNAL ' + hx(own), ('lowercase', None)),
        }
        if c in t:
            return t[c]
        if c == 'LONGLINE':
            return (b'AUTH ' + b'A' * (17 * 1024), ('LONGLINE', None))
        if c.startswith('DATA_cookie'):
            if self.challenge and self.m.cookie_stage == 'challenged':
                ctx, cid, sch = self.challenge
                cookie = self.read_cookie(ctx, cid)
                cch = b'0badc0de'
                good = hashlib.sha1(sch + b':' + cch + b':' + (cookie or b'?')).hexdigest().encode()
                if c == 'DATA_cookie_ok' and cookie:
                    return (b'DATA ' + hx(cch + b' ' + good), ('DATA', 'COOKIE-OK'))
                if c == 'DATA_cookie_wronghash':
                    return (b'DATA ' + hx(cch + b' ' + good[::-1]), ('DATA', b'wrong'))
                # near misses of the right response: only the exact 40-digit hash is the correct response
                if c == 'DATA_cookie_prefix4':
                    return (b'DATA ' + hx(cch + b' ' + good[:4]), ('DATA', b'wrong'))
                if c == 'DATA_cookie_prefix39':
                    return (b'DATA ' + hx(cch + b' ' + good[:39]), ('DATA', b'wrong'))
                if c == 'DATA_cookie_junk':
                    return (b'DATA ' + hx(cch + b' ' + good + b'00'), ('DATA', b'wrong'))
                if c == 'DATA_cookie_nohash':
                    return (b'DATA ' + hx(cch + b' '), ('DATA', b'wrong'))
                return (b'DATA ' + hx(b'onlyonefield'), ('DATA', b'wrong'))
            return (b'DATA ' + hx(b'0badc0de 0000000000000000000000000000000000000000'), ('DATA', b'wrong'))
        raise ValueError(c)

    def read_cookie(self, ctx, cid):
        try:
            for l in open(os.path.join(self.keyring, ctx.decode())):
                f = l.split()
                if len(f) == 3 and f[0].encode() == cid:
                    return f[2].encode()
        except OSError:
            pass
        return None

    # ---- execution ---------------------------------------------------------------
    def feed(self, data):
        if self.chunk == 'bytes' and len(data) < 200:
            r = None
            outs = b''
            for i in range(len(data)):
                r = self.h.cmd('FEED ' + data[i:i + 1].hex())
                kv = parse_kv(r)
                if kv['out'] != '-':
                    outs += bytes.fromhex(kv['out'])
            kv = parse_kv(r)
            kv['out'] = outs.hex() if outs else '-'
            return kv
        return parse_kv(self.h.cmd('FEED ' + data.hex()))

    def classify(self, out):
        """Server output bytes -> list of response classes."""
        res = []
        for ln in out.split(b'\r\n'):
            if not ln:
                continue
            w = ln.split(b' ')[0]
            if w == b'REJECTED':
                mechs = ln.split(b' ')[1:]
                if sorted(m.decode() for m in mechs) != sorted(self.mechs):
                    res.append('REJECTED-wrong-mechs:%s' % b' '.join(mechs).decode())
                else:
                    res.append('REJECTED')
            elif w == b'OK':
                res.append('OK' if ln == b'OK ' + GUID else 'OK-badguid')
            elif w == b'DATA':
                payload = ln[5:]
                try:
                    dec = bytes.fromhex(payload.decode()) if payload else b''
                except ValueError:
                    dec = None
                if dec is not None and len(dec.split(b' ')) == 3 and dec:
                    self.challenge = tuple(dec.split(b' '))
                    res.append('DATA-CHALLENGE')
                else:
                    res.append('DATA')
            elif w == b'ERROR':
                res.append('ERROR')
            elif w == b'AGREE_UNIX_FD':
                res.append('AGREE_UNIX_FD')
            else:
                res.append('JUNK:%r' % ln[:30])
        return res

    def apply(self, op):
        out = []
        c = op[0]
        text, (cmd, arg) = self.line(c)
        data = text + b'\r\n'
        trailing = b''
        if c == 'BEGIN_msg':
            trailing = b'l\x01\x00\x01tail'
            data += trailing
        if c == 'LONGLINE':
            data = text        # no line terminator at all: must hit the buffering cap
        before = self.m.key()
        exp = self.m.step(cmd, arg)
        kv = self.feed(data)
        got = self.classify(bytes.fromhex(kv['out']) if kv['out'] != '-' else b'')
        st = kv['state']
        self.impl_state = st
        self.impl_dump = re.sub(r'cookie_id=-?\d+', 'cookie_id=*', re.sub(r'pid=\d+', 'pid=*', kv.get('dump', '')))
        self.hit('cmd-' + cmd)
        desc = '%s in %r' % (c, before)
        # outcome alternatives
        if exp == 'NAME':
            # a user NAME as EXTERNAL identity: accepting it (as that user, if it is the socket's user) or rejecting are both allowed
            if got == ['OK'] and self.m.creds == 0:
                self.m.ok(('uid', 0))
            elif got in (['REJECTED'], ['REJECTED', 'DISCONNECT']) or (got == ['REJECTED'] and st == 'disconnect'):
                self.m.reject()
            else:
                out.append(Violation('response', 'external-name', '%s: answered %r' % (desc, got), None))
                return out
            exp = None
        elif exp == 'DATA-or-REJECTED':
            if got == ['DATA']:
                self.m.state = 'WaitingForData'
                self.m.mech = arg[0] if cmd == 'AUTH' else self.m.mech
            elif got and got[0] == 'REJECTED':
                self.m.reject()
            else:
                out.append(Violation('response', 'no-initial-response', '%s: answered %r' % (desc, got), None))
                return out
            exp = None
        elif exp == 'REJECTED-or-ERROR':
            if got == ['ERROR']:
                pass
            elif got and got[0] == 'REJECTED':
                self.m.reject()
            else:
                out.append(Violation('response', 'bad-hex', '%s: answered %r' % (desc, got), None))
                return out
            exp = None
        if exp is not None:
            want = [e for e in exp if e not in ('NOTHING', 'DISCONNECT')]
            if got != want:
                if 'OK' in got and 'OK' not in want:
                    clause = 'authenticated-without-valid-exchange'
                elif 'OK' in want and 'OK' not in got:
                    clause = 'valid-exchange-refused'
                else:
                    clause = 'response'
                out.append(Violation(clause, '%s:%s' % (before[0], cmd if cmd != 'AUTH' else 'AUTH-' + str(arg[0])), '%s: server answered %r, specification prescribes %r' % (desc, got, want), None))
                return out
        # end state
        want_state = {'WaitingForAuth': 'waiting', 'WaitingForData': 'waiting', 'WaitingForBegin': 'waiting',
                      'Authenticated': 'authenticated', 'Disconnected': 'disconnect'}[self.m.state]
        if st != want_state:
            clause = 'authenticated-without-valid-exchange' if st == 'authenticated' else ('not-disconnected' if want_state == 'disconnect' else 'end-state')
            out.append(Violation(clause, '%s:%s' % (before[0], cmd), '%s: implementation state %s, model %s' % (desc, st, self.m.state), None))
            return out
        if self.m.state == 'Authenticated':
            self.hit('authenticated-' + self.m.identity[0])
            ident = kv['identity']
            want_id = str(self.m.identity[1]) if self.m.identity[0] == 'uid' else 'anon'
            if ident != want_id:
                out.append(Violation('identity', self.m.identity[0], '%s: identity reported %s, the mechanism established %s' % (desc, ident, want_id), None))
            unused = kv['unused']
            want_unused = trailing.hex() if trailing else '-'
            if unused != want_unused:
                out.append(Violation('unused-bytes', 'after-begin', '%s: unused bytes %s, expected %s' % (desc, unused, want_unused), None))
            if (kv['fdneg'] == '1') != self.m.fdneg:
                out.append(Violation('fd-negotiation', 'flag', '%s: fd negotiated=%s, model %s' % (desc, kv['fdneg'], self.m.fdneg), None))
        elif kv['unused'] not in ('n/a', '-') and st != 'disconnect':
            out.append(Violation('unused-bytes', 'before-begin', '%s: bytes %s treated as message data before BEGIN' % (desc, kv['unused']), None))
        return out

    def key(self):
        # the implementation's own state (hook H2) is part of the key: two histories are only merged if the DBusAuth object
        # itself is in the same state, not merely the model
        return repr(self.m.key()) + '|' + self.impl_state + '|' + self.impl_dump

    def died(self):
        self.h.close()

    def close(self):
        pass


# ---- bus level ---------------------------------------------------------------

def task_bus(t):
    """Raw handshakes against an in-process bus: (uid, config name, list of line sequences)."""
    uid, cfgname, seqs = t
    cfgs = {'default': B.make_config(), 'external-only': B.make_config(auth=['EXTERNAL']),
            'anonymous': B.make_config(auth=['ANONYMOUS'], allow_anonymous=True), 'anonymous-not-allowed': B.make_config(auth=['ANONYMOUS'])}
    allowed = {'default': ALL_MECHS, 'external-only': ['EXTERNAL'], 'anonymous': ['ANONYMOUS'], 'anonymous-not-allowed': ['ANONYMOUS']}[cfgname]
    bus = worker_bus()
    out = []
    n = 0
    for seq in seqs:
        case = {'bus': [uid, cfgname, seq]}
        try:
            bus.reset(cfgs[cfgname])
            c = bus.rawconnect(uid)
            bus.rawmode.add(c)
            m = Model(uid, allowed, True)
            got_all = b''
            bus.send(c, b'\0')
            for cname in seq:
                s = Session.__new__(Session)
                s.m = m
                s.mechs = allowed
                s.challenge = None
                text, (cmd, arg) = Session.line(s, cname)
                exp = m.step(cmd, arg)
                o = bus.step(c, text + b'\r\n', raw=True)
                raw = o[c].raw if c in o else b''
                got = ['OK' if g == 'OK-badguid' else g for g in Session.classify(s, raw)]
                if exp == 'DATA-or-REJECTED':
                    if got == ['DATA']:
                        m.state = 'WaitingForData'
                        m.mech = arg[0] if cmd == 'AUTH' else m.mech
                    elif got and got[0] == 'REJECTED':
                        m.reject()
                    continue
                if exp in ('NAME', 'REJECTED-or-ERROR'):
                    if got and got[0] == 'REJECTED':
                        m.reject()
                    elif got == ['OK']:
                        m.ok(('uid', uid))
                    continue
                want = [e for e in exp if e not in ('NOTHING', 'DISCONNECT')]
                if got != want:
                    out.append(Violation('response', 'bus:%s' % cmd, 'uid %d config %s sequence %r: %s answered %r, specification %r' % (uid, cfgname, seq, cname, got, want), case))
                    break
            else:
                n += 1
                # Hello is answered iff the model says authenticated (and an anonymous peer is admitted only with <allow_anonymous/>)
                bus.rawmode.discard(c)
                o = bus.step(c, R.encode_message(R.bus_call(1, 'Hello')))
                rep = B.find_reply(o.get(c), 1)
                admitted = m.state == 'Authenticated' and not (m.identity == ('anon',) and cfgname != 'anonymous')
                if admitted != (rep is not None and rep.mtype == R.MT_RETURN):
                    clause = 'authenticated-without-valid-exchange' if rep is not None and rep.mtype == R.MT_RETURN else 'valid-exchange-refused'
                    out.append(Violation(clause, 'bus:Hello', 'uid %d config %s sequence %r: Hello answered %r, model state %s identity %r' % (uid, cfgname, seq, rep, m.state, m.identity), case))
                elif admitted and m.identity[0] == 'uid':
                    o = bus.step(c, R.encode_message(R.bus_call(2, 'GetConnectionUnixUser', [R.S(rep.body[0][1])])))
                    r2 = B.find_reply(o.get(c), 2)
                    if r2 is None or r2.mtype != R.MT_RETURN or r2.body[0][1] != uid:
                        out.append(Violation('identity', 'bus:GetConnectionUnixUser', 'uid %d config %s: the bus reports %r' % (uid, cfgname, r2), case))
                if admitted and rep is not None and rep.mtype == R.MT_RETURN:
                    # the identity the application sees through the other accessor: GetConnectionCredentials must name the
                    # user the MECHANISM established - a uid for EXTERNAL, none at all for ANONYMOUS (whatever the socket says)
                    o = bus.step(c, R.encode_message(R.bus_call(3, 'GetConnectionCredentials', [R.S(rep.body[0][1])])))
                    r3 = B.find_reply(o.get(c), 3)
                    creds = None
                    if r3 is not None and r3.mtype == R.MT_RETURN and r3.body:
                        creds = {k[1]: v for (_, (k, v)) in r3.body[0][1]}
                    if creds is None:
                        out.append(Violation('identity', 'bus:GetConnectionCredentials', 'uid %d config %s sequence %r: no credentials reported: %r' % (uid, cfgname, seq, r3), case))
                    else:
                        seen_uid = creds.get(b'UnixUserID')
                        seen_uid = seen_uid[1][1] if seen_uid is not None else None
                        want_uid = uid if m.identity[0] == 'uid' else None
                        if seen_uid != want_uid:
                            out.append(Violation('identity', 'bus:GetConnectionCredentials', 'uid %d config %s sequence %r: the mechanism established %r, GetConnectionCredentials reports UnixUserID %r (all keys: %r)' %
                                                 (uid, cfgname, seq, m.identity, seen_uid, sorted(creds)), case))
                        if m.identity == ('anon',):
                            # ANONYMOUS establishes no user, no groups and no security label: whatever the socket could tell
                            # about the peer is not part of its identity (the process id is reported for any local peer)
                            extra = sorted(k for k in creds if k not in (b'ProcessID',))
                            if extra:
                                out.append(Violation('identity', 'bus:GetConnectionCredentials:anonymous', 'uid %d config %s sequence %r: an ANONYMOUS peer is reported with %r' % (uid, cfgname, seq, extra), case))
                            o = bus.step(c, R.encode_message(R.bus_call(4, 'GetConnectionUnixUser', [R.S(rep.body[0][1])])))
                            r4 = B.find_reply(o.get(c), 4)
                            if r4 is None or r4.mtype != R.MT_ERROR:
                                out.append(Violation('identity', 'bus:GetConnectionUnixUser', 'uid %d config %s: an anonymous peer is reported as user %r' % (uid, cfgname, r4), case))
        except HarnessDied as e:
            out.append(crash_violation(e, case))
            bus.h.close()
    return {'viol': [v.to_json() for v in out], 'n': n}


# ---- final admission: the bus's connect rules ------------------------------------------------------------------------

ADM_SUBJECTS = [('user', '*'), ('user', '0'), ('user', '65534'), ('group', '*'), ('group', '0'), ('group', '65534')]
ADM_UIDS = [0, 65534]


def admission_configs():
    import itertools
    atoms = [(ctx_, act, kind, val) for ctx_ in ('default', 'mandatory') for act in ('allow', 'deny') for kind, val in ADM_SUBJECTS]
    out = [[]] + [[a] for a in atoms] + [list(t) for t in itertools.product(atoms, repeat=2)]
    return out


def admission_model(rules, uid):
    """The documented evaluation: the user that owns the bus may connect by default; then the default context's rules, then
    the mandatory context's, each in file order; the last matching rule decides."""
    import pwd
    import os
    try:
        pw = pwd.getpwuid(uid)
        groups = set(os.getgrouplist(pw.pw_name, pw.pw_gid))
    except KeyError:
        return None
    allowed = (uid == os.geteuid())
    for want_ctx in ('default', 'mandatory'):
        for ctx_, act, kind, val in rules:
            if ctx_ != want_ctx:
                continue
            if kind == 'user':
                m = val == '*' or int(val) == uid
            else:
                m = val == '*' or int(val) in groups
            if m:
                allowed = (act == 'allow')
    return allowed


def task_admission(cfgs):
    bus = worker_bus()
    out = []
    n = 0
    for rules in cfgs:
        sect = {'default': '', 'mandatory': ''}
        for ctx_, act, kind, val in rules:
            sect[ctx_] += '    <%s %s="%s"/>\n' % (act, kind, val)
        # the mandatory section is written FIRST in the file: the contexts are evaluated in their documented order, not file order
        policy = ('  <policy context="mandatory">\n' + sect['mandatory'] + '  </policy>\n'
                  '  <policy context="default">\n    <allow send_destination="*" eavesdrop="true"/>\n    <allow eavesdrop="true"/>\n    <allow own="*"/>\n' + sect['default'] + '  </policy>\n')
        for uid in ADM_UIDS:
            want = admission_model(rules, uid)
            if want is None:
                continue
            case = {'admission': [[list(r) for r in rules], uid]}
            try:
                bus.reset(B.make_config(policy=policy, auth=['EXTERNAL']))
                c = bus.rawconnect(uid)
                bus.rawmode.add(c)
                o = bus.step(c, b'\0AUTH EXTERNAL ' + str(uid).encode().hex().encode() + b'\r\n', raw=True)
                raw = o[c].raw if c in o else b''
                if not raw.startswith(b'OK '):
                    out.append(Violation('response', 'admission:EXTERNAL', 'uid %d with its own identity was answered %r' % (uid, raw), case))
                    continue
                bus.step(c, b'BEGIN\r\n', raw=True)
                bus.rawmode.discard(c)
                o = bus.step(c, R.encode_message(R.bus_call(1, 'Hello')))
                rep = B.find_reply(o.get(c), 1)
                got = rep is not None and rep.mtype == R.MT_RETURN
                n += 1
                if got != want:
                    out.append(Violation('authenticated-without-valid-exchange' if got else 'valid-exchange-refused', 'admission:%s' % '+'.join(sorted({r[0] for r in rules})),
                                         'connect rules %r, uid %d: Hello %s, the documented evaluation %s the connection' % (rules, uid, 'answered' if got else 'not answered', 'admits' if want else 'refuses'), case))
            except HarnessDied as e:
                out.append(crash_violation(e, case))
                bus.h.close()
    return {'viol': [v.to_json() for v in out[:6]], 'n': n}


# ---- DBUS_COOKIE_SHA1: cookies that are old or dated in the future -------------------------------------------------------

NOW_REAL = 601000000          # harness/vauth's virtual wall clock, seconds
COOKIE_AGES = [-10 * 365 * 86400, -86400, -3600, 3600, 86400, 10 * 365 * 86400]


def task_cookie_age(deltas):
    """The specification asks the server to delete cookies that are old or 'more than a reasonable time in the future' when it
    loads the keyring.  A planted cookie dated an hour or more away from now (either way) must be neither offered in a
    challenge nor accepted, and must be gone from the keyring file afterwards."""
    import hashlib
    out = []
    n = 0
    for delta in deltas:
        case = {'cookie_age': delta}
        try:
            h = worker_harness('vauth', args=[])
            if h.proc is not None:
                h.restart()
            else:
                h.start()
            kd = os.path.join(h.rundir, '.dbus-keyrings')
            os.makedirs(kd, mode=0o700, exist_ok=True)
            os.chmod(kd, 0o700)
            planted = b'c0ffee' * 8
            with open(os.path.join(kd, 'org_freedesktop_general'), 'w') as f:
                f.write('4242 %d %s\n' % (NOW_REAL + delta, planted.decode()))
            os.chmod(os.path.join(kd, 'org_freedesktop_general'), 0o600)
            r = h.cmd('NEW 0 DBUS_COOKIE_SHA1 1')
            if not r.startswith('OK'):
                out.append(Violation('harness', 'cookie-age', r[:200], case))
                continue
            r = h.cmd('FEED ' + (b'AUTH DBUS_COOKIE_SHA1 ' + hx(b'root') + b'\r\n').hex())
            kv = parse_kv(r)
            sent = bytes.fromhex(kv.get('out', '')) if kv.get('out', '-') not in ('-', '') else b''
            n += 1
            if not sent.startswith(b'DATA '):
                out.append(Violation('response', 'cookie-age', 'AUTH DBUS_COOKIE_SHA1 for root answered %r' % sent, case))
                continue
            ctxname, cid, sch = bytes.fromhex(sent[5:].strip().decode()).split(b' ')
            if cid == b'4242':
                out.append(Violation('response', 'cookie-age:offered', 'the server challenges with a keyring cookie dated %+d s from now' % delta, case))
                continue
            # answering with the planted cookie under its own id must not work either
            cch = b'636c69656e74'
            resp = hashlib.sha1(sch + b':' + cch + b':' + planted).hexdigest().encode()
            r = h.cmd('FEED ' + (b'DATA ' + hx(cch + b' ' + resp) + b'\r\n').hex())
            kv = parse_kv(r)
            sent = bytes.fromhex(kv.get('out', '')) if kv.get('out', '-') not in ('-', '') else b''
            if sent.startswith(b'OK'):
                out.append(Violation('response', 'cookie-age:accepted', 'a response computed from a cookie dated %+d s from now was accepted' % delta, case))
            left = open(os.path.join(kd, 'org_freedesktop_general')).read()
            if '4242 ' in left:
                out.append(Violation('stale-cookie-kept', 'cookie-age', 'the keyring still holds the cookie dated %+d s from now after it was loaded: %r' % (delta, left[:200]), case))
        except HarnessDied as e:
            out.append(crash_violation(e, case))
    return {'viol': [v.to_json() for v in out], 'n': n}


TCP_IDENTITIES = ['', '0', '1000', '65534', '4294967294', '4294967295', '18446744073709551615', '-1']


def task_tcp(idents):
    """A peer that connects over TCP has no socket credentials: whatever identity it claims, EXTERNAL cannot match them."""
    import socket
    bus = worker_bus()
    out = []
    n = 0
    for ident in idents:
        for via_data in (False, True):
            case = {'tcp': [ident, via_data]}
            try:
                sk = socket.socket()
                sk.bind(('127.0.0.1', 0))
                port = sk.getsockname()[1]
                sk.close()
                bus.reset(B.make_config(auth=['EXTERNAL'], extra='  <listen>tcp:host=127.0.0.1,port=%d</listen>\n' % port))
                c = bus.rawconnect(0, tcp_port=port)
                bus.rawmode.add(c)
                hexid = ident.encode().hex().encode()
                if via_data:
                    o = bus.step(c, b'\0AUTH EXTERNAL\r\n', raw=True)
                    first = o[c].raw if c in o else b''
                    o = bus.step(c, b'DATA ' + hexid + b'\r\n', raw=True)
                    raw = first + (o[c].raw if c in o else b'')
                else:
                    o = bus.step(c, b'\0AUTH EXTERNAL ' + hexid + b'\r\n', raw=True)
                    raw = o[c].raw if c in o else b''
                n += 1
                if b'OK ' in raw:
                    out.append(Violation('response', 'tcp:EXTERNAL', 'a peer connected over TCP (no socket credentials) claimed identity %r with EXTERNAL (%s) and was answered %r' % (ident, 'DATA' if via_data else 'initial response', raw), case))
                    continue
                o = bus.step(c, b'BEGIN\r\n', raw=True)
                bus.rawmode.discard(c)
                o = bus.step(c, R.encode_message(R.bus_call(1, 'Hello')))
                rep = B.find_reply(o.get(c), 1)
                if rep is not None and rep.mtype == R.MT_RETURN:
                    out.append(Violation('authenticated-without-valid-exchange', 'tcp:Hello', 'TCP peer claiming %r: Hello answered %r' % (ident, rep), case))
            except HarnessDied as e:
                out.append(crash_violation(e, case))
                bus.h.close()
    return {'viol': [v.to_json() for v in out], 'n': n}


def bus_sequences(depth):
    cmds = ['AUTH', 'AUTH_EXT', 'AUTH_EXT_own', 'AUTH_EXT_other', 'AUTH_ANON', 'AUTH_BOGUS', 'DATA_empty', 'DATA_own', 'CANCEL', 'ERROR', 'BEGIN', 'NEGOTIATE_UNIX_FD', 'UNKNOWN']
    import itertools
    seqs = []
    for d in range(1, depth + 1):
        for s in itertools.product(cmds, repeat=d):
            if 'BEGIN' in s[:-1]:
                continue
            seqs.append(list(s))
    return seqs


def run(ctx):
    quick = ctx.tier == 'quick'
    total_states = total_trans = 0
    settings = []
    for creds in (0, 1000, None):
        for mechs in ('all', 'EXTERNAL', 'DBUS_COOKIE_SHA1', 'ANONYMOUS'):
            for chunk in ('whole', 'bytes'):
                settings.append({'creds': creds, 'mechs': mechs, 'fd': 1, 'chunk': chunk})
    settings.append({'creds': 1000, 'mechs': 'all', 'fd': 0, 'chunk': 'whole'})
    per = []
    for p in settings:
        if ctx.expired():
            ctx.incomplete('deadline before setting %r' % p)
            break
        st = explore.bfs(ctx, FACTORY, p, max_depth=12 if quick else 16, ops_chunk=15)
        total_states += st['states']
        total_trans += st['transitions']
        per.append({'setting': p, 'states': st['states'], 'transitions': st['transitions'], 'depth': st['completed_depth'], 'fixpoint': st['fixpoint']})
    # bus level
    seqs = bus_sequences(2 if quick else 3)
    tasks = []
    for uid in (0, 1000):
        for cfg in ('default', 'external-only', 'anonymous', 'anonymous-not-allowed'):
            for i in range(0, len(seqs), 60):
                tasks.append((uid, cfg, seqs[i:i + 60]))
    pool = Pool()
    nbus = 0
    ntcp = 0
    try:
        for r in pool.imap(task_tcp, [[i] for i in TCP_IDENTITIES]):
            if '__crash__' in r:
                ctx.add_violation(Violation('crash', r['__crash__'], r['stderr'], {'task': r['task']}))
                continue
            ctx.add_violations(r['viol'])
            ntcp += r['n']
        for r in pool.imap(task_cookie_age, [[d] for d in COOKIE_AGES]):
            if '__crash__' in r:
                ctx.add_violation(Violation('crash', r['__crash__'], r['stderr'], {'task': r['task']}))
                continue
            ctx.add_violations(r['viol'])
        acfg = admission_configs()
        nadm = 0
        for r in pool.imap(task_admission, [acfg[i:i + 12] for i in range(0, len(acfg), 12)]):
            if '__crash__' in r:
                ctx.add_violation(Violation('crash', r['__crash__'], r['stderr'], {'task': r['task']}))
                continue
            ctx.add_violations(r['viol'])
            nadm += r['n']
        ctx.coverage['admission_decisions'] = nadm
        for r in pool.imap(task_bus, tasks):
            if '__crash__' in r:
                ctx.add_violation(Violation('crash', r['__crash__'], r['stderr'], {'task': r['task']}))
                continue
            ctx.add_violations(r['viol'])
            nbus += r['n']
    finally:
        pool.close()
    ctx.coverage.update({
        'states': total_states, 'transitions': total_trans + nbus, 'traces_validated_against_impl': total_trans + nbus,
        'settings': per[:6] + ([{'more': len(per) - 6}] if len(per) > 6 else []), 'bus_level_handshakes': nbus, 'tcp_external_claims': ntcp,
        'bound': '%d settings (credentials x allowed mechanisms x {whole lines, byte by byte}); %d commands; BFS to fix-point or depth %d per setting; bus level: all sequences of <= %d of 13 commands for 2 uids x 4 configurations' %
                 (len(settings), len(COMMANDS), 12 if quick else 16, 2 if quick else 3),
    })
    ctx.sample({'setting': {'creds': 1000, 'mechs': 'all'}, 'history': [['AUTH_EXT_own'], ['CANCEL'], ['AUTH_ANON'], ['BEGIN_msg']], 'expect': 'identity anonymous, never uid 1000'})
    ctx.assumptions = ['the model (specification server table + mechanism definitions)', 'hashlib.sha1']
    ctx.replay_fn = replay


def replay(case):
    if 'cookie_age' in case:
        return [Violation.from_json(v) for v in task_cookie_age([case['cookie_age']])['viol']]
    if 'admission' in case:
        return [Violation.from_json(v) for v in task_admission([[tuple(r) for r in case['admission'][0]]])['viol']]
    if 'tcp' in case:
        return [Violation.from_json(v) for v in task_tcp([case['tcp'][0]])['viol']]
    if 'bus' in case:
        uid, cfg, seq = case['bus']
        r = task_bus((uid, cfg, [seq]))
        return [Violation.from_json(v) for v in r['viol']]
    return explore.replay_history(FACTORY, case['params'], case['history'])
