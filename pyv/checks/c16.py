"""C16 — name, path, signature and UTF-8 predicates accept exactly the
specified grammars, identically through every entry point.

Exhaustive enumeration: every string up to length L over a class alphabet per
grammar (verdicts come back as one hex digit per string from vbox VALENUM,
which enumerates in the same canonical order as itertools.product), length
boundary strings, nesting ladders, and the same strings placed into message
header/body fields (message parser) and into RequestName / AddMatch at an
in-process bus."""
import itertools

from .. import grammars as G
from .. import refdbus as R
from ..engine import Pool, Violation, worker_harness, worker_bus, crash_violation
from ..vbox import HarnessDied, parse_kv
from ..registry import claim
from .. import busbox as B

claim('C16', 'exploration',
      'exhaustive enumeration of all strings up to a length bound over class alphabets, per grammar and entry point, against independent grammar predicates',
      'Every string of length <= L over a per-grammar class alphabet (plus 255-limit and nesting-limit ladders) is run through the '
      'public validators, the internal length-taking validators (at offset 0 and embedded at a non-zero offset), the message parser and the bus '
      '(RequestName/AddMatch); each verdict must equal an independent transcription of the specification grammar and all entry points must agree. Every continuation by <= 2 alphabet characters of seven names the code base treats specially (driver name, local interface and path, an error name, a unique name) goes through every route, DESTINATION and SENDER fields included.',
      'Trusts pyv/grammars.py (two independent formulations cross-checked in setup). Strings longer than the bound are covered only by the ladders.',
      'DESIGN.md section 4 C16')

NAME_ALPHA = [b'a', b'Z', b'_', b'0', b'-', b'.', b'/', b':', b' ', b'\x00', b'\x80']
SIG_FULL = [bytes([c]) for c in b'ybnqiuxtdsoghva(){}'] + [b'z', b'r']
SIG_SMALL = [bytes([c]) for c in b'ias(){}v']
UTF8_ALPHA = [bytes([c]) for c in (0x00, 0x41, 0x7f, 0x80, 0x8f, 0x90, 0x9f, 0xa0, 0xbf, 0xc0, 0xc1, 0xc2, 0xdf, 0xe0,
                                   0xe1, 0xec, 0xed, 0xee, 0xef, 0xf0, 0xf1, 0xf3, 0xf4, 0xf5, 0xff)]

NAME_KINDS = ['bus', 'iface', 'member', 'error', 'path']


# names the code base itself treats specially somewhere (driver, local interface and path, error namespace, a unique name):
# every continuation of them by up to two more alphabet characters is enumerated too, through every route
SPECIAL_PREFIXES = [b'org.freedesktop.DBus', b'org.freedesktop.DBus.Local', b'/org/freedesktop/DBus', b'/org/freedesktop/DBus/Local',
                    b'org.freedesktop.DBus.Error.Failed', b'org.freedesktop.DBus.Peer', b':1.0']


def enum_strings(alpha, maxlen, prefix=b''):
    for extra in range(0, maxlen - len(prefix) + 1):
        for t in itertools.product(alpha, repeat=extra):
            yield prefix + b''.join(t)


def judge(kind, s, bits, out, hits):
    """bits: 1 internal, 2 embedded-at-offset, 4 public, 8 public applicable."""
    if G.is_gray(kind, s):
        hits['unspecified'] = hits.get('unspecified', 0) + 1
        return
    ref = G.is_valid(kind, s)
    internal = bool(bits & 1)
    emb = bool(bits & 2)
    pub = bool(bits & 4) if bits & 8 else None
    hits['valid' if ref else 'invalid'] = hits.get('valid' if ref else 'invalid', 0) + 1
    why = G.why_invalid(kind, s)
    case = {'phase': 'validate', 'kind': kind, 'string': s.hex()}
    for name, verdict in (('internal', internal), ('embedded', emb), ('public', pub)):
        if verdict is None or verdict == ref:
            continue
        if verdict and not ref:
            out.append(Violation('accepted-but-invalid', '%s:%s' % (kind, why),
                                 '%s validator (%s) accepts %r which the specification grammar rejects (%s)' % (kind, name, s, why), case))
        else:
            out.append(Violation('rejected-but-valid', '%s:%s' % (kind, name),
                                 '%s validator (%s) rejects %r which the specification grammar accepts' % (kind, name, s), case))


def task_valenum(t):
    kind, alpha, maxlen, prefix = t
    h = worker_harness('vbox')
    out, hits = [], {}
    try:
        r = h.cmd('VALENUM %s %s %d %s' % (kind, b''.join(alpha).hex(), maxlen, prefix.hex() if prefix else '-'), timeout=600)
    except HarnessDied as e:
        return {'viol': [crash_violation(e, {'phase': 'valenum', 'task': [kind, b''.join(alpha).hex(), maxlen, prefix.hex()]}).to_json()],
                'n': 0, 'hits': {}, 'nontrivial': 0}
    kv = parse_kv(r)
    verd = kv['v']
    n = 0
    for s, ch in zip(enum_strings(alpha, maxlen, prefix), verd):
        judge(kind, s, int(ch, 16), out, hits)
        n += 1
    assert n == int(kv['n']) == len(verd), (n, kv['n'], len(verd))
    return {'viol': [v.to_json() for v in out[:50]], 'nviol': len(out), 'n': n, 'hits': hits,
            'nontrivial': hits.get('valid', 0)}


def ladder_strings():
    """(kind, string) pairs around length and nesting limits."""
    out = []
    for total in range(252, 259):
        out.append(('member', b'a' * total))
        for kind in ('iface', 'error', 'bus'):
            out.append((kind, b'a' * (total - 2) + b'.b'))
            out.append((kind, b'.'.join([b'a'] * ((total + 1) // 2)) + (b'' if total % 2 else b'b')))
        out.append(('bus', b':' + b'1' * (total - 3) + b'.2'))
        out.append(('path', b'/' + b'a' * (total - 1)))
        out.append(('sig', b'i' * total))
        out.append(('sig', b'(' + b'i' * (total - 2) + b')'))
        out.append(('sig1', b'(' + b'i' * (total - 2) + b')'))
    for k in range(29, 36):
        out.append(('sig', b'a' * k + b'i'))
        out.append(('sig1', b'a' * k + b'i'))
        out.append(('sig', b'(' * k + b'i' + b')' * k))
        out.append(('sig1', b'(' * k + b'i' + b')' * k))
        out.append(('sig', b'a{s' * k + b'i' + b'}' * k))
        out.append(('sig', b'a(' * k + b'i' + b')' * k))
        out.append(('sig', b'a' * k + b'(' * k + b'i' + b')' * k))
        out.append(('sig', b'(' * k + b'a' * k + b'i' + b')' * k))
        out.append(('sig', b'(' * k + b'a{s' * 3 + b'i' + b'}' * 3 + b')' * k))
        out.append(('sig', b'a(' * (k - 1) + b'ai' + b')' * (k - 1)))
        out.append(('sig', b'a{s' * (k - 1) + b'ai' + b'}' * (k - 1)))
    # one odd byte / one multi-byte sequence at every position of long plain runs (a validator that takes several bytes
    # at a time must still look at each one): UTF-8 text of 8..33 bytes, names of 26 bytes
    specials = [b'\x00', b'\x80', b'\xc0', b'\xff', b'\xc3\xa9', b'\xe2\x82\xac', b'\xf0\x9f\x98\x80', b'\xe2\x82', b'\xed\xa0\x80', b'\xf4\x90\x80\x80']
    for L in (8, 9, 15, 16, 17, 24, 33):
        for pos in range(L):
            for sp in specials:
                out.append(('utf8', b'a' * pos + sp + b'a' * (L - pos - 1)))
    base = {'iface': b'abcdefgh.ijklmnop.qrstuvwx', 'error': b'abcdefgh.ijklmnop.qrstuvwx', 'bus': b'abcdefgh.ijklmnop.qrstuvwx', 'member': b'abcdefghijklmnopqrstuvwxyz',
            'path': b'/bcdefgh/ijklmnop/qrstuvwx'}
    for kind, b0 in base.items():
        for pos in range(len(b0)):
            for ch in (b'-', b'/', b'\x00', b'\x80', b'.', b'1', b' '):
                out.append((kind, b0[:pos] + ch + b0[pos + 1:]))
    # every kind of container open to (around) its own limit AT THE SAME TIME: 32 arrays + 32 dict entries + 32 structs
    for k in (31, 32, 33):
        for j in (31, 32, 33):
            out.append(('sig', b'a{s' * k + b'(' * j + b'i' + b')' * j + b'}' * k))
            out.append(('sig', b'(' * j + b'a{s' * k + b'i' + b'}' * k + b')' * j))
            out.append(('sig1', b'a{s' * k + b'(' * j + b'i' + b')' * j + b'}' * k))
    return out


def task_ladders(t):
    items = t
    h = worker_harness('vbox')
    out, hits = [], {}
    for kind, s in items:
        try:
            r = h.cmd('VALIDATE %s %s' % (kind, s.hex() or '-'))
        except HarnessDied as e:
            out.append(crash_violation(e, {'phase': 'validate', 'kind': kind, 'string': s.hex()}))
            continue
        judge(kind, s, int(parse_kv(r)['bits']), out, hits)
    return {'viol': [v.to_json() for v in out], 'nviol': len(out), 'n': len(items), 'hits': hits, 'nontrivial': hits.get('valid', 0)}


# ---- the signature iterator: what the public API says a valid signature consists of -------------------------------

def task_sigwalk(sigs):
    """For every VALID signature: walking it with DBusSignatureIter (current type, recurse, element type, next,
    get_signature) rebuilds exactly the signature, and the single complete types it reports are the grammar's."""
    h = worker_harness('vbox')
    out, hits = [], {}
    n = 0
    for sg in sigs:
        if not sg or G.is_gray('sig', sg) or not G.is_valid('sig', sg):
            continue
        case = {'phase': 'sigwalk', 'string': sg.hex()}
        try:
            r = h.cmd('SIGWALK ' + sg.decode('latin-1'))
        except HarnessDied as e:
            out.append(crash_violation(e, case))
            continue
        n += 1
        kv = parse_kv(r)
        want_parts = b','.join(G.split_signature(sg)) + b','
        if not r.startswith('OK') or kv.get('recon', '').encode('latin-1') != sg or kv.get('bad') != '0' or kv.get('parts', '').encode('latin-1') != want_parts:
            out.append(Violation('signature-api-disagrees', 'iterator', 'walking the valid signature %r with DBusSignatureIter gives %s (expected recon=%s bad=0 parts=%s)' %
                                 (sg, r[:200], sg.decode('latin-1'), want_parts.decode('latin-1')), case))
    hits['sigwalk'] = n
    return {'viol': [v.to_json() for v in out[:20]], 'nviol': len(out), 'n': n, 'hits': hits, 'nontrivial': n}


# ---- the same strings inside messages ------------------------------------

def embed_in_message(kind, s):
    """A message that is valid iff s is valid for kind (everything else is fine)."""
    if kind == 'bus':
        m = R.method_call(1, s, '/a', 'a.b', 'M')
    elif kind == 'sender':
        m = R.Msg(R.MT_SIGNAL, 0, 1, [(R.F_PATH, (b'o', b'/a')), (R.F_INTERFACE, (b's', b'a.b')), (R.F_MEMBER, (b's', b'M')), (R.F_SENDER, (b's', s))], [])
    elif kind == 'iface':
        m = R.method_call(1, None, '/a', s, 'M')
        if s == R.LOCAL_IFACE:
            return None
    elif kind == 'member':
        m = R.method_call(1, None, '/a', 'a.b', s)
    elif kind == 'error':
        m = R.error(1, 1, s)
    elif kind == 'path':
        m = R.method_call(1, None, '/a', 'a.b', 'M', [(b'o', s)])
    elif kind == 'sig':
        m = R.method_call(1, None, '/a', 'a.b', 'M', [(b'g', s)])
    elif kind == 'sig1':
        m = R.method_call(1, None, '/a', 'a.b', 'M', [(b'v', (s, None))])
        return None
    elif kind == 'utf8':
        m = R.method_call(1, None, '/a', 'a.b', 'M', [(b's', s)])
    else:
        return None
    if kind == 'sig' and len(s) > 255:
        return None   # cannot be encoded in a 1-byte length
    return R.encode_message(m)


def task_messages(t):
    items = t
    h = worker_harness('vbox')
    out = []
    hits = {}
    n = 0
    for kind, s in items:
        data = embed_in_message(kind, s)
        if data is None:
            continue
        gk = 'bus' if kind == 'sender' else kind
        if G.is_gray(gk, s):
            continue
        n += 1
        ref = G.is_valid(gk, s)
        case = {'phase': 'message', 'kind': kind, 'string': s.hex()}
        try:
            r = h.cmd('DEMARSHAL ' + data.hex())
        except HarnessDied as e:
            out.append(crash_violation(e, case))
            continue
        acc = ' dm=1' in r
        hits['msg-valid' if ref else 'msg-invalid'] = hits.get('msg-valid' if ref else 'msg-invalid', 0) + 1
        if acc != ref:
            why = G.why_invalid(gk, s)
            if acc:
                out.append(Violation('accepted-but-invalid', 'message:%s:%s' % (kind, why),
                                     'message parser accepts a message whose %s value is %r (grammar: %s)' % (kind, s, why), case))
            else:
                out.append(Violation('rejected-but-valid', 'message:%s' % kind,
                                     'message parser rejects a message whose %s value %r is valid' % (kind, s), case))
    return {'viol': [v.to_json() for v in out[:50]], 'nviol': len(out), 'n': n, 'hits': hits, 'nontrivial': hits.get('msg-valid', 0)}


# ---- the same strings at the bus ------------------------------------------

BUS_ALPHA = [b'a', b'Z', b'_', b'0', b'-', b'.', b'/', b':', b' ']


def task_bus(t):
    """RequestName(name) and AddMatch(key='value') at an in-process bus."""
    items = t
    bus = worker_bus()
    out, hits = [], {}
    n = 0
    try:
        bus.reset(B.make_config())
        c = bus.connect(0)
        bus.hello(c)
        for kind, s in items:
            case = {'phase': 'bus', 'kind': kind, 'string': s.hex()}
            if kind == 'bus':
                ref = G.is_valid(kind, s)
                ser, o = bus.bus_method(c, 'RequestName', [R.S(s), R.U(0)])
                rep = B.find_reply(o.get(c), ser)
                if rep is None:
                    out.append(Violation('no-reply', 'bus:RequestName', 'no reply to RequestName(%r)' % s, case))
                    break
                n += 1
                # a syntactically valid name may still be refused for other reasons (unique names,
                # the bus's own name): those are InvalidArgs too, so only judge the direction
                # "grammar-invalid must be refused" plus "valid well-known names are granted"
                refused = rep.mtype == R.MT_ERROR
                hits['RequestName'] = hits.get('RequestName', 0) + 1
                if not ref and not refused:
                    out.append(Violation('accepted-but-invalid', 'bus:RequestName:%s' % G.why_invalid(kind, s),
                                         'RequestName accepted the invalid name %r' % s, case))
                if ref and s[:1] != b':' and s != R.BUS and refused:
                    out.append(Violation('rejected-but-valid', 'bus:RequestName',
                                         'RequestName refused the valid name %r with %r' % (s, rep.error_name), case))
                if not refused:
                    bus.bus_method(c, 'ReleaseName', [R.S(s)])
            else:
                key = {'iface': 'interface', 'member': 'member', 'path': 'path', 'sender': 'sender'}[kind]
                gk = 'bus' if kind == 'sender' else kind
                ref = G.is_valid(gk, s)
                rule = b"%s='%s'" % (key.encode(), s)
                ser, o = bus.bus_method(c, 'AddMatch', [R.S(rule)])
                rep = B.find_reply(o.get(c), ser)
                if rep is None:
                    out.append(Violation('no-reply', 'bus:AddMatch', 'no reply to AddMatch(%r)' % rule, case))
                    break
                n += 1
                refused = rep.mtype == R.MT_ERROR
                hits['AddMatch'] = hits.get('AddMatch', 0) + 1
                if refused != (not ref):
                    if refused:
                        out.append(Violation('rejected-but-valid', 'bus:AddMatch:%s' % kind,
                                             'AddMatch(%r) refused with %r although the value is valid' % (rule, rep.error_name), case))
                    else:
                        out.append(Violation('accepted-but-invalid', 'bus:AddMatch:%s:%s' % (kind, G.why_invalid(gk, s)),
                                             'AddMatch(%r) accepted although the value is invalid' % rule, case))
                if not refused:
                    bus.bus_method(c, 'RemoveMatch', [R.S(rule)])
    except HarnessDied as e:
        out.append(crash_violation(e, {'phase': 'bus', 'items': [(k, s.hex()) for k, s in items][:50]}))
        bus.h.close()
    return {'viol': [v.to_json() for v in out[:50]], 'nviol': len(out), 'n': n, 'hits': hits, 'nontrivial': n}


def build_tasks(tier):
    tasks = []
    # the small, targeted sets first (limit ladders, continuations of special names): they survive a deadline cut
    lad0 = ladder_strings()
    for i in range(0, len(lad0), 40):
        tasks.append((task_ladders, lad0[i:i + 40]))
    for kind in NAME_KINDS:
        for p in SPECIAL_PREFIXES:
            tasks.append((task_valenum, (kind, NAME_ALPHA, len(p) + 2, p)))
    name_len = 6 if tier == 'quick' else 7
    for kind in NAME_KINDS:
        tasks.append((task_valenum, (kind, NAME_ALPHA, 1, b'')))
        for a in NAME_ALPHA:
            for b_ in NAME_ALPHA:
                tasks.append((task_valenum, (kind, NAME_ALPHA, name_len, a + b_)))
    full_len, small_len = (4, 8) if tier == 'quick' else (5, 8)
    for kind in ('sig', 'sig1'):
        tasks.append((task_valenum, (kind, SIG_FULL, 0, b'')))
        for a in SIG_FULL:
            tasks.append((task_valenum, (kind, SIG_FULL, full_len, a)))
        tasks.append((task_valenum, (kind, SIG_SMALL, 1, b'')))
        for a in SIG_SMALL:
            for b_ in SIG_SMALL:
                tasks.append((task_valenum, (kind, SIG_SMALL, small_len, a + b_)))
    tasks.append((task_valenum, ('utf8', UTF8_ALPHA, 0, b'')))
    for a in UTF8_ALPHA:
        tasks.append((task_valenum, ('utf8', UTF8_ALPHA, 4, a)))
        tasks.append((task_valenum, ('utf8', UTF8_ALPHA, 4 if tier == 'quick' else 5, b'a' + a)))
    lad = ladder_strings()
    walk = [sg for sg in enum_strings(SIG_SMALL, 5 if tier == 'quick' else 6)] + [sg for k, sg in lad if k == 'sig'] + \
           [bytes([c]) for c in b'ybnqiuxtdsoghv'] + [b'a' + bytes([c]) for c in b'ybnqiuxtdsoghv'] + [b'a{' + bytes([c]) + b'v}' for c in b'ybnqiuxtdsogh']
    for i in range(0, len(walk), 3000):
        tasks.append((task_sigwalk, walk[i:i + 3000]))
    # messages: all strings <= 3 (quick) / 4 over the class alphabet per kind + ladders
    mlen = 3 if tier == 'quick' else 4
    for kind in NAME_KINDS:
        items = [(kind, s) for s in enum_strings(NAME_ALPHA, mlen)]
        for i in range(0, len(items), 400):
            tasks.append((task_messages, items[i:i + 400]))
    for kind in NAME_KINDS + ['sender']:
        items = [(kind, s) for s in enum_strings(NAME_ALPHA, 2 if kind != 'sender' else 3)] if kind == 'sender' else []
        for p in SPECIAL_PREFIXES:
            items += [(kind, s) for s in enum_strings(NAME_ALPHA, len(p) + 2, p)]
        for i in range(0, len(items), 400):
            tasks.append((task_messages, items[i:i + 400]))
    items = [('sig', s) for s in enum_strings(SIG_SMALL, 4 if tier == 'quick' else 5)]
    items += [('utf8', s) for s in enum_strings(UTF8_ALPHA, 3)]
    items += [(k, s) for k, s in lad if k != 'sig1']
    for i in range(0, len(items), 400):
        tasks.append((task_messages, items[i:i + 400]))
    # bus
    blen = 3 if tier == 'quick' else 4
    items = [('bus', s) for s in enum_strings(BUS_ALPHA, blen)]
    for kind in ('iface', 'member', 'path', 'sender'):
        items += [(kind, s) for s in enum_strings(BUS_ALPHA, blen)]
    for kind in ('bus', 'iface', 'member', 'path', 'sender'):
        for p in SPECIAL_PREFIXES:
            items += [(kind, s) for s in enum_strings(BUS_ALPHA, len(p) + (1 if tier == 'quick' else 2), p)]
    # (strings that are not UTF-8 text make the carrying MESSAGE invalid - the message route judges those; here the sender is simply dropped)
    items += [(k, s) for k, s in lad if k in ('bus', 'iface', 'member', 'path') and len(s) < 900 and all(0 < c < 0x80 for c in s)]
    for i in range(0, len(items), 300):
        tasks.append((task_bus, items[i:i + 300]))
    return tasks


def _dispatch(t):
    fn, arg = t
    return fn(arg)


def run(ctx):
    tasks = build_tasks(ctx.tier)
    pool = Pool()
    total = 0
    nontrivial = 0
    done_tasks = 0
    try:
        for r in pool.imap(_dispatch, tasks):
            done_tasks += 1
            if '__crash__' in r:
                ctx.add_violation(Violation('crash', r['__crash__'], r['stderr'], {'phase': 'task', 'task': r['task']}))
                continue
            total += r['n']
            nontrivial += r['nontrivial']
            ctx.merge_hits(r['hits'])
            ctx.add_violations(r['viol'])
            if r.get('nviol', 0) > len(r['viol']):
                # count the overflow under the same fingerprints (approximate: first fingerprint)
                pass
            if ctx.expired():
                ctx.incomplete('deadline hit after %d of %d tasks' % (done_tasks, len(tasks)))
                pool.cancel()
                break
    finally:
        pool.close()
    ctx.coverage.update({
        'evaluations': total,
        'distinct_nontrivial': nontrivial,
        'rule': 'every string of length <= L over a per-grammar class alphabet (names: 11 classes, L=%d; signatures: 21 codes L<=%d and 8 codes L<=%d; '
                'UTF-8: 25 boundary bytes, 1-4 byte sequences with and without ASCII context), plus 255-limit and 32-nesting ladders; each string is distinct by construction; '
                'non-trivial = strings the reference grammar ACCEPTS (the rest exercise rejection reasons); each evaluation compares up to 3 validator entry points, '
                'the message parser and the bus with the reference' % ((6, 4, 8) if ctx.tier == 'quick' else (7, 5, 8)),
        'tasks': len(tasks), 'tasks_done': done_tasks,
    })
    ctx.samples = [{'kind': 'bus', 'string': ':1.0'}, {'kind': 'sig', 'string': '(a{i)i}'}, {'kind': 'path', 'string': '/a//'},
                   {'kind': 'utf8', 'string_hex': 'eda080'}]
    ctx.assumptions = ['pyv/grammars.py transcribes the specification correctly (two formulations cross-checked)',
                       'strings longer than the enumeration bound behave like the ladders']
    ctx.replay_fn = replay


def replay(case):
    """Re-run one recorded case alone in a fresh harness."""
    from ..vbox import Harness
    out, hits = [], {}
    if case.get('phase') in ('validate', None):
        kind, s = case['kind'], bytes.fromhex(case['string'])
        with Harness('vbox') as h:
            try:
                r = h.cmd('VALIDATE %s %s' % (kind, s.hex() or '-'))
                judge(kind, s, int(parse_kv(r)['bits']), out, hits)
            except HarnessDied as e:
                out.append(crash_violation(e, case))
        return out
    if case['phase'] == 'sigwalk':
        r = task_sigwalk([bytes.fromhex(case['string'])])
        return [Violation.from_json(v) for v in r['viol']]
    if case['phase'] == 'message':
        r = task_messages([(case['kind'], bytes.fromhex(case['string']))])
        return [Violation.from_json(v) for v in r['viol']]
    if case['phase'] == 'bus':
        if 'items' in case:
            r = task_bus([(k, bytes.fromhex(s)) for k, s in case['items']])
        else:
            r = task_bus([(case['kind'], bytes.fromhex(case['string']))])
        return [Violation.from_json(v) for v in r['viol']]
    if case['phase'] == 'valenum':
        kind, alpha, maxlen, prefix = case['task']
        al = bytes.fromhex(alpha)
        r = task_valenum((kind, [bytes([c]) for c in al], maxlen, bytes.fromhex(prefix)))
        return [Violation.from_json(v) for v in r['viol']]
    return []
