"""C20 — object-path handlers are chosen by exact path, then nearest fallback.

BFS over register / register-fallback / unregister histories on a path
alphabet with shared prefixes and adjacent sort order, on a real private
DBusConnection (harness/vconn); after every operation a method call is sent
to every path of the alphabet (and paths beside/below it) and the child
listing of every path is read.  Reference model: a plain dict."""
import re
from .. import refdbus as R
from .. import explore
from ..engine import Violation, worker_harness, known_fingerprints
from ..vbox import HarnessDied, parse_kv
from ..registry import claim

claim('C20', 'model_checking',
      'explicit-state BFS over registration histories on a real DBusConnection with a full call/listing probe in every state, judged by a dict model of the handler tree',
      'Histories of try_register_object_path / try_register_fallback (handlers that handle or decline) and unregister over 8 paths with shared prefixes, sibling names that sort adjacently and the root are '
      'explored to a depth bound with the model dict as state key; in every state a method call to each of 12 paths is dispatched and the order of handler invocations, the automatic reply '
      '(UnknownMethod / UnknownObject) and dbus_connection_list_registered of every path are compared with the model; around every operation (and its inverse) the operation\'s own path and every probe path below it are dispatched immediately before and after, so that anything a dispatch remembers is confronted with the change.',
      'Trusts the dict model. Introspect/Peer built-ins are outside the probe alphabet. The state key is the model dict plus the dump of the implementation\'s tree (hook H2).',
      'DESIGN.md section 4 C20')

FACTORY = 'pyv.checks.c20:Session'
PATHS = ['/', '/a', '/a/b', '/a/b/c', '/a/bb', '/a/b0', '/ab', '/b']
PROBE_PATHS = PATHS + ['/a/b/c/d', '/a/c', '/zz', '/a/b/cc']
UNKNOWN_METHOD = b'org.freedesktop.DBus.Error.UnknownMethod'
UNKNOWN_OBJECT = b'org.freedesktop.DBus.Error.UnknownObject'


def elems(p):
    return [e for e in p.split('/') if e]


def ancestors_inclusive(p):
    """p, then successively shorter ancestors up to '/'."""
    e = elems(p)
    out = []
    for i in range(len(e), -1, -1):
        out.append('/' + '/'.join(e[:i]) if i else '/')
    return out


class Session:
    def __init__(self, params):
        self.params = params
        self.h = worker_harness('vconn')
        if self.h.proc is not None:
            self.h.restart()
        r = self.h.cmd('OPEN')
        if not r.startswith('OK'):
            raise RuntimeError('vconn OPEN failed: ' + r)
        self.reg = {}          # path -> (fallback: bool, handles: bool)
        self.serial = 10
        self.hits = {}
        self.paths = PATHS[:params.get('npaths', len(PATHS))]

    def hit(self, k):
        self.hits[k] = self.hits.get(k, 0) + 1

    def ops(self):
        ops = []
        for p in self.paths:
            if p in self.reg:
                ops.append(['unreg', p])
                ops.append(['reg', p, 'h'])      # occupied: must fail and change nothing
                ops.append(['regp', p, 'h'])     # ... also through the entry point that has no DBusError
                ops.append(['regfbp', p, 'd'])
            else:
                for b in ('h', 'd'):
                    ops.append(['reg', p, b])
                    ops.append(['regfb', p, b])
                ops.append(['regp', p, 'h'])     # dbus_connection_register_object_path / _fallback (no DBusError)
                ops.append(['regfbp', p, 'd'])
        return ops

    # ---- model -------------------------------------------------------------
    def expected_dispatch(self, p):
        """-> (list of 'h:<regpath>:<ex|fb>' invocations in order, error name or None)"""
        calls = []
        handled = False
        for i, q in enumerate(ancestors_inclusive(p)):
            if q in self.reg:
                fb, handles = self.reg[q]
                if i == 0 or fb:
                    calls.append('h:%s:%s:%s' % (q, 'fb' if fb else 'ex', p))
                    if handles:
                        handled = True
                        break
        if handled:
            return calls, None
        known = False
        if p in self.reg:
            known = True
        if any(r != p and (r.startswith(p + '/') or p == '/') for r in self.reg):
            known = True          # ancestor of a registered path
        for q in ancestors_inclusive(p)[1:]:
            if q in self.reg and self.reg[q][0]:
                known = True      # below a fallback registration
        return calls, (UNKNOWN_METHOD if known else UNKNOWN_OBJECT)

    def expected_children(self, p):
        kids = set()
        pe = elems(p)
        for r in self.reg:
            re_ = elems(r)
            if len(re_) > len(pe) and re_[:len(pe)] == pe:
                kids.add(re_[len(pe)])
        return sorted(kids)

    # ---- probing -------------------------------------------------------------
    def probe(self, out, opdesc, only=None):
        for p in (PROBE_PATHS if only is None else only):
            self.serial += 1
            m = R.method_call(self.serial, None, p, 'x.y', 'M', [])
            r = self.h.cmd('PEER ' + R.encode_message(m).hex())
            kv = parse_kv(r)
            log = kv.get('log', '-')
            calls = [c for c in log.split(';') if c.startswith('h:')] if log != '-' else []
            err = None
            if kv.get('peer', '-') != '-':
                msgs, st = R.split_stream(bytes.fromhex(kv['peer']))
                for mm, _ in msgs:
                    if mm.mtype == R.MT_ERROR and mm.reply_serial == self.serial:
                        err = mm.error_name
            wc, werr = self.expected_dispatch(p)
            self.hit('probe')
            if calls != wc:
                out.append(Violation('handler-order', 'dispatch', '%s: call to %s invoked %r, model %r (registered: %r)' % (opdesc, p, calls, wc, self.reg), None))
            elif err != werr and p == '/' and not self.reg and err == UNKNOWN_METHOD:
                # the root node exists in every tree (Introspect on it succeeds); whether that makes "/"
                # an object when nothing is registered is not decided by the property -> not judged
                self.hit('root-on-empty-tree-unjudged')
            elif err != werr:
                kind = 'root-on-empty-tree' if (p == '/' and not self.reg) else ('%s-instead-of-%s' % ((err or b'none').decode().split('.')[-1], (werr or b'none').decode().split('.')[-1]))
                v = Violation('auto-reply', kind, '%s: call to %s answered %r, model %r (registered: %r)' % (opdesc, p, err, werr, self.reg), None)
                v.resynced = v.fingerprint in known_fingerprints('C20')     # recorded finding without state effect: keep exploring
                out.append(v)
            if len([v for v in out if not v.resynced]) > 3:
                return
        if only is not None:
            return
        for p in self.paths + ['/zz']:
            r = self.h.cmd('LIST ' + p)
            got = sorted(r.split()[1:]) if r.startswith('OK') else None
            want = self.expected_children(p)
            if got != want:
                out.append(Violation('child-listing', 'list_registered', '%s: children of %s = %r, model %r (registered: %r)' % (opdesc, p, got, want, self.reg), None))
        # what is registered at exactly a path, as dbus_connection_get_object_path_data() reports it
        for p in self.paths + ['/zz', '/a/b/c/d']:
            r = self.h.cmd('DATA ' + p)
            want = 'OK -'
            if p in self.reg:
                want = 'OK %s:%s:%s' % (p, 'fb' if self.reg[p][0] else 'ex', 'h' if self.reg[p][1] else 'd')
            if r != want:
                out.append(Violation('tree-differs', 'object-path-data', '%s: get_object_path_data(%s) = %r, model %r (registered: %r)' % (opdesc, p, r, want, self.reg), None))

    def around(self, op, out):
        """The same path dispatched immediately before and immediately after the operation (nothing in between), for the
        operation's own path and every probe path below it; the operation is undone and redone between candidates, so each
        candidate also sees the inverse operation between two dispatches.  Whatever the tree remembers from one dispatch
        must not outlive a change of the registrations."""
        kind, p = op[0], op[1]
        if kind in ('regp', 'regfbp'):
            return         # same transitions as reg/regfb, which are probed around
        if kind in ('reg', 'regfb') and p in self.reg:
            return
        cands = [p] + [q for q in PROBE_PATHS if q != p and (q.startswith(p + '/') or p == '/')]
        before = dict(self.reg)
        after = dict(self.reg)
        if kind == 'unreg':
            fb, handles = after.pop(p)
            do = 'UNREG ' + p
            undo = '%s %s %s' % ('REGFB' if fb else 'REG', p, 'h' if handles else 'd')
        else:
            after[p] = (kind == 'regfb', op[2] == 'h')
            do = '%s %s %s' % ('REG' if kind == 'reg' else 'REGFB', p, op[2])
            undo = 'UNREG ' + p
        for c in cands:
            self.probe(out, '%r (before, path %s)' % (op, c), only=[c])
            r1 = self.h.cmd(do)
            self.reg = after
            self.probe(out, '%r (dispatch to %s immediately before and after)' % (op, c), only=[c])
            r2 = self.h.cmd(undo)
            self.reg = before
            self.probe(out, '%r undone (dispatch to %s immediately before and after)' % (op, c), only=[c])
            self.hit('dispatch-around-operation')
            if not (r1.startswith('OK') and r2.startswith('OK')):
                out.append(Violation('register-failed', 'result', '%r / its inverse answered %r / %r' % (op, r1, r2), None))
            if [v for v in out if not v.resynced]:
                break
        self.reg = dict(before)

    def apply(self, op):
        out = []
        kind, p = op[0], op[1]
        self.around(op, out)
        if [v for v in out if not v.resynced]:
            return out
        if kind in ('reg', 'regfb', 'regp', 'regfbp'):
            plain = kind.endswith('p')
            kind = kind[:-1] if plain else kind
            r = self.h.cmd('%s %s %s%s' % ('REG' if kind == 'reg' else 'REGFB', p, op[2], ' plain' if plain else ''))
            if p in self.reg:
                self.hit('register-occupied' + ('-plain' if plain else ''))
                if not r.startswith('ERR plain.Failed' if plain else 'ERR org.freedesktop.DBus.Error.ObjectPathInUse'):
                    out.append(Violation('occupied-register', 'result', '%r on an occupied path answered %r' % (op, r), None))
            else:
                self.hit('register' + ('-plain' if plain else ''))
                if not r.startswith('OK'):
                    out.append(Violation('register-failed', 'result', '%r answered %r' % (op, r), None))
                else:
                    self.reg[p] = (kind == 'regfb', op[2] == 'h')
        elif kind == 'unreg':
            r = self.h.cmd('UNREG ' + p)
            self.hit('unregister')
            if not r.startswith('OK') or ('u:%s;' % p) not in r:
                out.append(Violation('unregister-failed', 'result', '%r answered %r' % (op, r), None))
            self.reg.pop(p, None)
        # (recorded findings that do not change the state - resynced - must not switch the remaining checks off)
        if not [v for v in out if not v.resynced]:
            self.check_tree(out, repr(op))
        if not [v for v in out if not v.resynced]:
            self.probe(out, repr(op))
        seen = set()
        out = [v for v in out if not (v.resynced and (v.fingerprint in seen or seen.add(v.fingerprint)))]
        return out

    def tree_dump(self):
        r = self.h.cmd('STATE')
        mo = re.search(r'tree=(\S+)', r)
        return mo.group(1) if mo else ''

    def check_tree(self, out, opdesc):
        """The tree itself (hook H2): the nodes that carry a handler, with their fallback flag, are exactly the model's
        registrations (the root's fallback flag without a handler is an implementation detail and ignored)."""
        d = self.tree_dump()
        self.tdump = d
        have = {}
        stack = []
        for mo in re.finditer(r'\(([^:()]+):(\d)(\d)|\)', d):
            if mo.group(0) == ')':
                stack.pop()
                continue
            name = mo.group(1)
            stack.append(name)
            path = '/' if len(stack) == 1 else '/' + '/'.join(stack[1:])
            if mo.group(2) == '1':
                have[path] = mo.group(3) == '1'
        want = {p: fb for p, (fb, _) in self.reg.items()}
        if have != want:
            out.append(Violation('tree-differs', 'registrations', '%s: the object tree holds handlers %r (path -> fallback), the model %r' % (opdesc, have, want), None))

    def key(self):
        # implementation state (the tree as the library holds it) + model registry
        return repr(sorted(self.reg.items())) + '|' + getattr(self, 'tdump', '')

    def died(self):
        self.h.close()

    def close(self):
        try:
            self.h.cmd('QUIT')
        except Exception:
            pass
        self.h.close()


def run(ctx):
    quick = ctx.tier == 'quick'
    depth = 3 if quick else 4
    st = explore.bfs(ctx, FACTORY, {'npaths': 8}, max_depth=depth, ops_chunk=8)
    ctx.coverage.update({
        'states': st['states'], 'transitions': st['transitions'], 'traces_validated_against_impl': st['transitions'],
        'completed_depth': st['completed_depth'], 'fixpoint': st['fixpoint'], 'probes': ctx.clause_hits.get('probe', 0),
        'bound': '8 paths (%s), register/register-fallback with handling and declining handlers, unregister, register on occupied path; BFS depth %d; %d probe paths + 9 listings in every state' % (' '.join(PATHS), depth, len(PROBE_PATHS)),
    })
    ctx.assumptions = ['the dict model', 'state key = model dict']
    ctx.replay_fn = replay


def replay(case):
    return explore.replay_history(FACTORY, case['params'], case['history'])
