"""C09 — only the addressee of a pending call can answer it, once.

BFS over call / genuine reply / forged reply / duplicate reply / disconnect /
clock-advance histories under the system-bus default policy (only requested
replies may be sent), with serial reuse and a small pending-reply limit.
Reference model: the set of pending-reply slots (pyv/models/replies.py); the
implementation's own pending-reply list (hook H2) must equal it in every state."""
from collections import Counter

from .. import refdbus as R
from .. import busbox as B
from .. import explore
from ..engine import Violation
from ..session import BusSession
from ..registry import claim

claim('C09', 'model_checking',
      'explicit-state BFS over call/reply/forged-reply/disconnect/timeout histories on the real bus under the system-bus default policy, judged by a pending-reply slot model and compared with the implementation\'s pending-reply list in every state',
      'Three clients (caller, callee, third party) issue calls with serials from a 2-element domain (so serials are reused), with and without NO_REPLY_EXPECTED; every client may send a method return '
      'or error with every serial to every other client; clients disconnect; the virtual clock is advanced below/above reply_timeout. A reply must be delivered iff it consumes a slot opened by a call '
      'from its addressee to its sender with that serial; anything else earns the replier AccessDenied and reaches nobody; expiry/callee disconnect yields exactly one NoReply; the per-connection limit refuses the next call; a call written in the same loop iteration in which its callee\'s socket closes gets exactly one error and leaves no slot; a call refused by the callee\'s receive policy opens no slot; a reload changes nothing; the third party eavesdrops on method calls (its copies are modelled, its answers stay forged).',
      'Trusts the slot model. Time is the virtual clock of hook H1. More than 3 clients / 2 serials per caller and histories beyond the depth bound are not covered.',
      'DESIGN.md section 4 C09')

FACTORY = 'pyv.checks.c09:Session'
CLIENTS = ['A', 'B', 'T']
SERIALS = [101, 102]
REPLY_SERIALS = [101, 102, 103]
CALL_PAIRS = [('A', 'B'), ('A', 'T'), ('B', 'A'), ('A', 'A')]

POLICY = """
  <policy context="default">
    <allow user="*"/>
    <deny own="*"/>
    <deny send_type="method_call"/>
    <allow send_type="signal"/>
    <allow send_requested_reply="true" send_type="method_return"/>
    <allow send_requested_reply="true" send_type="error"/>
    <allow receive_type="method_call"/>
    <allow receive_type="method_call" eavesdrop="true"/>
    <allow receive_type="method_return"/>
    <allow receive_type="error"/>
    <allow receive_type="signal"/>
    <deny receive_type="method_call" receive_interface="c.Private"/>
    <allow send_destination="org.freedesktop.DBus" send_interface="org.freedesktop.DBus"/>
    <allow own_prefix="com.example"/>
    <allow send_destination="com.example.A"/>
    <allow send_destination="com.example.B"/>
    <allow send_destination="com.example.T"/>
    <allow send_destination="com.example.N"/>
  </policy>
"""


def wk(l):
    return b'com.example.' + l.encode()


class Session(BusSession):
    def __init__(self, params):
        self.timeout = params.get('reply_timeout', 5000)
        BusSession.__init__(self, params)
        for l in CLIENTS:
            self.connect_slot(l)
            self.method(l, 'RequestName', [R.S(wk(l)), R.U(0)])
        # the third party also eavesdrops on method calls: being handed a copy of a call must not make it a legitimate replier
        self.method('T', 'AddMatch', [R.S(b"eavesdrop='true',type='method_call'")])
        # N never negotiated descriptor passing: a descriptor-carrying call to it is refused by the bus (NotSupported); a
        # call that was refused is not a call N may answer
        self.bus.h.cmd('MKFD 1')
        self.connect_slot('N', nofd=True)
        self.method('N', 'RequestName', [R.S(wk('N')), R.U(0)])
        for l in CLIENTS + ['N']:
            self.take(l)
        self.slots_model = []      # list of [caller, callee, serial, age_ms]
        self.nextser = {l: 1000 for l in CLIENTS + ['N']}

    COUNTER_ATTRS = ('nextser',)

    def snapshot(self):
        s = BusSession.snapshot(self)
        return (s[0], {'nextser': dict(self.nextser)})

    def config(self):
        limits = {'max_replies_per_connection': 2}
        if self.timeout is not None:
            limits['reply_timeout'] = self.timeout
        return B.make_config(policy=POLICY, limits=limits, bustype=None)

    def fresh_serial(self, l):
        self.nextser[l] += 1
        return self.nextser[l]

    def ops(self):
        ops = []
        for x, y in CALL_PAIRS:
            if self.is_open(x) and self.is_open(y):
                for s in SERIALS:
                    ops.append(['call', x, y, s, 0])
                ops.append(['call', x, y, SERIALS[0], 1])
                if x != y:
                    ops.append(['pcall', x, y, SERIALS[0]])     # passes the send rules, refused by the recipient's receive rule
        for x in CLIENTS:
            for y in CLIENTS:
                if (x != y or x == 'A') and self.is_open(x) and self.is_open(y):
                    for s in REPLY_SERIALS:
                        for k in ('return', 'error'):
                            ops.append(['reply', x, y, s, k])
        if self.is_open('A') and self.is_open('N'):
            ops.append(['fdcall', 'A', 'N', SERIALS[0]])
            for s in SERIALS:
                ops.append(['reply', 'N', 'A', s, 'return'])
        # a SIGNAL that carries a REPLY_SERIAL header field is not a reply: it uses up no slot (the call is still answered
        # or NoReply'd later) and is delivered like any signal
        for x, y in (('B', 'A'), ('T', 'A'), ('A', 'B')):
            if self.is_open(x) and self.is_open(y):
                for s in SERIALS:
                    ops.append(['sigreply', x, y, s])
        for l in CLIENTS:
            if self.is_open(l):
                ops.append(['disc', l])
        # a call written in the same main-loop iteration in which its callee's socket closes (both write orders)
        for x, y in (('A', 'B'), ('B', 'A'), ('A', 'T')):
            if self.is_open(x) and self.is_open(y) and sum(1 for sl in self.slots_model if sl[0] == x) < 2 \
                    and not any(sl[0] == x and sl[1] == y and sl[2] == SERIALS[1] for sl in self.slots_model):
                for first in (0, 1):
                    ops.append(['race', first, x, y, SERIALS[1]])
        ops.append(['reload'])       # open reply slots survive a re-read of the (unchanged) configuration
        if self.timeout is not None:
            ops.append(['advance', 3000])
            ops.append(['advance', 6000])
        else:
            ops.append(['advance', 100000000])
        return ops

    # ------------------------------------------------------------------
    def observe(self):
        obs = {}
        for l in list(self.inbox):
            obs[l] = [o for o in self.take(l) if not (o.kind == R.MT_SIGNAL and o.sender == R.BUS)]
        return obs

    def expect(self, obs, want, out, opdesc):
        """want: {label: Counter of item tuples}; compare as multisets."""
        for l in set(obs) | set(want):
            got = Counter()
            for o in obs.get(l, []):
                if o.sender == R.BUS and o.kind == R.MT_ERROR:
                    got[('buserr', o.errname, o.rserial)] += 1
                elif o.sender == R.BUS:
                    got[('bus', o.kind, o.rserial)] += 1
                else:
                    got[('msg', self.lab(o.sender), o.kind, o.serial if o.kind == R.MT_CALL else o.rserial)] += 1
            w = want.get(l, Counter())
            if got != w:
                missing, extra = w - got, got - w
                if any(k[0] == 'msg' and k[2] in (R.MT_RETURN, R.MT_ERROR) for k in extra):
                    clause, reason = 'reply-delivered-without-slot', 'reply'
                elif any(k[0] == 'msg' and k[2] in (R.MT_RETURN, R.MT_ERROR) for k in missing):
                    clause, reason = 'requested-reply-not-delivered', 'reply'
                elif any(k[0] == 'buserr' and k[1].endswith(b'NoReply') for k in missing):
                    clause, reason = 'noreply-missing', 'NoReply'
                elif any(k[0] == 'buserr' and k[1].endswith(b'NoReply') for k in extra):
                    clause, reason = 'noreply-unexpected', 'NoReply'
                elif any(k[0] == 'buserr' for k in missing | extra):
                    clause, reason = 'bus-error-differs', sorted(missing | extra)[0][1].decode().split('.')[-1]
                else:
                    clause, reason = 'delivery-differs', 'call'
                out.append(Violation(clause, reason, '%s: %s observed %r, model %r' % (opdesc, l, dict(got), dict(w)), None))

    def check_dump(self, out, opdesc):
        d = self.impl_key()
        impl = Counter()
        for line in d.split('|'):
            if line.startswith('reply '):
                p = dict(t.split('=') for t in line.split(' ')[1:])
                impl[(p['get'][1:], p['send'][1:], int(p['serial']))] += 1
        model = Counter((s[0], s[1], s[2]) for s in self.slots_model)
        if impl != model:
            out.append(Violation('pending-replies-differ', 'dump', '%s: implementation holds %r, model %r' % (opdesc, dict(impl), dict(model)), None))

    def apply(self, op):
        out = []
        kind = op[0]
        want = {}

        def w(l, item):
            want.setdefault(l, Counter())[item] += 1
        if kind == 'call':
            _, x, y, s, noreply = op
            m = R.method_call(s, self.uname[y], '/c', 'c.i', 'Do', [R.U(s)], flags=1 if noreply else 0)
            npending = sum(1 for sl in self.slots_model if sl[0] == x)
            dup = any(sl[0] == x and sl[1] == y and sl[2] == s for sl in self.slots_model)
            if not noreply and npending >= 2 and not dup:
                w(x, ('buserr', b'org.freedesktop.DBus.Error.LimitsExceeded', s))
                self.hit('call-over-limit')
            elif not noreply and dup:
                # a second call with the serial of a still-unanswered call to the same callee: the property only
                # demands that at most one reply per call gets through; refusing the ambiguous call outright
                # (what the bus does) satisfies that, so the refusal is the modelled outcome
                self.send(x, m)
                obs = self.observe()
                errs = [o for o in obs.get(x, []) if o.sender == R.BUS and o.kind == R.MT_ERROR and o.rserial == s]
                delivered = [o for o in obs.get(y, []) if o.kind == R.MT_CALL]
                self.hit('call-duplicate-serial')
                if len(errs) == 1 and not delivered:
                    pass
                elif not errs and len(delivered) == 1:
                    self.slots_model.append([x, y, s, 0])
                else:
                    out.append(Violation('delivery-differs', 'duplicate-serial', '%r: caller got %r, callee got %r' % (op, errs, delivered), None))
                if not out:
                    self.check_dump(out, repr(op))
                return out
            else:
                w(y, ('msg', '@' + x, R.MT_CALL, s))
                if y != 'T' and self.is_open('T'):
                    w('T', ('msg', '@' + x, R.MT_CALL, s))       # the eavesdropper's copy
                    self.hit('call-eavesdropped')
                if not noreply:
                    self.slots_model.append([x, y, s, 0])
                    self.hit('call-slot')
                else:
                    self.hit('call-noreply')
            self.send(x, m)
        elif kind == 'pcall':
            _, x, y, s = op
            m = R.method_call(s, self.uname[y], '/c', 'c.Private', 'Do', [R.U(s)])
            # refused on the recipient side: the caller is told, the callee sees nothing, and NO reply slot may exist
            w(x, ('buserr', b'org.freedesktop.DBus.Error.AccessDenied', s))
            self.hit('call-refused-by-receive-policy')
            self.send(x, m)
        elif kind == 'fdcall':
            _, x, y, s = op
            m = R.method_call(s, self.uname[y], '/c', 'c.i', 'Do', [(b'h', 0)])
            m.fields.append((R.F_UNIX_FDS, (b'u', 1)))
            w(x, ('buserr', b'org.freedesktop.DBus.Error.NotSupported', s))
            self.hit('fd-call-to-recipient-without-fd-passing')
            self.send(x, m, fds=[0])
        elif kind == 'sigreply':
            _, x, y, s = op
            ser = self.fresh_serial(x)
            m = R.signal(ser, '/c', 'c.i', 'Sig', [R.U(s)], dest=self.uname[y])
            m.fields.append((R.F_REPLY_SERIAL, (b'u', s)))
            w(y, ('msg', '@' + x, R.MT_SIGNAL, s))
            self.hit('signal-with-reply-serial')
            self.send(x, m)
        elif kind == 'reply':
            _, x, y, s, k = op
            ser = self.fresh_serial(x)
            if k == 'return':
                m = R.method_return(ser, s, self.uname[y], [R.U(s)])
            else:
                m = R.error(ser, s, 'c.Err', self.uname[y], [R.S('e')])
            idx = [i for i, sl in enumerate(self.slots_model) if sl[0] == y and sl[1] == x and sl[2] == s]
            if idx:
                del self.slots_model[idx[0]]
                w(y, ('msg', '@' + x, m.mtype, s))
                self.hit('reply-consumes-slot')
            else:
                w(x, ('buserr', b'org.freedesktop.DBus.Error.AccessDenied', ser))
                self.hit('reply-refused')
            self.send(x, m)
        elif kind == 'disc':
            l = op[1]
            keep = []
            for sl in self.slots_model:
                if sl[1] == l and sl[0] != l:
                    w(sl[0], ('buserr', b'org.freedesktop.DBus.Error.NoReply', sl[2]))
                    self.hit('noreply-on-disconnect')
                elif sl[0] == l:
                    pass
                else:
                    keep.append(sl)
            self.slots_model = keep
            self.close_slot(l)
            want.pop(l, None)
        elif kind == 'race':
            _, first, x, y, s = op
            m = R.method_call(s, self.uname[y], '/c', 'c.i', 'Do', [R.U(s)])
            keep = []
            for sl in self.slots_model:
                if sl[1] == y and sl[0] != y:
                    w(sl[0], ('buserr', b'org.freedesktop.DBus.Error.NoReply', sl[2]))
                elif sl[0] == y:
                    pass
                else:
                    keep.append(sl)
            self.slots_model = keep
            cy = self.slots[y]
            if first == 0:
                self.bus.send(self.slots[x], R.encode_message(m))
                self.bus.h.cmd('CLOSE %d nopump' % cy)
            else:
                self.bus.h.cmd('CLOSE %d nopump' % cy)
                self.bus.send(self.slots[x], R.encode_message(m))
            self.slots[y] = None
            self.bus.pump()
            self._distribute(self.bus.recvall())
            self._distribute(self.bus.advance(0))
            want.pop(y, None)
            self.hit('race-call-vs-callee-close')
            # whichever the bus handles first, the caller is told exactly once: the callee has gone (undeliverable) or it
            # went away with the call unanswered (NoReply); no slot survives
            obs = self.observe()
            obs.pop(y, None)
            if y != 'T' and 'T' in obs:
                obs['T'] = [o for o in obs['T'] if not (o.kind == R.MT_CALL and o.serial == s)]     # whether the eavesdropper saw the racing call depends on the order
            mine = [o for o in obs.get(x, []) if o.sender == R.BUS and o.kind == R.MT_ERROR and o.rserial == s
                    and o.errname in (b'org.freedesktop.DBus.Error.NoReply', b'org.freedesktop.DBus.Error.ServiceUnknown', b'org.freedesktop.DBus.Error.NameHasNoOwner')]
            if len(mine) != 1:
                clause = 'noreply-missing' if not mine else 'noreply-unexpected'
                out.append(Violation(clause, 'race-with-disconnect', '%r: the caller received %d errors for a call whose callee disconnected in the same loop iteration: %r' % (op, len(mine), obs.get(x)), None))
            else:
                obs[x] = [o for o in obs[x] if o is not mine[0]]
                self.expect(obs, want, out, repr(op))
            if not out:
                self.check_dump(out, repr(op))
            return out
        elif kind == 'reload':
            self.reload_same(out, repr(op))
            if not out:
                self.check_dump(out, repr(op))
            return out
        elif kind == 'advance':
            dt = op[1]
            keep = []
            for sl in self.slots_model:
                sl[3] += dt
                if self.timeout is not None and sl[3] > self.timeout:
                    w(sl[0], ('buserr', b'org.freedesktop.DBus.Error.NoReply', sl[2]))
                    self.hit('noreply-on-timeout')
                else:
                    keep.append(sl)
            self.slots_model = keep
            self.advance(dt)
        obs = self.observe()
        if kind == 'disc':
            obs.pop(op[1], None)
        self.expect(obs, want, out, repr(op))
        if not out:
            self.check_dump(out, repr(op))
        return out

    def key(self):
        live = ''.join(l for l in CLIENTS if self.is_open(l))
        return self.impl_key() + '#' + repr(sorted(self.slots_model)) + '#' + live


def run(ctx):
    quick = ctx.tier == 'quick'
    total = {'states': 0, 'transitions': 0}
    depth = 9 if quick else 12
    res = []
    for timeout in ([5000] if quick else [5000, None]):
        st = explore.bfs(ctx, FACTORY, {'reply_timeout': timeout}, max_depth=depth, ops_chunk=12)
        total['states'] += st['states']
        total['transitions'] += st['transitions']
        res.append((timeout, st['completed_depth'], st['fixpoint'], st['states']))
    ctx.coverage.update({
        'states': total['states'], 'transitions': total['transitions'], 'traces_validated_against_impl': total['transitions'],
        'runs': [{'reply_timeout': r[0], 'completed_depth': r[1], 'fixpoint': r[2], 'states': r[3]} for r in res],
        'bound': '3 clients; calls on 3 ordered pairs x serials {101,102} (+NO_REPLY), replies on all 6 ordered pairs x reply serials {101,102,103} x {return,error}, disconnects, clock advances {3 s, 6 s} with reply_timeout 5 s%s; max_replies_per_connection=2; BFS depth %d' %
                 ('' if quick else ' and with no timeout', depth),
    })
    ctx.assumptions = ['the virtual clock (hook H1) is the only time source of the expiry code']
    ctx.replay_fn = replay


def replay(case):
    return explore.replay_history(FACTORY, case['params'], case['history'])
