"""C06 — security policy decisions equal the documented rule semantics.

Exhaustive product: every list of <= k atomic <allow>/<deny> rules (every
documented attribute, values chosen to hit/miss/prefix/wildcard) placed in
every combination of the contexts default / user / mandatory, on top of an
open and a closed base policy, each instantiated as a fresh in-process bus;
in each a fixed registry state is built (receiver owning two names and queued
for a third, prefix-related names) and a probe set is sent: every message
type, interface present/absent, unicast to each name / broadcast / the driver,
requested and unrequested replies, with and without a file descriptor, and
RequestName around the own rules.  Oracle: pyv/models/policy.py (the manual's
evaluation, last match wins, default deny); undocumented cases are UNSPEC and
not judged."""
import itertools
import os

from .. import refdbus as R
from .. import busbox as B
from ..engine import Pool, Violation, worker_bus, crash_violation
from ..vbox import HarnessDied
from ..session import BusSession
from ..models import policy as P
from ..registry import claim

claim('C06', 'model_checking',
      'exhaustive enumeration of policy configurations (rule lists x contexts x base policies), each a fresh real bus probed with a fixed message/name-request set, judged by a transcription of the manual\'s rule evaluation',
      'Every ordered list of <= k atomic rules over the documented attributes, in every assignment to the contexts default / group / user / mandatory, over an open and a closed base policy, is loaded by a real in-process bus, both at start-up and by a reload from an allow-everything configuration with the connections (and some name ownerships and queue positions) already in place; '
      'a registry state with a multi-name receiver, a queued owner and prefix-related names is built and ~20 probes per configuration are sent by a sender of another uid. Delivery, AccessDenied errors and RequestName results must equal '
      'the documented evaluation; a denied message must reach nobody; a reply from a third connection carrying the serial of somebody else\'s outstanding call is not a requested reply; a third party holding eavesdropping match rules gets a copy of a unicast probe exactly when the addressee gets the message, the sender may send to it and its receive rules allow it as an eavesdropper.',
      'Trusts pyv/models/policy.py as the reading of doc/dbus-daemon.1.xml.in. Cases the manual leaves open (rules naming member/path/error against messages lacking the field, non-prefix destination rules against a queued-only owner, '
      'destination rules on broadcasts before a recipient is known, the order among several group contexts) are UNSPEC and only counted. at_console, SELinux and AppArmor are outside this build.',
      'DESIGN.md section 4 C06')

S_UID = 1000
OPEN_BASE = [
    {'action': 'allow', 'context': 'default', 'user': '*'},
    {'action': 'allow', 'context': 'default', 'own': '*'},
    {'action': 'allow', 'context': 'default', 'send_destination': '*', 'send_requested_reply': 'false'},
    {'action': 'allow', 'context': 'default', 'receive_sender': '*', 'receive_requested_reply': 'false'},
]
# closed for the sender's uid: nothing may be sent except to the driver; receivers (uid 0) may receive everything
CLOSED_SEND_BASE = [
    {'action': 'allow', 'context': 'default', 'user': '*'},
    {'action': 'allow', 'context': 'default', 'own': '*'},
    {'action': 'allow', 'context': 'default', 'receive_sender': '*', 'receive_requested_reply': 'false'},
    {'action': 'allow', 'context': 'default', 'send_destination': 'org.freedesktop.DBus'},
    {'action': 'allow', 'context': 'user:0', 'send_destination': '*', 'send_requested_reply': 'false'},
]
# closed for receiving at uid 0 (the receivers): only the driver may be heard
CLOSED_RECV_BASE = [
    {'action': 'allow', 'context': 'default', 'user': '*'},
    {'action': 'allow', 'context': 'default', 'own': '*'},
    {'action': 'allow', 'context': 'default', 'send_destination': '*', 'send_requested_reply': 'false'},
    {'action': 'allow', 'context': 'default', 'receive_sender': 'org.freedesktop.DBus'},
    {'action': 'allow', 'context': 'user:%d' % S_UID, 'receive_sender': '*', 'receive_requested_reply': 'false'},
]
CLOSED_OWN_BASE = [
    {'action': 'allow', 'context': 'default', 'user': '*'},
    {'action': 'allow', 'context': 'default', 'send_destination': '*', 'send_requested_reply': 'false'},
    {'action': 'allow', 'context': 'default', 'receive_sender': '*', 'receive_requested_reply': 'false'},
    {'action': 'allow', 'context': 'user:0', 'own': '*'},
]


def atomic_send_rules():
    at = []
    for v in ('method_call', 'signal', 'method_return', '*'):
        at.append({'send_type': v})
    for v in ('p.i', 'other.i', '*'):
        at.append({'send_interface': v})
    at.append({'send_interface': 'p.i', 'send_member': 'M'})
    at.append({'send_path': '/p', 'send_member': 'M'})
    at.append({'send_path': '/p'})
    at.append({'send_error': 'p.Err'})
    for v in ('a.b', 'a.bc', 'q.name', '*', 'org.freedesktop.DBus'):
        at.append({'send_destination': v})
    for v in ('a.b', 'a', 'q'):
        at.append({'send_destination_prefix': v})
    at.append({'send_broadcast': 'true'})
    at.append({'send_broadcast': 'false'})
    at.append({'send_type': 'method_return', 'send_requested_reply': 'true'})
    at.append({'send_type': 'method_return', 'send_requested_reply': 'false'})
    at.append({'send_type': 'error', 'send_requested_reply': 'false'})
    at.append({'send_destination': '*', 'min_fds': '1'})
    at.append({'send_destination': '*', 'max_fds': '0'})
    at.append({'send_destination': 'a.b', 'send_interface': 'p.i'})
    at.append({'send_destination': 'a.b', 'send_type': 'method_call', 'send_interface': 'p.i', 'send_member': 'M'})
    return at


def atomic_recv_rules():
    at = []
    for v in ('method_call', 'signal', 'error', '*'):
        at.append({'receive_type': v})
    for v in ('p.i', 'other.i', '*'):
        at.append({'receive_interface': v})
    at.append({'receive_interface': 'p.i', 'receive_member': 'M'})
    at.append({'receive_path': '/p'})
    at.append({'receive_error': 'p.Err'})
    for v in ('s.name', 's.other', '*', 'org.freedesktop.DBus'):
        at.append({'receive_sender': v})
    at.append({'receive_type': 'method_return', 'receive_requested_reply': 'true'})
    at.append({'receive_type': 'method_return', 'receive_requested_reply': 'false'})
    at.append({'receive_sender': '*', 'min_fds': '1'})
    at.append({'receive_sender': '*', 'max_fds': '0'})
    at.append({'eavesdrop': 'true'})
    at.append({'receive_sender': 's.name', 'receive_interface': 'p.i'})
    return at


def atomic_own_rules():
    return [{'own': 'a.x'}, {'own': '*'}, {'own_prefix': 'a.x'}, {'own_prefix': 'a'}, {'own': 'a.x.y'}, {'own_prefix': 'b.c'}]


def rule_lists(atoms, contexts, k, thin=1):
    """Every ordered list of <= k (action, atom, context) triples."""
    single = [dict(a, action=act, context=c) for a in atoms for act in ('allow', 'deny') for c in contexts]
    out = [[s] for s in single]
    if k >= 2:
        pairs = [[a, b] for a in single for b in single if a is not b]
        out += pairs[::thin]
    if k >= 3:
        triples = [[a, b, c] for a in single[::7] for b in single[::5] for c in single[::3]]
        out += triples[::thin]
    return out


class PolicySession(BusSession):
    def __init__(self, rules, start_permissive=False, include=False):
        self.rules = rules
        self.start_permissive = start_permissive
        self.include = include
        BusSession.__init__(self, {})

    def target_config(self):
        if self.include:
            # the rules live in a file pulled in with <include>: merging it must keep their order
            b = worker_bus()
            if b.h.proc is None:
                b.h.start()
            inc = os.path.join(b.h.rundir, 'included-policy.conf')
            with open(inc, 'w') as f:
                f.write('<!DOCTYPE busconfig PUBLIC "-//freedesktop//DTD D-Bus Bus Configuration 1.0//EN" "http://www.freedesktop.org/standards/dbus/1.0/busconfig.dtd">\n<busconfig>\n' + P.to_xml(self.rules) + '</busconfig>\n')
            return B.make_config(policy='', bustype=None, extra='  <include>%s</include>\n' % inc)
        return B.make_config(policy=P.to_xml(self.rules), bustype=None)

    def config(self):
        # reload variant: the bus starts with an allow-everything policy, the connections are made and take their
        # names, and only then the configuration under test is loaded with a reload (what SIGHUP does)
        return B.make_config(bustype=None) if self.start_permissive else self.target_config()


def _groups_of(uid):
    """The groups the bus will find for a uid (getgrouplist), so that <policy group=...> contexts can be judged."""
    import pwd
    try:
        pw = pwd.getpwuid(uid)
        return set(os.getgrouplist(pw.pw_name, pw.pw_gid))
    except (KeyError, OSError):
        return set()


def expect_reply(sess, l, member, body):
    s, rep = sess.method(l, member, body)
    return rep is not None and rep.kind == R.MT_RETURN


def probe_config(base, test, family, reload=False, include=False):
    """-> (violations, stats)"""
    rules = [dict(r) for r in base] + [dict(r) for r in test]
    out = []
    stats = {'probes': 0, 'unspec': 0, 'allowed': 0, 'denied': 0, 'unrealisable': 0}
    try:
        sess = PolicySession(rules, start_permissive=reload, include=include)
    except B.BusError as e:
        stats['unrealisable'] += 1
        stats['config-rejected'] = 1
        return out, stats
    try:
        sess.connect_slot('R', 0)
        sess.connect_slot('Q', 0)
        sess.connect_slot('S', S_UID)
        sess.connect_slot('E', 0)          # a third party holding an eavesdropping match rule
    except B.BusError as e:
        stats['unrealisable'] += 1
        return out, stats
    sess.bus.h.cmd('MKFD 1')
    if any(sess.uname.get(l) is None for l in ('R', 'Q', 'S')):
        stats['unrealisable'] += 1
        return out, stats
    ok = True
    if family != 'own':
        ok &= expect_reply(sess, 'R', 'RequestName', [R.S('a.b'), R.U(0)])
        ok &= expect_reply(sess, 'R', 'RequestName', [R.S('a.b.c'), R.U(0)])
        ok &= expect_reply(sess, 'Q', 'RequestName', [R.S('q.name'), R.U(0)])
        ok &= expect_reply(sess, 'Q', 'RequestName', [R.S('a.bc'), R.U(0)])
        ok &= expect_reply(sess, 'R', 'RequestName', [R.S('q.name'), R.U(0)])
        ok &= expect_reply(sess, 'S', 'RequestName', [R.S('s.name'), R.U(0)])
        ok &= expect_reply(sess, 'R', 'AddMatch', [R.S("type='signal',interface='p.i'")])
        ok &= expect_reply(sess, 'Q', 'AddMatch', [R.S("type='signal',interface='p.i'")])
    have_e = sess.uname.get('E') is not None and expect_reply(sess, 'E', 'AddMatch', [R.S("eavesdrop='true',type='method_call'")]) and \
        expect_reply(sess, 'E', 'AddMatch', [R.S("eavesdrop='true',type='signal',path='/p'")])
    if not ok:
        stats['unrealisable'] += 1
        return out, stats
    held = {}
    if reload:
        if family == 'own':
            # S already owns some of the probed names and waits in the queue of others (Q owns those) BEFORE the policy
            # under test is loaded: the own rules must be evaluated on every request, also for these
            for name in ('a.x', 'a.y', 'b.c'):
                if expect_reply(sess, 'S', 'RequestName', [R.S(name), R.U(1)]):
                    held[name] = 'owner'
            for name in ('a.x.y', 'z.z'):
                if expect_reply(sess, 'Q', 'RequestName', [R.S(name), R.U(0)]) and expect_reply(sess, 'S', 'RequestName', [R.S(name), R.U(0)]):
                    held[name] = 'queued'
        try:
            sess.bus.reload(sess.target_config())
        except B.BusError:
            stats['unrealisable'] += 1
            stats['config-rejected'] = 1
            return out, stats
        stats['reloaded'] = 1
    for l in ('R', 'Q', 'S', 'E'):
        sess.take(l)
    peers = {'R': P.Peer(primary={'a.b', 'a.b.c', sess.uname['R'].decode()}, queued={'q.name'}),
             'Q': P.Peer(primary={'q.name', 'a.bc', sess.uname['Q'].decode()}),
             'S': P.Peer(primary={'s.name', sess.uname['S'].decode()}),
             'bus': P.Peer(is_bus=True)}
    if have_e:
        peers['E'] = P.Peer(primary={sess.uname['E'].decode()})
    uid = {'R': 0, 'Q': 0, 'S': S_UID, 'E': 0}
    gids = {0: _groups_of(0), S_UID: _groups_of(S_UID)}
    tok = [0]

    def body():
        tok[0] += 1
        return [R.S('tok%d' % tok[0])]

    def judge(desc, sender, target, msg, pm, receivers, fds=None, driver=False):
        """receivers: labels that could get it (addressed recipient, or rule holders for a broadcast)."""
        stats['probes'] += 1
        c = sess.slots[sender]
        token = msg.body[0][1] if msg.body else None
        sess.send(sender, msg, fds)
        got = {}
        for l in ('R', 'Q', 'S'):
            box = sess.take(l)
            got[l] = box
        # model
        for rcv in receivers:
            sd = P.can_send(rules, uid[sender], gids[uid[sender]], pm, peers[rcv])
            # a broadcast is judged per recipient like everything else: "send_destination ... rules mean that messages may not
            # be sent to ... the *owner* of the given name" (manual) holds for each connection the broadcast would reach
            rd = P.can_receive(rules, uid[rcv], gids[uid[rcv]], pm, peers[sender])
            delivered = any(o.body and o.body[0][1] == token and o.sender == sess.uname[sender] for o in got[rcv])
            if sd is P.UNSPEC or rd is P.UNSPEC:
                stats['unspec'] += 1
                continue
            want = bool(sd and rd)
            stats['allowed' if want else 'denied'] += 1
            if delivered != want:
                clause = 'denied-but-delivered' if delivered else 'allowed-but-not-delivered'
                which = 'send' if not sd else ('receive' if not rd else 'send+receive')
                attrs = '+'.join(sorted({k for r in test for k in r if k not in ('action', 'context')}))
                out.append(Violation(clause, '%s:%s' % (desc.split(' ')[0], attrs), '%s: %s->%s delivered=%s, documented evaluation: send=%s receive=%s; test rules %r' %
                                     (desc, sender, rcv, delivered, sd, rd, test), None))
            elif not want and pm.mtype == 1 and not (msg.flags & 1) and len(receivers) == 1:
                errs = [o for o in got[sender] if o.kind == R.MT_ERROR and o.rserial == msg.serial]
                if len(errs) != 1 or errs[0].errname != b'org.freedesktop.DBus.Error.AccessDenied':
                    out.append(Violation('denied-call-error', desc.split(' ')[0], '%s: denied method call produced %r at its sender' % (desc, errs), None))
        # the eavesdropper: a copy of a unicast message that is delivered to its addressee, exactly when the sender may send
        # it to the eavesdropper and the eavesdropper's receive rules allow it AS AN EAVESDROPPER (allow rules need eavesdrop="true")
        if have_e:
            ebox = sess.take('E')
            ecopy = any(o.body and o.body[0][1] == token and o.sender == sess.uname[sender] for o in ebox)
            if pm.has_destination and len(receivers) == 1 and pm.mtype in (1, 4) and not fds and sender != 'E':
                rcv0 = receivers[0]
                sd0_ = P.can_send(rules, uid[sender], gids[uid[sender]], pm, peers[rcv0])
                rd0_ = P.can_receive(rules, uid[rcv0], gids[uid[rcv0]], pm, peers[sender])
                sde = P.can_send(rules, uid[sender], gids[uid[sender]], pm, peers['E'])
                rde = P.can_receive(rules, 0, gids[0], pm, peers[sender], eavesdropping=True)
                if any(x is P.UNSPEC for x in (sd0_, rd0_, sde, rde)):
                    stats['unspec'] += 1
                else:
                    wante = bool(sd0_ and rd0_ and sde and rde)
                    stats['eavesdrop-' + ('allowed' if wante else 'denied')] = stats.get('eavesdrop-' + ('allowed' if wante else 'denied'), 0) + 1
                    if ecopy != wante:
                        attrs = '+'.join(sorted({k for r in test for k in r if k not in ('action', 'context')}))
                        out.append(Violation('denied-but-delivered' if ecopy else 'allowed-but-not-delivered', 'eavesdropper:%s:%s' % (desc.split(' ')[0], attrs),
                                             '%s: the eavesdropping third party %s a copy; documented evaluation: delivery to the addressee %s, send to the eavesdropper %s, eavesdropper may receive %s; test rules %r' %
                                             (desc, 'received' if ecopy else 'did not receive', bool(sd0_ and rd0_), sde, rde, test), None))
        # nobody else may see it
        for l in ('R', 'Q'):
            if l not in receivers and any(o.body and o.body[0][1] == token and o.sender == sess.uname[sender] for o in got[l]):
                out.append(Violation('delivered-to-wrong-connection', desc.split(' ')[0], '%s: %s received it' % (desc, l), None))

    S, Rn = 'S', 'R'
    ser = lambda l: sess.bus.next_serial(sess.slots[l])
    if family in ('send', 'recv'):
        judge('call a.b', S, 'a.b', R.method_call(ser(S), 'a.b', '/p', 'p.i', 'M', body()), P.Msg(1, 'p.i', 'M', '/p'), ['R'])
        judge('call-noiface a.b', S, 'a.b', R.method_call(ser(S), 'a.b', '/p', None, 'M', body()), P.Msg(1, None, 'M', '/p'), ['R'])
        judge('call-othername a.b.c', S, 'a.b.c', R.method_call(ser(S), 'a.b.c', '/p', 'p.i', 'M', body()), P.Msg(1, 'p.i', 'M', '/p'), ['R'])
        judge('call-unique R', S, 'R', R.method_call(ser(S), sess.uname['R'], '/p', 'p.i', 'M', body()), P.Msg(1, 'p.i', 'M', '/p'), ['R'])
        judge('call a.bc', S, 'a.bc', R.method_call(ser(S), 'a.bc', '/p', 'p.i', 'M', body()), P.Msg(1, 'p.i', 'M', '/p'), ['Q'])
        judge('call q.name', S, 'q.name', R.method_call(ser(S), 'q.name', '/p', 'p.i', 'M', body()), P.Msg(1, 'p.i', 'M', '/p'), ['Q'])
        judge('call-othermember a.b', S, 'a.b', R.method_call(ser(S), 'a.b', '/other', 'other.i', 'Other', body()), P.Msg(1, 'other.i', 'Other', '/other'), ['R'])
        judge('signal-unicast a.b', S, 'a.b', R.signal(ser(S), '/p', 'p.i', 'M', body(), dest='a.b'), P.Msg(4, 'p.i', 'M', '/p'), ['R'])
        judge('signal-broadcast', S, None, R.signal(ser(S), '/p', 'p.i', 'M', body()), P.Msg(4, 'p.i', 'M', '/p', has_destination=False), ['R', 'Q'])
        for nm_, mk_ in (('signal-replyserial a.b', lambda: R.signal(ser(S), '/p', 'p.i', 'M', body(), dest='a.b')),
                         ('call-replyserial a.b', lambda: R.method_call(ser(S), 'a.b', '/p', 'p.i', 'M', body()))):
            m_ = mk_()
            m_.fields.append((R.F_REPLY_SERIAL, (b'u', 4242)))
            judge(nm_, S, 'a.b', m_, P.Msg(4 if nm_.startswith('signal') else 1, 'p.i', 'M', '/p'), ['R'])
        judge('return-unrequested R', S, 'R', R.method_return(ser(S), 4242, sess.uname['R'], body()), P.Msg(2, requested_reply=False), ['R'])
        judge('error-unrequested R', S, 'R', R.error(ser(S), 4242, 'p.Err', sess.uname['R'], body()), P.Msg(3, error='p.Err', requested_reply=False), ['R'])
        judge('call-fd a.b', S, 'a.b', R.Msg(R.MT_CALL, 0, ser(S), [(R.F_PATH, (b'o', b'/p')), (R.F_INTERFACE, (b's', b'p.i')), (R.F_MEMBER, (b's', b'M')),
                                                                 (R.F_DESTINATION, (b's', b'a.b')), (R.F_UNIX_FDS, (b'u', 1))], body() + [R.H(0)]),
              P.Msg(1, 'p.i', 'M', '/p', nfds=1), ['R'], fds=[0])
        # requested replies: R calls S first (must itself get through)
        for kind in ('return', 'error'):
            cs = ser('R')
            sess.send('R', R.method_call(cs, sess.uname['S'], '/p', 'p.i', 'Ask', [R.S('ask')]))
            arrived = any(o.kind == R.MT_CALL and o.serial == cs for o in sess.take('S'))
            sess.take('R')
            if not arrived:
                stats['unrealisable'] += 1
                continue
            # a THIRD connection answering with the serial of R's outstanding call to S is not the requested reply
            judge('%s-forged-by-third R' % kind, 'Q', 'R',
                  R.method_return(ser('Q'), cs, sess.uname['R'], body()) if kind == 'return' else R.error(ser('Q'), cs, 'p.Err', sess.uname['R'], body()),
                  P.Msg(2, requested_reply=False) if kind == 'return' else P.Msg(3, error='p.Err', requested_reply=False), ['R'])
            if kind == 'return':
                judge('return-requested R', S, 'R', R.method_return(ser(S), cs, sess.uname['R'], body()), P.Msg(2, requested_reply=True), ['R'])
            else:
                judge('error-requested R', S, 'R', R.error(ser(S), cs, 'p.Err', sess.uname['R'], body()), P.Msg(3, error='p.Err', requested_reply=True), ['R'])
        # the driver
        stats['probes'] += 1
        s0 = ser(S)
        sess.send(S, R.bus_call(s0, 'GetId'))
        rep = sess.take_reply(S, s0)
        sd = P.can_send(rules, S_UID, gids[S_UID], P.Msg(1, 'org.freedesktop.DBus', 'GetId', '/org/freedesktop/DBus'), peers['bus'])
        if sd is P.UNSPEC:
            stats['unspec'] += 1
        else:
            # the reply from the driver must also be receivable by S
            rd = P.can_receive(rules, S_UID, gids[S_UID], P.Msg(2, requested_reply=True), peers['bus'])
            if rd is P.UNSPEC:
                stats['unspec'] += 1
            elif sd and rd:
                if rep is None or rep.kind != R.MT_RETURN:
                    out.append(Violation('allowed-but-not-delivered', 'driver', 'GetId refused (%r); documented evaluation allows it; test rules %r' % (rep, test), None))
            elif not sd:
                if rep is None or rep.kind != R.MT_ERROR or rep.errname != b'org.freedesktop.DBus.Error.AccessDenied':
                    out.append(Violation('denied-but-delivered', 'driver', 'GetId answered %r; documented evaluation denies the send; test rules %r' % (rep, test), None))
        sess.take(S)
    if family == 'own':
        for name in ('a.x', 'a.x.y', 'a.xy', 'a.y', 'b.c.d', 'b.c', 'z.z'):
            stats['probes'] += 1
            want = P.can_own(rules, S_UID, gids[S_UID], name)
            before = sess.impl_key()
            s0, rep = sess.method(S, 'RequestName', [R.S(name), R.U(4)])
            if want is P.UNSPEC:
                stats['unspec'] += 1
                continue
            stats['allowed' if want else 'denied'] += 1
            if want and name in held:
                code = 4 if held[name] == 'owner' else 2          # ALREADY_OWNER / IN_QUEUE (DO_NOT_QUEUE would leave the queue: EXISTS)
                if rep is None or rep.kind != R.MT_RETURN or rep.args() not in ([code], [3]):
                    out.append(Violation('allowed-but-refused', 'own-rerequest', 'after reload RequestName(%r) by its %s answered %r; documented evaluation allows; test rules %r' % (name, held[name], rep, test), None))
            elif want:
                if rep is None or rep.kind != R.MT_RETURN or rep.args() != [1]:
                    out.append(Violation('allowed-but-refused', 'own', 'RequestName(%r) answered %r; documented evaluation allows; test rules %r' % (name, rep, test), None))
                else:
                    sess.method(S, 'ReleaseName', [R.S(name)])
            else:
                if rep is None or rep.kind != R.MT_ERROR or rep.errname != b'org.freedesktop.DBus.Error.AccessDenied':
                    out.append(Violation('denied-but-granted', 'own', 'RequestName(%r) answered %r; documented evaluation denies; test rules %r' % (name, rep, test), None))
                    if rep is not None and rep.kind == R.MT_RETURN:
                        sess.method(S, 'ReleaseName', [R.S(name)])
                elif sess.impl_key() != before:
                    out.append(Violation('denied-own-changed-state', 'own', 'denied RequestName(%r) changed the registry' % name, None))
            sess.take(S)
    return out, stats


def task_configs(t):
    family, base_name, lists = t[:3]
    base = {'open': OPEN_BASE, 'closed-send': CLOSED_SEND_BASE, 'closed-recv': CLOSED_RECV_BASE, 'closed-own': CLOSED_OWN_BASE}[base_name]
    out = []
    stats = {}
    for test in lists:
        case = {'family': family, 'base': base_name, 'test': test, 'reload': (len(t) > 3 and t[3] == 1), 'include': (len(t) > 3 and t[3] == 2)}
        try:
            mode = t[3] if len(t) > 3 else 0
            vs, st = probe_config(base, test, family, reload=(mode == 1), include=(mode == 2))
            if mode == 2:
                st['included'] = 1
        except HarnessDied as e:
            out.append(crash_violation(e, case))
            worker_bus().h.close()
            continue
        for v in vs:
            v.case = case
        out.extend(vs)
        for k, v in st.items():
            stats[k] = stats.get(k, 0) + v
    byfp = {}
    for v in out:
        byfp.setdefault(v.fingerprint, []).append(v)
    return {'viol': [v.to_json() for vs in byfp.values() for v in vs[:2]], 'counts': {k: len(v) for k, v in byfp.items()}, 'n': len(lists), 'stats': stats}


def build_tasks(tier):
    quick = tier == 'quick'
    tasks = []
    thin = 9 if quick else 1

    def add(family, base, lists):
        for i in range(0, len(lists), 25):
            tasks.append((family, base, lists[i:i + 25]))
        # the same configuration reached by RELOAD from an allow-everything start (every 4th list in the quick tier):
        # the decisions must be the same as on a fresh bus, also for connections that already hold or wait for names
        rl = lists[::(4 if quick else 1)] if family != 'own' else lists
        for i in range(0, len(rl), 25):
            tasks.append((family, base, rl[i:i + 25], 1))
        # ... and loaded from an <include>d file (every 6th list in the quick tier)
        il = lists[::(6 if quick else 2)]
        for i in range(0, len(il), 25):
            tasks.append((family, base, il[i:i + 25], 2))
    send = atomic_send_rules()
    recv = atomic_recv_rules()
    own = atomic_own_rules()
    gs = sorted(_groups_of(S_UID))
    ctx_send = ['default', 'user:%d' % S_UID, 'mandatory'] + (['group:%d' % gs[0]] if gs else [])
    g0 = sorted(_groups_of(0))
    ctx_recv = ['default', 'user:0', 'mandatory'] + (['group:%d' % g0[0]] if g0 else [])
    ctx_own = ['default', 'user:%d' % S_UID] + (['group:%d' % gs[0]] if gs else [])
    add('send', 'closed-send', rule_lists(send, ctx_send, 2, thin))
    add('send', 'open', rule_lists(send, ctx_send, 2, thin))
    add('recv', 'closed-recv', rule_lists(recv, ctx_recv, 2, thin))
    add('recv', 'open', rule_lists(recv, ctx_recv, 2, thin))
    add('own', 'closed-own', rule_lists(own, ctx_own, 3 if not quick else 2, 1))
    add('own', 'open', rule_lists(own, ctx_own, 2, 1))
    return tasks


def run(ctx):
    tasks = build_tasks(ctx.tier)
    pool = Pool()
    configs = 0
    done = 0
    stats = {}
    try:
        for r in pool.imap(task_configs, tasks):
            done += 1
            if '__crash__' in r:
                ctx.add_violation(Violation('crash', r['__crash__'], r['stderr'], {'task': r['task']}))
                continue
            configs += r['n']
            ctx.add_violations(r['viol'])
            for fp, c in r['counts'].items():
                ctx.viol_counts[fp] = ctx.viol_counts.get(fp, 0) + max(0, c - min(c, 2))
            for k, v in r['stats'].items():
                stats[k] = stats.get(k, 0) + v
            if ctx.expired():
                ctx.incomplete('deadline hit after %d of %d tasks' % (done, len(tasks)))
                pool.cancel()
                break
    finally:
        pool.close()
    ctx.merge_hits(stats)
    if configs and stats.get('unrealisable', 0) * 2 > configs:
        # vacuity guard: most configurations could not even be set up (e.g. the run directory is not reachable for the other
        # uid the sender connects under): a run that judged next to nothing must not read as "held"
        raise RuntimeError('C06: %d of %d configurations could not be set up (is %s traversable for uid %d?) - nothing was judged' %
                           (stats.get('unrealisable', 0), configs, os.path.dirname(os.path.abspath(__file__)), S_UID))
    ctx.coverage.update({
        'states': configs, 'transitions': stats.get('probes', 0), 'traces_validated_against_impl': stats.get('probes', 0),
        'configurations': configs, 'probes': stats.get('probes', 0), 'judged_allowed': stats.get('allowed', 0), 'judged_denied': stats.get('denied', 0),
        'unspecified_not_judged': stats.get('unspec', 0), 'unrealisable_setups': stats.get('unrealisable', 0), 'configurations_reached_by_reload': stats.get('reloaded', 0), 'configurations_from_included_file': stats.get('included', 0),
        'bound': 'rule lists of <= 2 atomic rules (%d send atoms, %d receive atoms, %d own atoms) x {allow,deny} x 3 contexts over open and closed bases%s; ~17 probes per configuration' %
                 (len(atomic_send_rules()), len(atomic_recv_rules()), len(atomic_own_rules()), ' (pairs thinned 1:9)' if ctx.tier == 'quick' else ''),
        'tasks': len(tasks), 'tasks_done': done,
    })
    ctx.sample({'base': 'closed-send', 'test': [{'action': 'allow', 'context': 'default', 'send_destination_prefix': 'a.b'}], 'probe': 'call a.bc', 'expect': 'denied (a.bc is not under a.b)'})
    ctx.assumptions = ['pyv/models/policy.py transcribes the manual', 'UNSPEC cases are not judged']
    ctx.replay_fn = replay


def replay(case):
    r = task_configs((case['family'], case['base'], [case['test']], 1 if case.get('reload') else (2 if case.get('include') else 0)))
    return [Violation.from_json(v) for v in r['viol']]
