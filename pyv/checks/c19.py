"""C19 — auto-started services get held messages once, in order, or callers get errors;
the activation helper validates what it executes.

Bus part: BFS over histories of auto-start calls, StartServiceByName,
"the service takes the name", "another name is taken", stub exits with a
status, start timeout, sender disconnects, on an in-process session bus whose
service files start harness/vstub (a real child process that logs its start
and then waits for the harness).  Model: pyv/models inline (pending activation
per name; waiters; exactly one outcome per waiter).
Helper part: exhaustive product of name arguments x service-directory contents
for the repository's dbus-daemon-launch-helper-for-tests (the real validation
chain with only user switching stubbed); Exec points at harness/vrecorder."""
import itertools
import os
import re
import shlex
import shutil
import signal
import subprocess
import time

from .. import refdbus as R
from .. import grammars as G
from .. import busbox as B
from .. import explore
from .. import vbox
from ..engine import Pool, Violation, crash_violation
from ..vbox import HarnessDied, harness_path
from ..session import BusSession
from ..registry import claim

claim('C19', 'model_checking',
      'explicit-state BFS over activation histories on the real bus with real child processes under harness control, plus an exhaustive product of helper invocations, judged by an activation model and an exec-iff-valid predicate',
      'Bus: histories of auto-start calls and StartServiceByName by several senders to two activatable names (plus one whose binary is missing), a harness client taking the name / another name, the stub exiting with status 0/1/SIGSEGV, '
      'the start timeout and sender disconnects are explored breadth-first; the start log must show at most one start per pending activation, held messages must be delivered exactly once in arrival order when the name is taken, '
      'and every waiter must get exactly one error if starting fails, the process exits unsuccessfully or the timeout passes; the implementation\'s pending-activation table must equal the model, also across a reload of the configuration while activations are pending (quick tier: one name to depth 4, two names - same program, different arguments - to depth 3). '
      'Helper: for every (name argument x service-file content x directory layout) combination the recorder program runs iff the name is a valid bus name whose file in a configured directory declares that name, an Exec that parses and a User; its argv equals the reference split.',
      'The babysitter reports child exits asynchronously: the harness alternates loop iterations with short sleeps until the report is consumed (real-time guard 3 s). A stub that exits 0 without taking the name and services sharing one Exec string are judged only for "one outcome per waiter".',
      'DESIGN.md section 4 C19')

FACTORY = 'pyv.checks.c19:Session'
S1, S2, S3 = b'com.example.S1', b'com.example.S2', b'com.example.Missing'
TIMEOUT = 10000


class Session(BusSession):
    COUNTER_ATTRS = ('tok',)

    def __init__(self, params):
        self.svcdir = None
        BusSession.__init__(self, params)
        self.pending = {}      # name -> list of waiters: ('call', label, serial, token) | ('start', label, serial)
        self.started = {}      # name -> number of starts the model expects in the log
        self.running = {}      # name -> True while a stub process of that activation is alive
        self.tok = 0
        self.age = {}
        self.optional_tokens = set()
        for l in ('X', 'Y', 'T') + (('Z',) if params.get('systemd') else ()):
            self.connect_slot(l)
            self.take(l)
        self.sd_owner = False          # (systemd mode) Z owns org.freedesktop.systemd1

    def config(self):
        # service files live in the harness run directory of this worker
        h = self.bus.h if hasattr(self, 'bus') else None
        from ..engine import worker_bus
        b = worker_bus()
        if b.h.proc is None:
            b.h.start()
        d = os.path.join(b.h.rundir, 'services')
        shutil.rmtree(d, ignore_errors=True)
        os.makedirs(d)
        self.svcdir = d
        self.logdir = os.path.join(b.h.rundir, 'stublog')
        shutil.rmtree(self.logdir, ignore_errors=True)
        os.makedirs(self.logdir)
        stub = harness_path('vstub')
        sd = bool(self.params.get('systemd'))
        b.h.cmd('BUSFLAGS %d' % (16 if sd else 0))          # 16 = BUS_CONTEXT_FLAG_SYSTEMD_ACTIVATION (dbus-daemon --systemd-activation)
        helper = bool(self.params.get('helper'))
        extra = ''
        if helper:
            # activation through a <servicehelper> (how the system bus starts services): the bus runs "<helper> <name>" and
            # maps the helper's exit status to an error of its own (bus/activation.c handle_servicehelper_exit_error).  The
            # helper here is a two-line script that becomes the stub, so the harness decides its exit status as usual.
            hp = os.path.join(b.h.rundir, 'helper.sh')
            with open(hp, 'w') as f:
                f.write('#!/bin/sh\nexec %s %s "$1"\n' % (stub, self.logdir))
            os.chmod(hp, 0o755)
            extra = '  <servicehelper>%s</servicehelper>\n' % hp
        for name in (S1, S2):
            with open(os.path.join(d, name.decode() + '.service'), 'w') as f:
                f.write('[D-BUS Service]\nName=%s\nExec=%s %s %s\n%s%s' % (name.decode(), stub, self.logdir, name.decode(), 'User=root\n' if helper else '',
                                                                              ('SystemdService=%s.service\n' % name.decode()) if sd else ''))
        with open(os.path.join(d, S3.decode() + '.service'), 'w') as f:
            f.write('[D-BUS Service]\nName=%s\nExec=%s/does-not-exist\n' % (S3.decode(), self.logdir))
        # held messages are subject to policy when they are finally delivered: Forbidden is refused at the recipient
        pol = B.PERMISSIVE_POLICY.replace('</policy>', '  <deny receive_interface="svc.i" receive_member="Forbidden"/>\n  </policy>')
        return B.make_config(policy=pol, servicedirs=[d], limits={'service_start_timeout': TIMEOUT}, extra=extra)

    # ---- alphabet ---------------------------------------------------------
    def ops(self):
        ops = []
        names = [0, 1] if not self.params.get('small') else [0]
        for l in ('X', 'Y'):
            if not self.is_open(l):
                continue
            for i in names:
                ops.append(['call', l, i])
                ops.append(['start', l, i])
            ops.append(['fcall', l, 0])      # a call the service's receive policy refuses
            ops.append(['call', l, 2])
            ops.append(['disc', l])
        if self.params.get('systemd'):
            # the harness plays systemd: it may appear on the bus (and is then handed the queued ActivationRequest signals),
            # and it may report that starting a unit failed
            if not self.sd_owner:
                ops.append(['sdtake'])
            else:
                for i in names:
                    if (S1, S2)[i] in self.pending:
                        ops.append(['sdfail', i])
        for i in names:
            n = (S1, S2)[i]
            ops.append(['take', i])
            if n in self.pending and self.running.get(n):
                for st in (('0', '1', 'S') if not self.params.get('helper') else ('0', '1', '2', '3', '4', '5', '6', '7', '8', '9', 'S')):
                    ops.append(['exit', i, st])
        ops.append(['takeother'])
        ops.append(['reload'])           # the same configuration is read again (SIGHUP / ReloadConfig): nothing observable may change
        if self.pending:
            ops.append(['advance', TIMEOUT + 1000])
        return ops

    # ---- helpers -------------------------------------------------------------------
    def start_log(self):
        p = os.path.join(self.logdir, 'starts.log')
        out = {}
        pids = {}
        if os.path.exists(p):
            for line in open(p):
                f = line.split()
                if len(f) == 3:
                    out[f[1].encode()] = out.get(f[1].encode(), 0) + 1
                    pids.setdefault(f[1].encode(), []).append(int(f[2]))
        self.pids = pids
        return out

    def settle(self, want_gone=None, want_started=None, want_closed=None):
        """Alternate loop iterations with short sleeps until child-process effects have been consumed."""
        deadline = time.time() + 12.0      # generous: only a genuinely stuck bus waits this long (child processes are real and the machine may be loaded)
        while time.time() < deadline:
            self._distribute(self.bus.recvall())
            self.bus.pump()
            self._distribute(self.bus.recvall())
            ok = True
            if want_started is not None:
                log = self.start_log()
                ok = ok and all(log.get(n, 0) >= c for n, c in want_started.items())
            if want_gone is not None:
                d = self.bus.dump()
                ok = ok and not any(('pending %s ' % n.decode()) in d for n in want_gone)
            if want_closed is not None:
                # the bus has noticed the disconnect (child-process events can interleave with it)
                ok = ok and ('conn @%s ' % want_closed) not in self.impl_key()
            if ok:
                return True
            time.sleep(0.004)
        if os.environ.get('VERIF_DEBUG_SLOW'):
            open(os.environ['VERIF_DEBUG_SLOW'], 'a').write('settle timed out: gone=%r started=%r closed=%r key=%s\n' % (want_gone, want_started, want_closed, self.impl_key()[:300]))
        return False

    def waiters_expect_error(self, name, want):
        for w in self.pending.pop(name, []):
            if self.is_open(w[1]):
                want.setdefault(w[1], []).append(('err', w[2]))
        self.age.pop(name, None)

    def impl_pending(self):
        d = self.bus.dump()
        out = {}
        for line in d.split('|'):
            if line.startswith('pending '):
                f = line.split(' ')
                out[f[1].encode()] = int(f[2].split('=')[1])
        out.pop(b'org.freedesktop.systemd1', None)      # (systemd mode) the bus's own wait for systemd to appear
        return out

    def judge(self, want, out, desc, deliver_order=None):
        """want: label -> list of expected items ('err', serial) / ('ret', serial, code) / ('tok', token)"""
        for l in set(want) | set(self.inbox):
            got = []
            for o in self.take(l):
                if o.sender == R.BUS and o.kind == R.MT_SIGNAL:
                    continue
                if o.sender == R.BUS and o.kind == R.MT_ERROR:
                    got.append(('err', o.rserial))
                elif o.sender == R.BUS and o.kind == R.MT_RETURN:
                    got.append(('ret', o.rserial, tuple(o.args())))
                elif o.body and o.body[0][0] == b's':
                    bad = [c for c, _ in o.msg.fields if c > 9]
                    if bad or o.sender == b':9.99':
                        out.append(Violation('forged-field-relayed', 'held-message', '%s: %s received a held message with header field codes %r / sender %r' % (desc, l, bad, o.sender), None))
                    if o.body[0][1] in self.optional_tokens:
                        continue
                    got.append(('tok', o.body[0][1]))
            w = want.get(l, [])
            if l == 'T':
                if got != w:
                    gt = [g[1] for g in got if g[0] == 'tok']
                    wt = [x[1] for x in w if x[0] == 'tok']
                    if sorted(gt) == sorted(wt) and gt != wt:
                        clause = 'held-messages-out-of-order'
                    elif len(gt) > len(set(gt)):
                        clause = 'held-message-delivered-twice'
                    elif len(gt) < len(wt):
                        clause = 'held-message-lost'
                    else:
                        clause = 'unexpected-delivery'
                    out.append(Violation(clause, 'service', '%s: the service connection received %r, expected %r' % (desc, got, w), None))
            else:
                if sorted(map(repr, got)) != sorted(map(repr, w)):
                    ge = [g for g in got if g[0] == 'err']
                    we = [x for x in w if x[0] == 'err']
                    if len(ge) > len(we):
                        clause = 'waiter-error-twice' if len(set(ge)) < len(ge) else 'waiter-unexpected-error'
                    elif len(ge) < len(we):
                        clause = 'waiter-got-no-outcome'
                    else:
                        clause = 'waiter-reply-differs'
                    out.append(Violation(clause, 'sender', '%s: %s received %r, expected %r' % (desc, l, got, w), None))

    # ---- transitions ----------------------------------------------------------------
    def apply(self, op):
        out = []
        kind = op[0]
        desc = repr(op)
        want = {}
        if kind in ('call', 'start', 'fcall'):
            l, i = op[1], op[2]
            name = (S1, S2, S3)[i]
            c = self.slots[l]
            s = self.bus.next_serial(c)
            owned = self.owner_of(name)
            if kind == 'call':
                self.tok += 1
                tok = b'K%d' % self.tok
                m = R.method_call(s, name, '/svc', 'svc.i', 'Work', [R.S(tok)], flags=1)
                # the raw client also places fields only the bus may set or nobody knows: a message that was held for an
                # activation must be cleaned like any other before it reaches the service
                m.fields.append((R.F_SENDER, (b's', b':9.99')))
                m.fields.insert(1, (200, (b'(sv)', [(b's', b'forged'), (b'v', (b'u', 7))])))
                m.fields.append((R.F_CONTAINER_INSTANCE, (b'o', b'/forged/instance')))
            elif kind == 'fcall':
                self.tok += 1
                tok = b'F%d' % self.tok
                m = R.method_call(s, name, '/svc', 'svc.i', 'Forbidden', [R.S(tok)])
            else:
                m = R.bus_call(s, 'StartServiceByName', [R.S(name), R.U(0)])
            self.send(l, m)
            if owned is not None:
                if kind == 'call':
                    want.setdefault(owned, []).append(('tok', tok))
                elif kind == 'fcall':
                    want.setdefault(l, []).append(('err', s))        # refused by the recipient's policy: one error, no delivery
                else:
                    want.setdefault(l, []).append(('ret', s, (2,)))       # DBUS_START_REPLY_ALREADY_RUNNING
                self.hit(kind + '-owned')
            elif i == 2:
                # the binary does not exist: spawning fails, the waiter gets exactly one error
                self.settle(want_gone=[name])
                want.setdefault(l, []).append(('err', s))
                self.hit(kind + '-spawn-fails')
            else:
                first = name not in self.pending
                self.pending.setdefault(name, []).append((kind, l, s, tok if kind in ('call', 'fcall') else None))
                if self.params.get('systemd'):
                    # handed to systemd: no process of ours is started; the request waits for the name, a failure report
                    # from systemd, or the start timeout
                    if first:
                        self.age[name] = 0
                    self.hit('activation-via-systemd' + ('' if first else '-joined'))
                    self.settle()
                elif first:
                    self.started[name] = self.started.get(name, 0) + 1
                    self.running[name] = True
                    self.age[name] = 0
                    self.hit('activation-started')
                else:
                    self.hit('activation-joined')
                if not self.params.get('systemd') and not self.settle(want_started={name: self.started[name]}):
                    out.append(Violation('service-not-started', 'spawn', '%s: the start log does not show start #%d of %s' % (desc, self.started[name], name.decode()), None))
        elif kind == 'take':
            name = (S1, S2)[op[1]]
            s, rep = self.method('T', 'RequestName', [R.S(name), R.U(4)])
            if rep is None or rep.kind != R.MT_RETURN:
                out.append(Violation('take-name-failed', 'RequestName', '%s answered %r' % (desc, rep), None))
                return out
            self.settle()
            if rep.args() == [1]:
                for w in self.pending.pop(name, []):
                    if w[0] == 'fcall':
                        # refused when it is finally dispatched: its sender is told, and the messages held BEHIND it are unaffected
                        if self.is_open(w[1]):
                            want.setdefault(w[1], []).append(('err', w[2]))
                        self.hit('held-message-refused-by-policy')
                    elif w[0] == 'call':
                        if self.is_open(w[1]):
                            want.setdefault('T', []).append(('tok', w[3]))
                        else:
                            self.optional_tokens.add(w[3])      # held message of a sender that has gone: delivery not decided by the property
                    elif self.is_open(w[1]):
                        want.setdefault(w[1], []).append(('ret', w[2], (1,)))       # DBUS_START_REPLY_SUCCESS
                self.age.pop(name, None)
                self.hit('name-taken')
        elif kind == 'sdtake':
            s, rep = self.method('Z', 'RequestName', [R.S(b'org.freedesktop.systemd1'), R.U(4)])
            self.settle()
            if rep is None or rep.kind != R.MT_RETURN or rep.args() != [1]:
                out.append(Violation('take-name-failed', 'RequestName', '%s answered %r' % (desc, rep), None))
                return out
            self.sd_owner = True
            # whatever was waiting for systemd to appear is handed to it now: one ActivationRequest per pending activation
            reqs = [o for o in self.take('Z') if o.kind == R.MT_SIGNAL and o.member == b'ActivationRequest']
            units = sorted(o.args()[0] for o in reqs)
            wantu = sorted(n + b'.service' for n in self.pending)
            # (a request for an activation that has meanwhile ended - name taken, timed out - may still be in the queue: the
            # bus cannot recall it and the property does not ask it to; every activation still pending must be among them, once)
            known = {n + b'.service' for n in (S1, S2)}
            if any(units.count(u) != 1 for u in wantu) or any(u not in known for u in units):
                out.append(Violation('activation-request', 'systemd', '%s: systemd was asked to start %r, pending activations are %r' % (desc, units, wantu), None))
            self.hit('systemd-appears')
        elif kind == 'sdfail':
            name = (S1, S2)[op[1]]
            c = self.slots['Z']
            ser = self.bus.next_serial(c)
            m = R.signal(ser, R.BUS_PATH, b'org.freedesktop.systemd1.Activator', 'ActivationFailure',
                         [R.S(name + b'.service'), R.S(b'org.freedesktop.systemd1.UnitFailed'), R.S(b'no such unit')], dest=R.BUS)
            self.send('Z', m)
            self.settle()
            self.waiters_expect_error(name, want)
            self.hit('systemd-reports-failure')
        elif kind == 'takeother':
            self.method('T', 'RequestName', [R.S(b'com.example.Other'), R.U(4)])
            self.settle()
        elif kind == 'reload':
            self.bus.reload(self.bus.config)
            self.hit('reload-with-pending' if self.pending else 'reload-idle')
            self.settle()
        elif kind == 'exit':
            name = (S1, S2)[op[1]]
            st = op[2]
            fifo = os.path.join(self.logdir, 'ctl-' + name.decode())
            self.write_fifo(fifo, st)
            self.running[name] = False
            if st == '0':
                # a successful exit without taking the name: the bus deliberately waits for the timeout.  Nothing observable
                # is required to change, so wait for the process to be gone and for the bus's state to stop moving
                # (whatever the bus does on noticing the exit must have happened before the next operation).
                self.start_log()
                pid = (self.pids.get(name) or [None])[-1]
                t_end = time.time() + 12.0
                while pid and time.time() < t_end:
                    try:
                        os.kill(pid, 0)
                    except ProcessLookupError:
                        break
                    except PermissionError:
                        pass
                    time.sleep(0.003)
                last, same = None, 0
                t_end = time.time() + 12.0
                while same < 4 and time.time() < t_end:
                    self.settle()
                    d = self.bus.dump()
                    same = same + 1 if d == last else 0
                    last = d
                    time.sleep(0.01)
                self.hit('exit-0')
            else:
                if not self.settle(want_gone=[name]):
                    out.append(Violation('failed-start-not-noticed', 'exit-' + st, '%s: the pending activation of %s is still there after the process died' % (desc, name.decode()), None))
                self.waiters_expect_error(name, want)
                self.hit('exit-fail')
        elif kind == 'advance':
            for n in list(self.age):
                self.age[n] += op[1]
            self.advance(op[1])
            self.settle()
            # a timer that fires may kill a started process; what the bus does when it notices that death belongs to THIS
            # operation: wait until neither the set of live stub processes nor the bus's state moves any more
            self.start_log()
            allp = [p_ for ps in self.pids.values() for p_ in ps]

            def alive():
                out_ = []
                for p_ in allp:
                    try:
                        os.kill(p_, 0)
                        out_.append(p_)
                    except ProcessLookupError:
                        pass
                    except PermissionError:
                        out_.append(p_)
                return out_
            last, same = None, 0
            t_end = time.time() + 12.0
            while same < 4 and time.time() < t_end:
                self.settle()
                cur = (self.bus.dump(), tuple(alive()))
                same = same + 1 if cur == last else 0
                last = cur
                time.sleep(0.004)
            for n in list(self.pending):
                if self.age.get(n, 0) > TIMEOUT:
                    self.waiters_expect_error(n, want)
                    self.hit('start-timeout')
        elif kind == 'disc':
            l = op[1]
            self.close_slot(l)
            self.settle(want_closed=l)
            # its requests stay in the pending activation (inert): nothing is owed to a sender that is gone
        self.judge(want, out, desc)
        if not out:
            # at most one start per pending activation
            log = self.start_log()
            for n, cnt in log.items():
                if cnt != self.started.get(n, 0):
                    out.append(Violation('started-more-than-once', 'spawn', '%s: %s was started %d times, the model expects %d' % (desc, n.decode(), cnt, self.started.get(n, 0)), None))
            ip = self.impl_pending()
            mp = {n: len(w) for n, w in self.pending.items()}
            # a pending activation whose waiters all went away may linger until timeout/exit: compare only non-empty ones
            if {n: c for n, c in ip.items() if c} != {n: c for n, c in mp.items() if c}:
                out.append(Violation('pending-activations-differ', 'dump', '%s: implementation %r, model %r' % (desc, ip, mp), None))
        return out

    def owner_of(self, name):
        d = self.impl_key()
        for line in d.split('|'):
            if line.startswith('svc %s ' % name.decode()):
                return line.split(' ')[2].split(':')[0].lstrip('@')
        return None

    def write_fifo(self, fifo, st):
        deadline = time.time() + 2.0
        while time.time() < deadline:
            try:
                fd = os.open(fifo, os.O_WRONLY | os.O_NONBLOCK)
                os.write(fd, st.encode())
                os.close(fd)
                return True
            except OSError:
                time.sleep(0.003)
        return False

    def key(self):
        k = re.sub(r'serial=\d+', 'serial=*', self.impl_key())
        k = re.sub(r'/\d+,', '/*,', k)
        mp = sorted((n, [(w[0], w[1]) for w in ws], self.age.get(n), self.running.get(n)) for n, ws in self.pending.items())
        return k + '#' + repr(mp)

    def kill_stubs(self):
        try:
            self.start_log()
            for n, pids in getattr(self, 'pids', {}).items():
                for p in pids:
                    try:
                        os.kill(p, signal.SIGKILL)
                    except OSError:
                        pass
        except Exception:
            pass

    def died(self):
        self.kill_stubs()
        self.bus.h.close()

    def close(self):
        self.kill_stubs()


# ---- helper product -----------------------------------------------------------

EXEC_FORMS = ['plain a b', "'single quoted' x", '"double q arg" y', 'esc\\sspace z', 'bad\\qescape', 'trailing\\', "'unterminated", '"unterminated', '', None]


def desktop_unescape(v):
    """bus/desktop-file value escapes: \\s \\t \\n \\r \\\\ ; anything else makes the file invalid (None)."""
    out = ''
    i = 0
    while i < len(v):
        if v[i] == '\\':
            if i + 1 >= len(v) or v[i + 1] not in 'stnr\\':
                return None
            out += {'s': ' ', 't': '\t', 'n': '\n', 'r': '\r', '\\': '\\'}[v[i + 1]]
            i += 2
        else:
            out += v[i]
            i += 1
    return out


def helper_cases():
    names = [b'com.example.Svc', b'com.example/Svc', b'../x', b'', b'a.' + b'b' * 254, b':1.5', b'com.ex\xc3\xa9mple.Svc', b'com.example.Outside', b'single']
    cases = []
    for name in names:
        for present in ('dir1', 'dir2', 'both-good-first', 'both-bad-first', 'absent'):
            for namekey in ('same', 'different', 'missing', 'prefix', 'longer', 'empty'):
                for ex in EXEC_FORMS:
                    for user in (True, False):
                        for dup in (False, True):
                            if dup and (namekey != 'same' or ex != EXEC_FORMS[0]):
                                continue
                            cases.append((name, present, namekey, ex, user, dup))
    return cases


def run_helper(workdir, case, idx):
    name, present, namekey, ex, user, dup = case
    helper = os.path.join(vbox.BUILD_ROOT, 'asan', 'bin', 'dbus-daemon-launch-helper-for-tests')
    rec = harness_path('vrecorder')
    d = os.path.join(workdir, 'h%d' % idx)
    shutil.rmtree(d, ignore_errors=True)
    os.makedirs(os.path.join(d, 'dir1'))
    os.makedirs(os.path.join(d, 'dir2'))
    os.makedirs(os.path.join(d, 'outside'))
    outfile = os.path.join(d, 'ran.txt')

    def content(good_name=True):
        lines = ['[D-BUS Service]']
        if namekey != 'missing':
            # near misses of the requested name: only a file declaring EXACTLY that name is valid
            nm = {'same': name, 'prefix': name[:-1], 'longer': name + b'x', 'empty': b''}.get(namekey, b'com.example.Different')
            if not good_name:
                nm = b'com.example.Different'
            lines.append('Name=' + nm.decode('latin-1'))
        if ex is not None:
            lines.append('Exec=%s %s %s' % (rec, outfile, ex) if ex != '' else 'Exec=')
        if user:
            lines.append('User=root')
        if dup:
            lines.append('[D-BUS Service]')
            lines.append('Name=x.y')
        return '\n'.join(lines) + '\n'
    try:
        fname = name.decode('latin-1') + '.service'
        if b'/' not in name and name not in (b'', b'..') and len(fname) < 250:
            if present in ('dir1', 'both-good-first'):
                open(os.path.join(d, 'dir1', fname), 'w', encoding='latin-1').write(content(True))
            if present == 'both-bad-first':
                open(os.path.join(d, 'dir1', fname), 'w', encoding='latin-1').write(content(False))
            if present in ('dir2', 'both-good-first', 'both-bad-first'):
                open(os.path.join(d, 'dir2', fname), 'w', encoding='latin-1').write(content(True))
        if name == b'com.example.Outside':
            open(os.path.join(d, 'outside', fname), 'w').write(content(True))
            for sub in ('dir1', 'dir2'):
                try:
                    os.unlink(os.path.join(d, sub, fname))
                except OSError:
                    pass
    except (OSError, ValueError):
        pass
    cfg = os.path.join(d, 'helper.conf')
    open(cfg, 'w').write('<busconfig>\n<user>root</user>\n<listen>unix:path=%s/x</listen>\n<servicedir>%s</servicedir>\n<servicedir>%s</servicedir>\n<policy context="default"><allow user="*"/></policy>\n</busconfig>\n' %
                         (d, os.path.join(d, 'dir1'), os.path.join(d, 'dir2')))
    env = dict(os.environ)
    env.update(vbox.ASAN_ENV)
    env['TEST_LAUNCH_HELPER_CONFIG'] = cfg
    try:
        p = subprocess.run([helper, name], env=env, stdout=subprocess.PIPE, stderr=subprocess.PIPE, timeout=30)
        rc, err = p.returncode, p.stderr.decode('latin-1')[-800:]
    except ValueError:
        rc, err = 'unspawnable', ''      # NUL in argv etc.
    except subprocess.TimeoutExpired:
        rc, err = 'timeout', ''
    ran = os.path.exists(outfile)
    argv = None
    if ran:
        lines = open(outfile).read().split('\n')
        argv = [bytes.fromhex(x).decode('latin-1') for x in lines[1:] if x != '' or False]
    # ---- reference predicate
    on_disk = present if name != b'com.example.Outside' else 'absent'
    file_ok = namekey == 'same' and ex not in (None,) and user
    exec_ok = False
    want_argv = None
    loadable = True
    if ex is not None and ex != '':
        un = desktop_unescape(ex)
        if un is None:
            loadable = False       # the file itself does not parse: it is skipped like a missing file
        else:
            try:
                want_argv = shlex.split(un, posix=True)
                exec_ok = True
            except ValueError:
                exec_ok = False
    valid_name = G.valid_bus_name(name) or G.why_invalid('bus', name) == 'unique-name-elements'
    if not loadable:
        should = False
    elif dup:
        should = None          # two sections of the same name: which one "declares" the name is not decided by the property
    elif on_disk in ('dir1', 'dir2', 'both-good-first'):
        should = valid_name and file_ok and exec_ok
    elif on_disk == 'both-bad-first':
        should = None if (valid_name and file_ok and exec_ok) else False      # first file declares another name: refusing or falling through are both defensible
        if dup:
            should = None
    else:
        should = False
    shutil.rmtree(d, ignore_errors=True)
    vs = []
    cj = {'helper': [name.hex(), present, namekey, ex, user, dup]}
    if rc in ('timeout',):
        vs.append(Violation('helper-hang', 'timeout', 'helper did not finish for %r' % (case,), cj))
    if isinstance(rc, int) and rc < 0:
        vs.append(Violation('crash', 'helper-signal-%d' % -rc, 'helper died with signal %d for %r: %s' % (-rc, case, err), cj))
    if 'Sanitizer' in err or 'runtime error' in err:
        vs.append(Violation('crash', vbox.crash_fingerprint(err, 'helper'), 'helper sanitizer report for %r: %s' % (case, err), cj))
    if should is not None and ran != should:
        if ran:
            why = 'invalid-name' if not valid_name else ('no-file-in-configured-dirs' if on_disk == 'absent' else ('name-mismatch' if namekey != 'same' else ('no-user' if not user else ('duplicate-section' if dup else 'exec'))))
            vs.append(Violation('helper-executed-invalid', why, 'the helper executed the program although the request is invalid (%s): %r' % (why, case), cj))
        else:
            vs.append(Violation('helper-refused-valid', 'exec', 'the helper refused a valid activation %r (rc=%r, %s)' % (case, rc, err[-200:]), cj))
    if ran and should and argv != want_argv:
        vs.append(Violation('helper-argv', 'split', 'the program received argv %r, reference split %r' % (argv, want_argv), cj))
    if not ran and isinstance(rc, int) and rc == 0 and should is False:
        vs.append(Violation('helper-exit-status', 'zero-on-refusal', 'helper exited 0 without running anything for %r' % (case,), cj))
    return vs, ran


def task_helper(t):
    workdir, items = t
    out = []
    nran = 0
    for idx, case in items:
        vs, ran = run_helper(workdir, case, idx)
        out.extend(vs)
        nran += 1 if ran else 0
    return {'viol': [v.to_json() for v in out[:10]], 'n': len(items), 'ran': nran}


def run(ctx):
    quick = ctx.tier == 'quick'
    depth = 4 if quick else 5
    if quick:
        with ctx.sub_budget(0.55):
            st = explore.bfs(ctx, FACTORY, {'small': True}, max_depth=depth, ops_chunk=6)
        # two activatable names at once (their service files run the same program with different arguments): shallower
        with ctx.sub_budget(0.8):
            st2 = explore.bfs(ctx, FACTORY, {'small': False}, max_depth=3, ops_chunk=6)
        # the same through a <servicehelper>, whose exit statuses 1..9 each stand for an error of their own
        with ctx.sub_budget(0.9):
            st3 = explore.bfs(ctx, FACTORY, {'small': True, 'helper': True}, max_depth=3, ops_chunk=6)
        # and with the start handed to systemd (--systemd-activation, SystemdService=): the harness plays systemd, which may
        # appear late, report a failure, or stay silent until the start timeout
        with ctx.sub_budget(0.95):
            st4 = explore.bfs(ctx, FACTORY, {'small': True, 'systemd': True}, max_depth=3, ops_chunk=6)
        st2 = dict(st2, states=st2['states'] + st3['states'] + st4['states'], transitions=st2['transitions'] + st3['transitions'] + st4['transitions'])
        st = dict(st, via_systemd={'states': st4['states'], 'transitions': st4['transitions'], 'completed_depth': st4['completed_depth']})
        st = dict(st, via_helper={'states': st3['states'], 'transitions': st3['transitions'], 'completed_depth': st3['completed_depth']})
        st = dict(st, states=st['states'] + st2['states'], transitions=st['transitions'] + st2['transitions'], two_names={'states': st2['states'], 'transitions': st2['transitions'], 'completed_depth': st2['completed_depth']})
    else:
        # each part gets its share of the budget (the first one alone can use up forty minutes)
        with ctx.sub_budget(0.5):
            st = explore.bfs(ctx, FACTORY, {'small': False}, max_depth=depth, ops_chunk=6)
        with ctx.sub_budget(0.45):
            st3 = explore.bfs(ctx, FACTORY, {'small': False, 'helper': True}, max_depth=4, ops_chunk=6)
        st = dict(st, states=st['states'] + st3['states'], transitions=st['transitions'] + st3['transitions'], via_helper={'states': st3['states'], 'transitions': st3['transitions'], 'completed_depth': st3['completed_depth']})
        with ctx.sub_budget(0.8):
            st4 = explore.bfs(ctx, FACTORY, {'small': False, 'systemd': True}, max_depth=4, ops_chunk=6)
        st = dict(st, states=st['states'] + st4['states'], transitions=st['transitions'] + st4['transitions'], via_systemd={'states': st4['states'], 'transitions': st4['transitions'], 'completed_depth': st4['completed_depth']})
    cases = helper_cases()
    workdir = os.path.join(vbox.RUN_ROOT, 'helper')
    os.makedirs(workdir, exist_ok=True)
    items = list(enumerate(cases))
    tasks = [(workdir, items[i:i + 40]) for i in range(0, len(items), 40)]
    pool = Pool()
    nhelper = nran = 0
    try:
        for r in pool.imap(task_helper, tasks):
            if '__crash__' in r:
                ctx.add_violation(Violation('crash', r['__crash__'], r['stderr'], {'task': r['task']}))
                continue
            ctx.add_violations(r['viol'])
            nhelper += r['n']
            nran += r['ran']
    finally:
        pool.close()
    ctx.hit('helper-executed', nran)
    ctx.coverage.update({
        'states': st['states'], 'transitions': st['transitions'] + nhelper, 'traces_validated_against_impl': st['transitions'] + nhelper,
        'activation_histories': {'states': st['states'], 'transitions': st['transitions'], 'completed_depth': st['completed_depth'], 'fixpoint': st['fixpoint']},
        'helper_invocations': nhelper, 'helper_executions': nran, 'two_names_variant': st.get('two_names'), 'via_servicehelper': st.get('via_helper'), 'via_systemd_activation': st.get('via_systemd'),
        'bound': 'bus: 2 senders, %d activatable names + 1 with a missing binary, take-name / take-other-name / stub exit 0,1,SIGSEGV / start timeout / disconnect, BFS depth %d; helper: %d (name x layout x Name x Exec form x User x duplicate-section) combinations' %
                 (1 if quick else 2, depth, nhelper),
    })
    ctx.sample({'history': [['call', 'X', 0], ['start', 'Y', 0], ['take', 0]], 'expect': 'one start in the log; T receives K1; Y gets reply 1'})
    ctx.sample({'helper': ['com.example.Svc', 'both-bad-first', 'same', 'plain a b', True, False]})
    ctx.assumptions = ['child-exit reports are awaited with a 3 s real-time guard', 'shlex.split(posix=True) is the reference for the Exec forms used']
    ctx.replay_fn = replay


def replay(case):
    if 'helper' in case:
        n, present, namekey, ex, user, dup = case['helper']
        workdir = os.path.join(vbox.RUN_ROOT, 'helper')
        os.makedirs(workdir, exist_ok=True)
        vs, ran = run_helper(workdir, (bytes.fromhex(n), present, namekey, ex, user, dup), 0)
        return vs
    return explore.replay_history(FACTORY, case['params'], case['history'])
