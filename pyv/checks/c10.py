"""C10 — one misbehaving client cannot crash, corrupt or stall the bus.

Exhaustive product of hostile steps against an in-process bus (ASan + UBSan +
assertions) that also serves a well-behaved client pair A (caller) / B (callee)
and a monitor M:
  * every single-site mutation (byte replacement at every offset, every
    aligned length word to limit values, every truncation, trailing garbage)
    of every message of a valid traffic corpus, written by a registered
    hostile client, by one that authenticated but never said Hello, and by an
    unauthenticated one;
  * every truncation followed by silence or by close;
  * handshake abuse: every sequence of <= 2 SASL commands followed by message
    bytes; oversize claims; max_incomplete_connections + 2 simultaneous
    unauthenticated connections then the auth timeout; a flood of valid
    messages that the hostile client never reads.
After EVERY step: the loop must go idle within an iteration budget, an A -> B -> A
round trip must complete with the right payload, nothing of an invalid message
may be visible to A, B or M, the hostile client must see EOF after an invalid
message, and after closing the hostile sockets the bus's state dump and
descriptor count must equal their pre-attack values."""
import itertools
import re

from .. import gen
from .. import refdbus as R
from .. import busbox as B
from ..engine import Pool, Violation, worker_bus, crash_violation
from ..vbox import HarnessDied
from ..session import BusSession, NOC_RULE as NOC_RULE_
from ..registry import claim

claim('C10', 'model_checking',
      'exhaustive enumeration of hostile byte streams (every single-site mutation / truncation of a traffic corpus in three connection states, handshake abuse, floods) against the real bus, with liveness, isolation, state-restoration and sanitizer oracles after every step',
      'Each hostile step is executed on an in-process bus that keeps serving a caller/callee pair and a monitor. After every step the event loop must reach quiescence within an iteration budget, a bystander round trip must succeed, '
      'any message other clients or the monitor receive from the hostile connection must be one of the VALID messages of its stream (independent splitter), an invalid message must end in EOF for its sender only, and after the hostile sockets are closed '
      'the canonical state dump and the process descriptor count must be back at their pre-attack values. A sanitizer/assert report or a death of the bus process is a violation. Scripted scenarios add stateful abuse histories ending in an abrupt close, a subscriber the bus must refuse, an authentication backlog, and 90 histories in which a client asks for a service start and closes while it is in progress (real stub processes).',
      '"Bounded time" is a bound on loop iterations plus a wall-clock watchdog. Multi-site mutations and streams of several hostile messages beyond the listed scenarios are not covered.',
      'DESIGN.md section 4 C10')

LIMITS = {'max_incomplete_connections': 3, 'auth_timeout': 5000, 'max_message_size': 1 << 20, 'max_outgoing_bytes': 20000}


def corpus(h_name=b':1.3', b_name=b':1.1'):
    """Valid traffic a client may write (serial 7)."""
    s = 7
    c = []
    bc = lambda member, body=(), iface=R.BUS, path=R.BUS_PATH: R.bus_call(s, member, list(body), iface, path)
    c.append(('RequestName', bc('RequestName', [R.S('com.example.H'), R.U(0)])))
    c.append(('RequestName-badsig', bc('RequestName', [R.U(0), R.S('com.example.H')])))
    c.append(('ReleaseName', bc('ReleaseName', [R.S('com.example.H')])))
    c.append(('AddMatch', bc('AddMatch', [R.S("type='signal',arg0='x'")])))
    c.append(('RemoveMatch', bc('RemoveMatch', [R.S("type='signal'")])))
    c.append(('GetNameOwner', bc('GetNameOwner', [R.S('org.freedesktop.DBus')])))
    c.append(('ListNames', bc('ListNames')))
    c.append(('NameHasOwner', bc('NameHasOwner', [R.S('a.b')])))
    c.append(('StartServiceByName', bc('StartServiceByName', [R.S('a.b'), R.U(0)])))
    c.append(('GetConnectionUnixUser', bc('GetConnectionUnixUser', [R.S(b_name)])))
    c.append(('GetConnectionCredentials', bc('GetConnectionCredentials', [R.S(b_name)])))
    c.append(('GetId', bc('GetId')))
    c.append(('UpdateActivationEnvironment', bc('UpdateActivationEnvironment', [R.A('{ss}', [R.DE(R.S('K'), R.S('V'))])])))
    c.append(('Ping', bc('Ping', iface=b'org.freedesktop.DBus.Peer')))
    c.append(('Introspect', bc('Introspect', iface=b'org.freedesktop.DBus.Introspectable')))
    c.append(('Properties.Get', bc('Get', [R.S('org.freedesktop.DBus'), R.S('Features')], iface=b'org.freedesktop.DBus.Properties')))
    c.append(('Properties.GetAll', bc('GetAll', [R.S('org.freedesktop.DBus')], iface=b'org.freedesktop.DBus.Properties')))
    c.append(('BecomeMonitor', bc('BecomeMonitor', [R.A('s', []), R.U(0)], iface=b'org.freedesktop.DBus.Monitoring')))
    c.append(('Hello-again', bc('Hello')))
    c.append(('call-to-B', R.method_call(s, b_name, '/x', 'x.y', 'M', [R.S('h'), R.V(R.A('i', [R.I(1)]))], flags=1)))
    c.append(('signal-broadcast', R.signal(s, '/x', 'x.y', 'Sig', [R.S('h'), R.ST(R.Y(1), R.B(1))])))
    c.append(('signal-to-B', R.signal(s, '/x', 'x.y', 'Sig', [R.O('/p')], dest=b_name)))
    c.append(('return-to-B', R.method_return(s, 99, b_name, [R.A('{sv}', [R.DE(R.S('k'), R.V(R.U(1)))])])))
    c.append(('error-to-B', R.error(s, 99, 'x.Err', b_name, [R.S('e')])))
    c.append(('call-unknown-dest', R.method_call(s, 'no.such.name', '/x', 'x.y', 'M', [])))
    c.append(('call-no-dest', R.method_call(s, None, '/x', 'x.y', 'M', [])))
    c.append(('bigendian-call', R.method_call(s, b_name, '/x', 'x.y', 'M', [R.S('h'), R.U(5)], flags=1, endian='B')))
    # the rest of the driver's interface (each handler parses its own arguments)
    c.append(('ListActivatableNames', bc('ListActivatableNames')))
    c.append(('ListQueuedOwners', bc('ListQueuedOwners', [R.S('org.freedesktop.DBus')])))
    c.append(('GetConnectionUnixProcessID', bc('GetConnectionUnixProcessID', [R.S(b_name)])))
    c.append(('GetAdtAuditSessionData', bc('GetAdtAuditSessionData', [R.S(b_name)])))
    c.append(('GetConnectionSELinuxSecurityContext', bc('GetConnectionSELinuxSecurityContext', [R.S(b_name)])))
    c.append(('GetMachineId', bc('GetMachineId', iface=b'org.freedesktop.DBus.Peer')))
    c.append(('Properties.Set', bc('Set', [R.S('org.freedesktop.DBus'), R.S('Features'), R.V(R.A('s', [R.S('x')]))], iface=b'org.freedesktop.DBus.Properties')))
    c.append(('ReloadConfig', bc('ReloadConfig')))
    return c


def extreme_messages(b_name=b':1.1'):
    """Well-formed (or just-not well-formed) messages at the limits of what the format allows: every kind of container
    open to around its own nesting limit, alone and at the same time, in the SIGNATURE field and in a variant; values are
    empty arrays / minimal, so the messages stay small.  Whatever the verdict on each, the bus has to stay in service."""
    out = []
    s = 7

    def nested(outer, k, inner):
        # k levels of `outer` ('a', '(' or 'a{s') around value `inner`
        v = inner
        for _ in range(k):
            if outer == '(':
                v = R.ST(v)
            elif outer == 'a':
                v = R.A(v[0], [])
            else:
                v = R.A(b'{s' + v[0] + b'}', [])
        return v
    for k in (31, 32, 33):
        out.append(('arrays-%d' % k, nested('a', k, R.I(1))))
        out.append(('structs-%d' % k, nested('(', k, R.I(1))))
        out.append(('dicts-%d' % k, nested('a{s', k, R.I(1))))
        for j in (31, 32, 33):
            out.append(('dicts-%d-of-structs-%d' % (k, j), nested('a{s', k, nested('(', j, R.I(1)))))
            out.append(('structs-%d-of-dicts-%d' % (j, k), nested('(', j, nested('a{s', k, R.I(1)))))
            out.append(('arrays-%d-of-structs-%d' % (k, j), nested('a', k, nested('(', j, R.I(1)))))
    msgs = []
    for name, v in out:
        msgs.append((name, R.method_call(s, b_name, '/x', 'x.y', 'M', [v], flags=1)))
        msgs.append((name + '-to-bus', R.bus_call(s, 'GetId', [v])))
        if len(v[0]) <= 255:
            msgs.append((name + '-in-variant', R.signal(s, '/x', 'x.y', 'Sig', [R.V(v)])))
    return msgs


class Arena(BusSession):
    """A, B, M + helpers to run hostile steps."""

    def __init__(self):
        BusSession.__init__(self, {})
        self.connect_slot('A')
        self.connect_slot('B')
        self.connect_slot('M')
        self.method('B', 'AddMatch', [R.S(b"type='signal',interface='x.y'")])
        s, rep = self.method('M', 'BecomeMonitor', [R.A('s', []), R.U(0)], iface=b'org.freedesktop.DBus.Monitoring')
        self.monitor_ok = rep is not None and rep.kind == R.MT_RETURN
        for l in ('A', 'B', 'M'):
            self.take(l)
        self.bus.h.cmd('MKFD 1')      # harness-side descriptor used by fd-carrying probes: exists before the baseline is taken
        self.base_dump = self.norm_dump()
        self.base_fds = self.bus.fdcount()
        self.rt = 0
        self.nh = 0

    def config(self):
        return B.make_config(limits=LIMITS)

    def norm_dump(self):
        return re.sub(r'serial=\d+', 'serial=*', self.impl_key())

    def round_trip(self, out, desc):
        """A calls B, B answers, A must get the answer."""
        self.rt += 1
        tok = b'RT%d' % self.rt
        c = self.slots['A']
        s = self.bus.next_serial(c)
        self.send('A', R.method_call(s, self.uname['B'], '/rt', 'rt.i', 'Echo', [R.S(tok)]))
        calls = [o for o in self.inbox.get('B', []) if o.kind == R.MT_CALL and o.body and o.body[0][1] == tok]
        if len(calls) != 1:
            out.append(Violation('bystanders-not-served', 'call-lost', '%s: B received %d copies of the bystander call' % (desc, len(calls)), None))
            return
        cb = self.slots['B']
        sb = self.bus.next_serial(cb)
        self.send('B', R.method_return(sb, calls[0].serial, self.uname['A'], [R.S(tok)]))
        reps = [o for o in self.inbox.get('A', []) if o.kind == R.MT_RETURN and o.rserial == s and o.body and o.body[0][1] == tok]
        if len(reps) != 1:
            out.append(Violation('bystanders-not-served', 'reply-lost', '%s: A received %d replies to the bystander call' % (desc, len(reps)), None))
        if self.bus.spin:
            out.append(Violation('bus-spins', 'loop', '%s: the event loop did not go idle within the iteration budget' % desc, None))
            self.bus.spin = False

    def new_hostile(self, state):
        self.nh += 1
        l = 'H%d' % self.nh
        if state == 'registered':
            self.connect_slot(l)
        elif state == 'nohello':
            self.connect_slot(l, hello=False)
        else:
            c = self.bus.rawconnect(0)
            self.slots[l] = c
            self.uname[l] = None
            self.inbox.setdefault(l, [])
            self.eof[l] = False
            self.bus.rawmode.add(c)
        for x in ('A', 'B', 'M'):
            self.take(x)
        return l

    def hostile_step(self, state, data, then, out, desc, expect_names=None):
        """Write data from a fresh hostile connection in the given state; judge everything."""
        h = self.new_hostile(state)
        hname = self.uname.get(h)
        c = self.slots[h]
        self.send_raw(h, data)
        if then == 'close':
            self.close_slot(h)
        # what should others be able to see from H: only valid messages of its stream
        valid = []
        status = 'clean'
        gray = False
        if state != 'raw':
            msgs, status = R.split_stream(data, 0)
            valid = [m for m, _ in msgs]
            # the other reading of the dict-entry nesting rule (see refdbus.judged_decode): where the two readings disagree,
            # or the reference itself calls the input unspecified, the sender may be kept or dropped and the message may
            # or may not be shown to others; everything else (liveness, isolation, restored state) is judged as always
            from .. import grammars as G_
            G_.STRICT = False
            try:
                msgs2, status2 = R.split_stream(data, 0)
            finally:
                G_.STRICT = True
            if isinstance(status, tuple) != isinstance(status2, tuple) or (isinstance(status, tuple) and status[1].startswith('gray.')):
                gray = True
                valid = valid + [m for m, _ in msgs2]
        invalid = isinstance(status, tuple) and not gray
        allowed = set()
        for m in valid:
            m2 = m.copy()
            m2.fields = [(cc, v) for cc, v in m2.fields if cc <= 9 and cc != R.F_SENDER]
            allowed.add(strip_sender(R.canon_msg(m2)))
        for l in ('A', 'B', 'M'):
            for o in self.take(l):
                from_h = (hname is not None and o.sender == hname) or (o.sender == b':not.active.yet')
                if not from_h:
                    continue
                if strip_sender(R.canon_msg(o.msg)) not in allowed:
                    out.append(Violation('invalid-message-visible', 'monitor' if l == 'M' else 'client', '%s: %s received %r which is not a valid message of the hostile stream' % (desc, l, o), None))
        if invalid and state != 'raw' and then != 'close' and not self.eof.get(h):
            out.append(Violation('invalid-sender-kept', status[1], '%s: a client that sent an invalid message (%s) was not disconnected' % (desc, status[1]), None))
        if self.is_open(h):
            self.close_slot(h)
        self.bus.rawmode.discard(c)
        for l in ('A', 'B', 'M'):
            self.take(l)
        self.round_trip(out, desc)
        for l in ('A', 'B', 'M'):
            self.take(l)
        if not out:
            self.restored(out, desc)

    def restored(self, out, desc):
        d = self.norm_dump()
        if d != self.base_dump:
            a, b = set(self.base_dump.split('|')), set(d.split('|'))
            kind = sorted(x.split(' ')[0] for x in (a ^ b))[0] if (a ^ b) else 'order'
            out.append(Violation('state-not-restored', kind, '%s: after the hostile connection was closed the bus state differs: gone %r, new %r' % (desc, sorted(a - b)[:3], sorted(b - a)[:3]), None))
        f = self.bus.fdcount()
        if f != self.base_fds:
            out.append(Violation('fd-leak', 'hostile', '%s: %d descriptors open, %d before the attack' % (desc, f, self.base_fds), None))


def strip_sender(c):
    return re.sub(r' sender(=[0-9a-f]*|-) ', ' sender=* ', c)


def task_mutations(t):
    """t = list of (label, state, then, hex)"""
    out = []
    n = 0
    ndied = 0
    arena = None
    for label, state, then, hx in t:
        case = {'step': [label, state, then, hx]}
        try:
            if arena is None:
                arena = Arena()
            vs = []
            arena.hostile_step(state, bytes.fromhex(hx), then, vs, '%s/%s/%s' % (label, state, then))
            n += 1
            for v in vs:
                v.case = case
            out.extend(vs)
            if vs:
                arena = None       # start from a fresh bus after a violation
        except HarnessDied as e:
            out.append(crash_violation(e, case))
            worker_bus().h.close()
            arena = None
            ndied += 1
            if ndied >= 2:
                break          # a bus that hangs costs a harness time-out per step: two of them are evidence enough for one task
    byfp = {}
    for v in out:
        byfp.setdefault(v.fingerprint, []).append(v)
    return {'viol': [v.to_json() for vs in byfp.values() for v in vs[:2]], 'counts': {k: len(v) for k, v in byfp.items()}, 'n': n}


SASL = [b'AUTH\r\n', b'AUTH EXTERNAL 30\r\n', b'AUTH EXTERNAL\r\n', b'AUTH ANONYMOUS\r\n', b'AUTH DBUS_COOKIE_SHA1 726f6f74\r\n', b'DATA\r\n', b'DATA 30\r\n',
        b'CANCEL\r\n', b'ERROR\r\n', b'BEGIN\r\n', b'NEGOTIATE_UNIX_FD\r\n', b'FOO\r\n', b'\xff\xfe\r\n', b'AUTH ' + b'A' * 20000, b'\r\n', b'BEGIN']


def task_scenarios(t):
    """Handshake abuse, oversize claims, connection storms, floods."""
    out = []
    n = 0
    kind = t[0]
    try:
        arena = Arena()
        if kind == 'sasl':
            for seq in t[1]:
                data = b'\0' + b''.join(SASL[i] for i in seq) + R.encode_message(R.bus_call(1, 'Hello')) + b'garbage'
                vs = []
                arena.hostile_step('raw', data, 'silence', vs, 'sasl %r' % (seq,))
                n += 1
                for v in vs:
                    v.case = {'scenario': ['sasl', [seq]]}
                out.extend(vs)
                if vs:
                    arena = Arena()
        elif kind == 'oversize':
            for size in t[1]:
                m = R.encode_message(R.bus_call(7, 'GetId'))
                for e in ('<', '>'):
                    import struct
                    hdr = bytearray(m)
                    if e == '>':
                        hdr = bytearray(R.encode_message(R.Msg(R.MT_CALL, 0, 7, R.bus_call(7, 'GetId').fields, [], 'B')))
                    struct.pack_into(e + 'I', hdr, 4, size)
                    vs = []
                    arena.hostile_step('registered', bytes(hdr), 'silence', vs, 'oversize body_len=%d %s' % (size, e))
                    n += 1
                    for v in vs:
                        v.case = {'scenario': ['oversize', [size]]}
                    out.extend(vs)
        elif kind == 'storm':
            # more unauthenticated connections than the limit, partial handshakes, then the auth timeout
            hs = []
            for i in range(LIMITS['max_incomplete_connections'] + 2):
                c = arena.bus.rawconnect(0)
                arena.bus.rawmode.add(c)
                hs.append(c)
                # the first one completes authentication (BEGIN) but never says Hello: it is still "incomplete" and
                # subject to the same deadline as the ones that never authenticate
                arena.bus.send(c, [b'\0AUTH EXTERNAL 30\r\nBEGIN\r\n', b'\0AUTH', b'\0AUTH EXTERNAL 30\r\n', b'', b'\0AUTH EXTERNAL 30\r\nBEG'][i % 5])
            arena.bus.pump()
            vs = []
            arena.round_trip(vs, 'storm before timeout')
            gone = set()
            for _ in range(3):
                o = arena.bus.advance(LIMITS['auth_timeout'] + 1000)
                gone |= {c for c, rv in o.items() if rv.eof}
                arena._distribute(o)
            o = arena.bus.recvall()
            gone |= {c for c, rv in o.items() if rv.eof}
            arena._distribute(o)
            # only those the bus had accepted (the limit keeps the others in the listen queue) are its responsibility,
            # and the accepted ones include the first max_incomplete_connections of hs
            kept = [c for c in hs[:LIMITS['max_incomplete_connections']] if c not in gone]
            if kept:
                vs.append(Violation('stale-connection-kept', 'auth-timeout', 'storm: %d of the first %d unregistered connections were still open well after auth_timeout (client slots %r)' %
                                    (len(kept), LIMITS['max_incomplete_connections'], kept), None))
            # a newcomer must be served now
            try:
                nc = arena.new_hostile('registered')
                served = arena.uname.get(nc) is not None
            except B.BusError as e:
                served = False
                nc = None
            if not served:
                vs.append(Violation('bystanders-not-served', 'newcomer', 'storm: a new client could not connect and register after the stale connections should have been dropped', None))
            elif nc is not None:
                arena.close_slot(nc)
            if served:
                arena.round_trip(vs, 'storm after timeout')
            for c in hs:
                arena.bus.h.cmd('CLOSE %d' % c)
                arena.bus.rawmode.discard(c)
            arena.bus.pump()
            for l in ('A', 'B', 'M'):
                arena.take(l)
            if not vs:
                arena.restored(vs, 'storm')
            n += 1
            for v in vs:
                v.case = {'scenario': ['storm']}
            out.extend(vs)
        elif kind == 'fd-abuse':
            # descriptor traffic first (so that message objects the bus recycles own descriptor arrays), then messages that
            # announce more descriptors than are attached, fewer, or attach descriptors to a message that announces none
            for rnd in range(3):
                for announced, attached in ((1, 0), (2, 1), (0, 1), (1, 0)):
                    vs = []
                    desc = 'fd-abuse round %d announced=%d attached=%d' % (rnd, announced, attached)
                    hcl = arena.new_hostile('registered')
                    c = arena.slots[hcl]

                    def fdmsg(n_announced, n_values):
                        ser = arena.bus.next_serial(c)
                        f = [(R.F_PATH, (b'o', b'/x')), (R.F_INTERFACE, (b's', b'x.y')), (R.F_MEMBER, (b's', b'Fd')), (R.F_DESTINATION, (b's', arena.uname['B']))]
                        if n_announced:
                            f.append((R.F_UNIX_FDS, (b'u', n_announced)))
                        return R.encode_message(R.Msg(R.MT_CALL, 1, ser, f, [R.S('h')] + [R.H(k) for k in range(n_values)]))
                    arena.send_raw(hcl, fdmsg(1, 1), fds=[0])            # well-formed: one announced, one attached
                    arena.send_raw(hcl, fdmsg(announced, announced), fds=[0] * attached if attached else None)
                    for l in ('A', 'B', 'M'):
                        arena.take(l)
                    if announced > attached and not arena.eof.get(hcl):
                        vs.append(Violation('invalid-sender-kept', 'missing-unix-fds', '%s: a client whose message announces more descriptors than it attached was not disconnected' % desc, None))
                    arena.round_trip(vs, desc)
                    if arena.is_open(hcl):
                        arena.close_slot(hcl)
                    for l in ('A', 'B', 'M'):
                        arena.take(l)
                    if not vs:
                        arena.round_trip(vs, desc + ' (after close)')
                    for l in ('A', 'B', 'M'):
                        arena.take(l)
                    if not vs:
                        arena.restored(vs, desc)
                    n += 1
                    for v in vs:
                        v.case = {'scenario': ['fd-abuse']}
                    out.extend(vs)
                    if vs:
                        arena = Arena()
        elif kind == 'half-close':
            # a client that stops READING for good (shutdown(SHUT_RD)) while the bus has, or gets, something to write to it,
            # and keeps its connection open: the bus cannot write and must neither spin nor stop serving; a client that
            # stops WRITING (SHUT_WR) is an end-of-stream and is dropped
            for state in ('registered', 'nohello'):
                for order in ('request-then-shutrd', 'shutrd-then-request', 'shutrd-then-signal-for-it', 'shutwr-after-request', 'shutrd-and-shutwr'):
                    vs = []
                    desc = 'half-close %s/%s' % (state, order)
                    hcl = arena.new_hostile(state)
                    c = arena.slots[hcl]
                    req = R.encode_message(R.bus_call(arena.bus.next_serial(c), 'GetId' if state == 'registered' else 'Hello'))
                    if order == 'request-then-shutrd':
                        arena.bus.send(c, req)
                        arena.bus.h.cmd('SHUTRD %d nopump' % c)
                        arena.bus.pump()
                    elif order == 'shutrd-then-request':
                        arena.bus.h.cmd('SHUTRD %d' % c)
                        arena.send_raw(hcl, req)
                    elif order == 'shutrd-then-signal-for-it':
                        if state == 'registered':
                            arena.send_raw(hcl, R.encode_message(R.bus_call(arena.bus.next_serial(c), 'AddMatch', [R.S(NOC_RULE_)])))
                        arena.bus.h.cmd('SHUTRD %d' % c)
                        x = arena.new_hostile('registered')          # NameOwnerChanged for the newcomer is broadcast to hcl
                        arena.close_slot(x)
                    elif order == 'shutwr-after-request':
                        arena.bus.send(c, req)
                        arena._distribute(arena.bus._parse(arena.bus.h.cmd('SHUTWR %d' % c)))
                    else:
                        arena.bus.h.cmd('SHUTRD %d nopump' % c)
                        arena._distribute(arena.bus._parse(arena.bus.h.cmd('SHUTWR %d' % c)))
                    arena.bus.pump()
                    arena._distribute(arena.bus.recvall())
                    for l in ('A', 'B', 'M'):
                        arena.take(l)
                    arena.round_trip(vs, desc)                       # reports bus-spins / bystanders not served
                    r2 = arena.bus.pump()
                    if arena.bus.spin:
                        vs.append(Violation('bus-spins', 'loop', '%s: with nothing left to do the event loop still does not go idle' % desc, None))
                        arena.bus.spin = False
                    if arena.is_open(hcl):
                        arena.close_slot(hcl)
                    for l in ('A', 'B', 'M'):
                        arena.take(l)
                    if not vs:
                        arena.round_trip(vs, desc + ' (after close)')
                    for l in ('A', 'B', 'M'):
                        arena.take(l)
                    if not vs:
                        arena.restored(vs, desc)
                    n += 1
                    for v in vs:
                        v.case = {'scenario': ['half-close']}
                    out.extend(vs)
                    if vs:
                        arena = Arena()
        elif kind == 'histories':
            # stateful abuse: every sequence of <= 2 well-formed but awkward requests by a registered hostile client,
            # followed by an abrupt close while their effects (pending replies, queued names, rules) are outstanding
            H_OPS = ['call-self', 'call-own-name', 'call-B', 'own-name', 'queue-behind-B', 'add-rule', 'call-B-noreply', 'reply-unrequested', 'call-self-twice-same-serial']
            for seq in t[1]:
                vs = []
                h = arena.new_hostile('registered')
                c = arena.slots[h]
                hn = arena.uname[h]
                for oi in seq:
                    o = H_OPS[oi]
                    sr = arena.bus.next_serial(c)
                    if o == 'call-self':
                        m = R.method_call(sr, hn, '/h', 'h.i', 'Self', [R.S('x')])
                    elif o == 'call-self-twice-same-serial':
                        m = R.method_call(4242, hn, '/h', 'h.i', 'Self', [R.S('x')])
                    elif o == 'call-own-name':
                        arena.bus.send(c, R.encode_message(R.bus_call(sr, 'RequestName', [R.S('com.example.H'), R.U(0)])))
                        m = R.method_call(arena.bus.next_serial(c), b'com.example.H', '/h', 'h.i', 'Self', [R.S('x')])
                    elif o == 'call-B':
                        m = R.method_call(sr, arena.uname['B'], '/h', 'h.i', 'ToB', [R.S('x')])
                    elif o == 'call-B-noreply':
                        m = R.method_call(sr, arena.uname['B'], '/h', 'h.i', 'ToB', [R.S('x')], flags=1)
                    elif o == 'own-name':
                        m = R.bus_call(sr, 'RequestName', [R.S('com.example.H2'), R.U(1)])
                    elif o == 'queue-behind-B':
                        arena.method('B', 'RequestName', [R.S('com.example.BQ'), R.U(0)])
                        m = R.bus_call(sr, 'RequestName', [R.S('com.example.BQ'), R.U(0)])
                    elif o == 'add-rule':
                        m = R.bus_call(sr, 'AddMatch', [R.S("type='signal',sender='" + arena.uname['B'].decode() + "'")])
                    else:
                        m = R.method_return(sr, 777, arena.uname['B'], [R.S('unrequested')])
                    arena.bus.send(c, R.encode_message(m))
                arena.bus.pump()
                arena.close_slot(h)
                arena.method('B', 'ReleaseName', [R.S('com.example.BQ')])
                for l in ('A', 'B', 'M'):
                    arena.take(l)
                desc = 'history %r then close' % ([H_OPS[i] for i in seq],)
                arena.round_trip(vs, desc)
                for l in ('A', 'B', 'M'):
                    arena.take(l)
                if not vs:
                    arena.restored(vs, desc)
                n += 1
                for v in vs:
                    v.case = {'scenario': ['histories', [list(seq)]]}
                out.extend(vs)
                if vs:
                    arena = Arena()
        elif kind == 'auth-backlog':
            # a client that floods the handshake with commands the bus must answer and never reads the answers: the bus
            # cannot write, has unread input, and must simply wait (no spinning) -- and keep serving the others
            vs = []
            c = arena.bus.rawconnect(0)
            arena.bus.rawmode.add(c)
            arena.bus.h.cmd('SOCKBUF %d 2048 2048' % c)
            arena.bus.h.cmd('SRVSOCKBUF 4608')
            arena.bus.h.cmd('NODRAIN %d 1' % c)
            arena.bus.send(c, b'\0')
            for _ in range(40):
                arena.bus.send(c, b'FOO bar baz\r\n' * 300)
                r = arena.bus.pump()
            for _ in range(3):
                arena.bus.pump()
            if arena.bus.spin:
                vs.append(Violation('bus-spins', 'auth-backlog', 'auth-backlog: with unread answers and pending handshake input the event loop never goes idle', None))
                arena.bus.spin = False
            arena.round_trip(vs, 'auth-backlog')
            arena.bus.h.cmd('NODRAIN %d 0' % c)
            arena.bus.h.cmd('CLOSE %d' % c)
            arena.bus.rawmode.discard(c)
            arena.bus.pump()
            for l in ('A', 'B', 'M'):
                arena.take(l)
            if not vs:
                arena.restored(vs, 'auth-backlog')
            n += 1
            for v in vs:
                v.case = {'scenario': ['auth-backlog']}
            out.extend(vs)
        elif kind == 'broadcast-refusal':
            # a subscriber the bus has to REFUSE a broadcast (its queue is over max_outgoing_bytes because it does not
            # read, or it cannot take file descriptors) must not cost the other subscribers that broadcast
            for variant in ('queue-full', 'no-fds'):
                vs = []
                arena.nh += 1
                h = 'H%d' % arena.nh
                arena.connect_slot(h, nofd=(variant == 'no-fds'))
                c = arena.slots[h]
                arena.method(h, 'AddMatch', [R.S(b"path='/x'")])            # no type= / interface=: listed ahead of typed rules
                arena.method(h, 'AddMatch', [R.S(b"type='signal'")])
                arena.bus.h.cmd('MKFD 1')
                if variant == 'queue-full':
                    arena.bus.h.cmd('SOCKBUF %d 2048 2048' % c)
                    arena.bus.h.cmd('SRVSOCKBUF 4608')
                    arena.bus.h.cmd('NODRAIN %d 1' % c)
                for x in ('A', 'B', 'M'):
                    arena.take(x)
                lost = 0
                for i in range(24 if variant == 'queue-full' else 3):
                    ca = arena.slots['A']
                    sa = arena.bus.next_serial(ca)
                    tok = b'BC%d-' % i + b'p' * 3000
                    if variant == 'no-fds':
                        m = R.Msg(R.MT_SIGNAL, 1, sa, [(R.F_PATH, (b'o', b'/x')), (R.F_INTERFACE, (b's', b'x.y')), (R.F_MEMBER, (b's', b'Sig')), (R.F_UNIX_FDS, (b'u', 1))], [R.S(tok), R.H(0)])
                        arena.send_raw('A', R.encode_message(m), [0])
                    else:
                        arena.send('A', R.signal(sa, '/x', 'x.y', 'Sig', [R.S(tok)]))
                    got = [o for o in arena.take('B') if o.kind == R.MT_SIGNAL and o.body and o.body[0][1] == tok]
                    if len(got) != 1:
                        lost += 1
                    arena.take('A'); arena.take('M')
                if lost:
                    vs.append(Violation('bystanders-not-served', 'broadcast-lost:' + variant, 'broadcast-refusal/%s: the bystander subscriber missed %d broadcasts while another subscriber could not be served' % (variant, lost), None))
                if variant == 'queue-full':
                    arena.bus.h.cmd('NODRAIN %d 0' % c)
                arena.close_slot(h)
                for x in ('A', 'B', 'M'):
                    arena.take(x)
                arena.round_trip(vs, 'broadcast-refusal/' + variant)
                for x in ('A', 'B', 'M'):
                    arena.take(x)
                if not vs:
                    arena.restored(vs, 'broadcast-refusal/' + variant)
                n += 1
                for v in vs:
                    v.case = {'scenario': ['broadcast-refusal']}
                out.extend(vs)
                if vs:
                    arena = Arena()
        elif kind == 'flood':
            h = arena.new_hostile('registered')
            c = arena.slots[h]
            arena.bus.h.cmd('SOCKBUF %d 2048 2048' % c)
            arena.bus.h.cmd('NODRAIN %d 1' % c)
            vs = []
            for i in range(t[1]):
                m = R.bus_call(10 + i, 'ListNames')
                arena.bus.send(c, R.encode_message(m))
                if i % 25 == 0:
                    arena.bus.pump()
                    arena.round_trip(vs, 'flood after %d unread replies' % i)
            arena.bus.pump()
            arena.round_trip(vs, 'flood end')
            arena.bus.h.cmd('NODRAIN %d 0' % c)
            arena.close_slot(h)
            for l in ('A', 'B', 'M'):
                arena.take(l)
            arena.restored(vs, 'flood')
            n += 1
            for v in vs:
                v.case = {'scenario': ['flood', t[1]]}
            out.extend(vs)
    except HarnessDied as e:
        out.append(crash_violation(e, {'scenario': list(t)}))
        worker_bus().h.close()
    return {'viol': [v.to_json() for v in out[:6]], 'counts': {}, 'n': n}


def activation_close_histories():
    """A client that asked for a service to be started and closes abruptly while the start is in progress (the held message
    outlives its sender), followed by each way the start can end."""
    out = []
    for first in (['call', 'X', 0], ['start', 'X', 0], ['fcall', 'X', 0]):
        for second in (None, ['call', 'Y', 0], ['start', 'Y', 0]):
            for end in (['take', 0], ['exit', 0, '1'], ['exit', 0, 'S'], ['advance', 11000], ['reload']):
                for late_close in (0, 1):
                    h = [first] + ([second] if second else [])
                    h += ([['disc', 'X'], end] if not late_close else [end, ['disc', 'X']])
                    out.append(h)
    return out


def task_activation_close(hists):
    from . import c19
    out = []
    n = 0
    for hist in hists:
        case = {'activation_close': hist}
        s = None
        try:
            s = c19.Session({'small': True})
            for op in hist:
                if op not in s.ops():
                    break
                s.apply(op)          # C19 judges what the waiting senders get; here only: the bus survives and keeps serving
                n += 1
            ser, rep = s.method('T', 'GetId', [])
            if rep is None or rep.kind != R.MT_RETURN:
                out.append(Violation('bus-stopped-serving', 'activation-abrupt-close', 'after %r a bystander\'s GetId was answered %r' % (hist, rep), case))
        except HarnessDied as e:
            out.append(crash_violation(e, case))
            try:
                s.died() if s is not None else worker_bus().h.close()
            except Exception:
                pass
    return {'viol': [v.to_json() for v in out], 'n': n, 'steps': n}


def _dispatch(t):
    fn, arg = t
    return fn(arg)


def build_tasks(tier):
    quick = tier == 'quick'
    tasks = []
    steps = []
    msgs = corpus()
    for label, m in msgs:
        data = R.encode_message(m)
        muts = list(gen.single_site_corruptions(data, rich=not quick))
        if quick:
            # every offset is still hit: thin the replacement values, keep all length-word / truncation / extension cases
            muts = [x for i, x in enumerate(muts) if not (x[0].startswith('byte@') or x[0].startswith('utf8@')) or i % 3 == 0]
            muts = [x for i, x in enumerate(muts) if not x[0].startswith('utf8@') or i % 4 == 0]
        for d2, b2 in muts:
            steps.append(('%s:%s' % (label, d2), 'registered', 'silence', b2.hex()))
            if d2.startswith('trunc@'):
                steps.append(('%s:%s' % (label, d2), 'registered', 'close', b2.hex()))
        # the same message, unmutated and lightly mutated, before Hello and before authentication
        steps.append((label, 'nohello', 'silence', data.hex()))
        steps.append((label, 'raw', 'silence', data.hex()))
        for d2, b2 in muts[::97]:
            steps.append(('%s:%s' % (label, d2), 'nohello', 'silence', b2.hex()))
            steps.append(('%s:%s' % (label, d2), 'raw', 'close', b2.hex()))
    # extreme but (nearly) well-formed messages, as they are: registered, before Hello, and two in a row
    xsteps = []
    for label, m in extreme_messages():
        try:
            data = R.encode_message(m)
        except Exception:
            continue
        xsteps.append(('extreme:' + label, 'registered', 'silence', data.hex()))
        xsteps.append(('extreme:' + label, 'nohello', 'silence', data.hex()))
    for i in range(0, len(xsteps), 30):
        tasks.append((task_mutations, xsteps[i:i + 30]))
    steps = xsteps + steps
    mut_tasks = []
    steps = steps[len(xsteps):]
    for i in range(0, len(steps), 400):
        mut_tasks.append((task_mutations, steps[i:i + 400]))
    seqs = [(i,) for i in range(len(SASL))] + list(itertools.product(range(len(SASL)), repeat=2))
    if not quick:
        seqs += list(itertools.product(range(len(SASL) - 4), repeat=3))
    for i in range(0, len(seqs), 40):
        tasks.append((task_scenarios, ('sasl', seqs[i:i + 40])))
    tasks.append((task_scenarios, ('oversize', [1 << 20, (1 << 20) + 1, 1 << 26, (1 << 27) - 8, 1 << 27, 0x7fffffff, 0xffffffff])))
    hseqs = [(i,) for i in range(9)] + list(itertools.product(range(9), repeat=2))
    if not quick:
        hseqs += list(itertools.product(range(9), repeat=3))
    for i in range(0, len(hseqs), 15):
        tasks.append((task_scenarios, ('histories', hseqs[i:i + 15])))
    ah = activation_close_histories()
    for i in range(0, len(ah), 6):
        tasks.append((task_activation_close, ah[i:i + 6]))
    tasks.append((task_scenarios, ('half-close',)))
    tasks.append((task_scenarios, ('fd-abuse',)))
    tasks.append((task_scenarios, ('broadcast-refusal',)))
    tasks.append((task_scenarios, ('auth-backlog',)))
    tasks.append((task_scenarios, ('storm',)))
    tasks.append((task_scenarios, ('flood', 200 if quick else 2000)))
    tasks += mut_tasks          # the scripted scenarios first, then the (much larger) mutation product
    return tasks, len(steps), len(seqs)


def run(ctx):
    tasks, nsteps, nseq = build_tasks(ctx.tier)
    pool = Pool()
    done = 0
    n = 0
    try:
        for r in pool.imap(_dispatch, tasks):
            done += 1
            if '__crash__' in r:
                ctx.add_violation(Violation('crash', r['__crash__'], r['stderr'], {'task': r['task']}))
                continue
            n += r['n']
            ctx.add_violations(r['viol'])
            for fp, c in r.get('counts', {}).items():
                ctx.viol_counts[fp] = ctx.viol_counts.get(fp, 0) + max(0, c - min(c, 2))
            if ctx.expired():
                ctx.incomplete('deadline hit after %d of %d tasks' % (done, len(tasks)))
                pool.cancel()
                break
    finally:
        pool.close()
    ctx.coverage.update({
        'states': len(corpus()) * 3 + 4, 'transitions': n, 'traces_validated_against_impl': n,
        'hostile_steps': n, 'mutation_steps_planned': nsteps, 'sasl_sequences': nseq, 'activation_abrupt_close_histories': len(activation_close_histories()),
        'bound': 'corpus of %d valid messages; every single-site corruption of each (registered hostile client), truncations followed by silence or close, selected mutations before Hello / before authentication; '
                 'SASL abuse: all sequences of <= %d of %d lines followed by message bytes; oversize claims; connection storm + auth timeout; flood of unread replies' % (len(corpus()), 2 if ctx.tier == 'quick' else 3, len(SASL)),
        'tasks': len(tasks), 'tasks_done': done,
    })
    ctx.sample({'step': 'RequestName:u32@76=4294967295', 'state': 'registered', 'then': 'silence'})
    ctx.sample({'scenario': 'sasl', 'lines': ['AUTH EXTERNAL 30', 'BEGIN'], 'then': 'Hello + garbage'})
    ctx.assumptions = ['pyv/refdbus.split_stream decides which messages of a hostile stream are valid', 'iteration budget 2000 loop iterations per pump']
    ctx.replay_fn = replay


def replay(case):
    if 'activation_close' in case:
        return [Violation.from_json(v) for v in task_activation_close([case['activation_close']])['viol']]
    if 'step' in case:
        r = task_mutations([tuple(case['step'])])
        return [Violation.from_json(v) for v in r['viol']]
    if 'scenario' in case:
        sc = case['scenario']
        r = task_scenarios(tuple(sc) if sc[0] not in ('sasl', 'histories') else (sc[0], [tuple(x) for x in sc[1]]))
        return [Violation.from_json(v) for v in r['viol']]
    return []
