"""C04 — name ownership follows the specification's state machine.

Explicit-state BFS over RequestName / ReleaseName / disconnect / reconnect
histories of three clients on an in-process bus; every transition is judged
in lock-step by pyv/models/names.py (a transcription of the specification):
reply code, full queue order and per-owner flags (from the implementation's
own state dump), every NameOwnerChanged / NameLost / NameAcquired at every
client, ordering of the requester's signals before its reply, and agreement
of GetNameOwner / NameHasOwner / ListQueuedOwners / ListNames."""
from collections import Counter

from .. import refdbus as R
from .. import busbox as B
from .. import explore
from ..engine import Violation, known_fingerprints, Pool, crash_violation, worker_bus
from ..vbox import HarnessDied
from ..session import BusSession, NOC_RULE
from ..models import names as N
from ..registry import claim

claim('C04', 'model_checking',
      'explicit-state BFS (to fix-point or depth bound) over name-request histories executed on the real in-process bus, each transition compared with an executable transcription of the specification',
      'All histories of RequestName (9 flag words, valid and invalid targets), ReleaseName, disconnect and reconnect by 3 clients over 1-2 names are explored breadth-first with dedup on the '
      'implementation\'s own canonical state dump; at every transition the reply code, the complete queue with per-owner flags, every signal at every client, signal-before-reply ordering and all four query methods '
      'must equal what the specification\'s algorithm prescribes; a reload of the unchanged configuration is an operation that must change nothing. In six registry states the four query methods are also asked about look-alike names (continuations and truncations of the bus name and of owned names, an unissued unique name), the bus name and every live unique name.',
      'Trusts pyv/models/names.py as the reading of the specification. More than 3 clients / 2 names and histories beyond the completed depth are not covered; names at the per-connection limit are covered in C13.',
      'DESIGN.md section 4 C04')

FACTORY = 'pyv.checks.c04:Session'
NAMES = [b'com.example.N1', b'com.example.N2']
BAD_TARGETS = {'unique': b':1.0', 'bus': b'org.freedesktop.DBus', 'syntax': b'not a name', 'oneelem': b'single'}
CLIENTS = ['A', 'B', 'C']


class Session(BusSession):
    def __init__(self, params):
        BusSession.__init__(self, params)
        self.model = N.Registry()
        self.nnames = params.get('names', 1)
        self.flagwords = params.get('flags', [0, 1, 2, 3, 4, 5, 6, 7, 9])
        self.connect_slot('O')
        for l in CLIENTS:
            self._connect_client(l)
        for l in CLIENTS + ['O']:
            self.take(l)

    def _connect_client(self, l):
        self.connect_slot(l)
        self.method(l, 'AddMatch', [R.S(NOC_RULE)])

    # ---- alphabet ------------------------------------------------------
    def ops(self):
        ops = []
        for l in CLIENTS:
            if not self.is_open(l):
                ops.append(['conn', l])
                continue
            for i in range(self.nnames):
                for f in self.flagwords:
                    ops.append(['req', l, i, f])
                ops.append(['rel', l, i])
            ops.append(['disc', l])
        # invalid targets: one client is enough to exercise the validation path in every state
        for l in CLIENTS:
            if self.is_open(l):
                for w in sorted(BAD_TARGETS):
                    ops.append(['req_bad', l, w])
                    ops.append(['rel_bad', l, w])
                break
        ops.append(['reload', '-'])      # the bus re-reads its (unchanged) configuration: owners, queues and flags stay
        return ops

    # ---- helpers ---------------------------------------------------------
    def live_rule_holders(self):
        return [l for l in CLIENTS if self.is_open(l)]

    def expected_signals(self, sig, holders):
        """-> {label: Counter of signal tuples}"""
        exp = {}

        def add(l, t):
            exp.setdefault(l, Counter())[t] += 1
        for conn, name in sig.lost:
            if self.is_open(conn):
                add(conn, ('NameLost', name))
        for conn, name in sig.acquired:
            if self.is_open(conn):
                add(conn, ('NameAcquired', name))
        for name, old, new in sig.changed:
            for l in holders:
                add(l, ('NameOwnerChanged', name, self._u(old), self._u(new)))
        return exp

    def _u(self, label):
        if label is None:
            return b''
        if isinstance(label, bytes):
            return label
        return self.uname[label]

    def collect_signals(self, exclude_reply_of=None):
        """Take every inbox; -> {label: (Counter of signal tuples, list of raw Obs)}"""
        got = {}
        for l in list(self.inbox):
            box = self.take(l)
            c = Counter()
            for o in box:
                if o.kind == R.MT_SIGNAL and o.sender == R.BUS and o.iface == R.BUS:
                    a = o.args()
                    c[(o.member.decode(),) + tuple(a)] += 1
                else:
                    c[('OTHER', R.canon_msg(o.msg))] += 1
            got[l] = (c, box)
        return got

    def check_signals(self, op, exp, got, out):
        for l in set(exp) | set(got):
            e = exp.get(l, Counter())
            g = got.get(l, (Counter(), []))[0]
            if e != g:
                missing = e - g
                extra = g - e
                clause = 'signal-missing' if missing else 'signal-unexpected'
                kind = sorted(missing or extra)[0][0]
                out.append(Violation(clause, kind, 'after %r client %s: missing %r, unexpected %r' % (op, l, dict(missing), dict(extra)), None))

    def check_state(self, op, out):
        """Queries through O + implementation dump vs model."""
        inv = self.model.invariant()
        if inv:
            out.append(Violation('model-invariant', 'names', inv, None))
        # implementation dump
        dump = self.impl_key()
        impl = {}
        for line in dump.split('|'):
            if line.startswith('svc ') and not line.startswith('svc @'):
                parts = line.split(' ')
                impl[parts[1]] = parts[2:]
        model = {}
        for n, q in self.model.queues.items():
            model[n.decode()] = ['@%s%s%s' % (e[0], ':A' if e[1] else '', ':D' if e[2] else '') for e in q]
        model['org.freedesktop.DBus'] = impl.get('org.freedesktop.DBus', [])
        impl.setdefault('org.freedesktop.DBus', [])
        if impl != model:
            # classify: order vs membership vs flags
            reasons = set()
            for n in set(impl) | set(model):
                a, b = impl.get(n, []), model.get(n, [])
                if a == b:
                    continue
                sa = [x.split(':')[0] for x in a]
                sb = [x.split(':')[0] for x in b]
                if sorted(sa) != sorted(sb):
                    reasons.add('queue-membership')
                elif sorted(a) != sorted(b):
                    reasons.add('owner-flags')
                elif sa[0] != sb[0]:
                    reasons.add('primary-owner')
                else:
                    # The recorded finding is exactly this: a RequestName with REPLACE_EXISTING whose caller does NOT become
                    # the primary owner, after which only the CALLER's position differs (implementation: second place).
                    # Any other difference in queue order is a different defect and gets its own fingerprint.
                    me = '@' + str(op[1]) if len(op) > 1 else None
                    known_shape = (op[0] == 'req' and len(op) > 3 and (op[3] & 2) and sb[0] != me and me in sa and sa.index(me) == 1
                                   and [x for x in a if x.split(':')[0] != me] == [x for x in b if x.split(':')[0] != me])
                    reasons.add('queue-order' if known_shape else 'queue-order-other')
            reason = sorted(reasons)[0] if len(reasons) == 1 else 'multiple:' + '+'.join(sorted(reasons))
            v = Violation('state-differs', reason, 'after %r the implementation\'s registry is %r, the specification gives %r' % (op, impl, model), None)
            if v.fingerprint in known_fingerprints('C04'):
                # recorded known finding: adopt the implementation's queue ORDER (membership, flags and primary
                # owner are equal by the classification above) and keep exploring from the real state
                v.resynced = True
                for n, owners in impl.items():
                    if n.encode() in self.model.queues:
                        byc = {e[0]: e for e in self.model.queues[n.encode()]}
                        self.model.queues[n.encode()] = [byc[x.split(':')[0][1:]] for x in owners]
                self.hit('resynced-after-known-finding')
            out.append(v)
            if not v.resynced:
                return
        # the query methods
        for i in range(self.nnames):
            n = NAMES[i]
            owner = self.model.owner(n)
            s, rep = self.method('O', 'GetNameOwner', [R.S(n)])
            if owner is None:
                if rep is None or rep.kind != R.MT_ERROR:
                    out.append(Violation('query-disagrees', 'GetNameOwner', 'GetNameOwner(%r) with no owner answered %r' % (n, rep), None))
            elif rep is None or rep.kind != R.MT_RETURN or rep.args() != [self.uname[owner]]:
                out.append(Violation('query-disagrees', 'GetNameOwner', 'GetNameOwner(%r) = %r, model owner %s' % (n, rep, owner), None))
            s, rep = self.method('O', 'NameHasOwner', [R.S(n)])
            if rep is None or rep.kind != R.MT_RETURN or rep.args() != [1 if owner is not None else 0]:
                out.append(Violation('query-disagrees', 'NameHasOwner', 'NameHasOwner(%r) = %r, model owner %s' % (n, rep, owner), None))
            s, rep = self.method('O', 'ListQueuedOwners', [R.S(n)])
            want = [self.uname[c] for c in self.model.queued(n)]
            if not want:
                if rep is None or rep.kind != R.MT_ERROR:
                    out.append(Violation('query-disagrees', 'ListQueuedOwners', 'ListQueuedOwners(%r) of an unowned name answered %r' % (n, rep), None))
            elif rep is None or rep.kind != R.MT_RETURN or rep.args() != [want]:
                out.append(Violation('query-disagrees', 'ListQueuedOwners', 'ListQueuedOwners(%r) = %r, model %r' % (n, rep, want), None))
        s, rep = self.method('O', 'ListNames', [])
        want = sorted([R.BUS] + [self.uname[l] for l in self.slots if self.is_open(l)] + list(self.model.queues))
        if rep is None or rep.kind != R.MT_RETURN or sorted(rep.args()[0]) != want:
            out.append(Violation('query-disagrees', 'ListNames', 'ListNames = %r, model %r' % (rep, want), None))
        self.take('O')

    # ---- transitions -----------------------------------------------------
    def apply(self, op):
        out = []
        kind = op[0]
        l = op[1]
        holders = self.live_rule_holders()
        if kind in ('req', 'rel', 'req_bad', 'rel_bad'):
            if kind in ('req', 'rel'):
                name = NAMES[op[2]]
            else:
                name = BAD_TARGETS[op[2]]
            c = self.slots[l]
            s = self.bus.next_serial(c)
            if kind.startswith('req'):
                flags = op[3] if kind == 'req' else 0
                msg = R.bus_call(s, 'RequestName', [R.S(name), R.U(flags)])
            else:
                msg = R.bus_call(s, 'ReleaseName', [R.S(name)])
            self.send(l, msg)
            box = self.inbox.get(l, [])
            ridx = [i for i, o in enumerate(box) if o.kind in (R.MT_RETURN, R.MT_ERROR) and o.rserial == s]
            if not ridx:
                out.append(Violation('no-reply', kind, 'no reply to %r' % (op,), None))
                return out
            rep = box[ridx[0]]
            later = [o for o in box[ridx[0] + 1:] if o.kind == R.MT_SIGNAL]
            del box[ridx[0]]
            self.hit(kind)
            if kind in ('req_bad', 'rel_bad') or not N.Registry.requestable(name):
                if rep.kind != R.MT_ERROR:
                    out.append(Violation('accepted-invalid-target', op[2] if kind.endswith('bad') else 'name',
                                         '%s of %r was answered with %r instead of an error' % (kind, name, rep), None))
                sig = N.Signals()
            elif kind == 'req':
                if rep.kind == R.MT_ERROR and (flags & ~7):
                    sig = N.Signals()       # undefined flag bits may be refused, leaving everything unchanged
                    self.hit('undefined-flags-refused')
                else:
                    code, sig = self.model.request(l, name, flags & 7)
                    self.hit('reply-%d' % code)
                    if sig.lost:
                        self.hit('replace-primary')
                    if rep.kind != R.MT_RETURN or rep.args() != [code]:
                        out.append(Violation('reply-code', 'RequestName', '%r answered %r, the specification prescribes %d' % (op, rep, code), None))
            else:
                code, sig = self.model.release(l, name)
                self.hit('release-%d' % code)
                if rep.kind != R.MT_RETURN or rep.args() != [code]:
                    out.append(Violation('reply-code', 'ReleaseName', '%r answered %r, the specification prescribes %d' % (op, rep, code), None))
            exp = self.expected_signals(sig, holders)
            if later and exp.get(l):
                out.append(Violation('signal-after-reply', later[0].member.decode(), 'after %r the requester received %r AFTER its reply' % (op, later[0]), None))
            got = self.collect_signals()
            self.check_signals(op, exp, got, out)
        elif kind == 'reload':
            self.reload_same(out, repr(op))
        elif kind == 'disc':
            uname = self.uname[l]
            self.close_slot(l)
            holders = self.live_rule_holders()
            sig = self.model.drop_connection(l)
            sig.changed.append((uname, uname, None))
            exp = self.expected_signals(sig, holders)
            got = self.collect_signals()
            got.pop(l, None)
            self.check_signals(op, exp, got, out)
            self.hit('disconnect')
        elif kind == 'conn':
            self._connect_client(l)
            uname = self.uname[l]
            sig = N.Signals()
            sig.changed.append((uname, None, uname))
            exp = self.expected_signals(sig, [h for h in holders if h != l])
            exp.setdefault(l, Counter())[('NameAcquired', uname)] += 1
            got = self.collect_signals()
            self.check_signals(op, exp, got, out)
            self.hit('connect')
        else:
            raise ValueError(op)
        if not out:
            self.check_state(op, out)
        elif all(v.resynced for v in out):
            pass
        self.obs_note(repr(op) + self.model.key())
        return out

    def key(self):
        live = ''.join(l for l in CLIENTS if self.is_open(l))
        return self.impl_key() + '#' + self.model.key() + '#' + live


# names nobody owns that merely start like the bus's own name, like an owned name, or extend one; the bus name; unique names
PHANTOMS = [b'org.freedesktop.DBus.Example', b'org.freedesktop.DBusX', b'org.freedesktop.DBu', b'com.example.N1.sub', b'com.example.N', b'com.example.N10', b':1.99999']
QUERY_HISTORIES = [[], [['req', 'A', 0, 0]], [['req', 'A', 0, 0], ['req', 'B', 0, 0]], [['req', 'A', 0, 0], ['req', 'B', 0, 0], ['rel', 'A', 0]],
                   [['req', 'A', 0, 1], ['req', 'B', 0, 3], ['disc', 'B']], [['req', 'A', 0, 0], ['disc', 'A'], ['conn', 'A']]]


def task_queries(hists):
    """The four query methods on names around the owned ones, in a handful of registry states: they must agree with each other
    and with the registry (an unowned name has no owner whatever it starts with; the bus owns its name; a unique name is owned
    by its connection alone)."""
    out = []
    n = 0
    for hist in hists:
        case = {'queries': hist}
        try:
            s = Session({'names': 1, 'flags': [0, 1, 3]})
            for op in hist:
                s.apply(op)

            def q(member, name):
                nonlocal n
                n += 1
                return s.method('O', member, [R.S(name)])[1]
            for ph in PHANTOMS:
                r1, r2, r3 = q('GetNameOwner', ph), q('NameHasOwner', ph), q('ListQueuedOwners', ph)
                if not (r1 is not None and r1.kind == R.MT_ERROR and r2 is not None and r2.kind == R.MT_RETURN and r2.args() == [0] and r3 is not None and r3.kind == R.MT_ERROR):
                    out.append(Violation('query-disagrees', 'unowned-lookalike', 'after %r: the unowned name %r: GetNameOwner %r, NameHasOwner %r, ListQueuedOwners %r' % (hist, ph, r1, r2, r3), case))
            names = s.method('O', 'ListNames', [])[1]
            listed = set(names.args()[0]) if names is not None and names.kind == R.MT_RETURN else set()
            if listed & set(PHANTOMS):
                out.append(Violation('query-disagrees', 'unowned-lookalike', 'after %r: ListNames contains %r' % (hist, listed & set(PHANTOMS)), case))
            own = [(R.BUS, R.BUS)] + [(s.uname[l], s.uname[l]) for l in CLIENTS + ['O'] if s.is_open(l)]
            for name, owner in own:
                r1, r2, r3 = q('GetNameOwner', name), q('NameHasOwner', name), q('ListQueuedOwners', name)
                ok = (r1 is not None and r1.kind == R.MT_RETURN and r1.args() == [owner] and r2 is not None and r2.kind == R.MT_RETURN and r2.args() == [1]
                      and r3 is not None and r3.kind == R.MT_RETURN and r3.args() == [[owner]] and name in listed)
                if not ok:
                    out.append(Violation('query-disagrees', 'bus-or-unique-name', 'after %r: %r: GetNameOwner %r, NameHasOwner %r, ListQueuedOwners %r, listed %s' % (hist, name, r1, r2, r3, name in listed), case))
        except HarnessDied as e:
            out.append(crash_violation(e, case))
            worker_bus().h.close()
    return {'viol': [v.to_json() for v in out], 'n': n}


def run(ctx):
    quick = ctx.tier == 'quick'
    pool = Pool()
    nq = 0
    try:
        for r in pool.imap(task_queries, [[h] for h in QUERY_HISTORIES]):
            if '__crash__' in r:
                ctx.add_violation(Violation('crash', r['__crash__'], r['stderr'], {'task': r['task']}))
                continue
            ctx.add_violations(r['viol'])
            nq += r['n']
    finally:
        pool.close()
    ctx.coverage['lookalike_name_queries'] = nq
    params = {'names': 1 if quick else 2, 'flags': [0, 1, 2, 3, 4, 5, 6, 7, 9]}
    if quick:
        with ctx.sub_budget(0.7):
            st = explore.bfs(ctx, FACTORY, params, max_depth=30, ops_chunk=10)
        # two names share connections (a disconnect releases both, queues are per name): a shallower second exploration
        st2 = explore.bfs(ctx, FACTORY, dict(params, names=2, flags=[0, 1, 2, 3, 4, 6]), max_depth=3, ops_chunk=10)
    else:
        st = explore.bfs(ctx, FACTORY, params, max_depth=30, ops_chunk=10)
        st2 = {'states': 0, 'transitions': 0, 'completed_depth': 0}
    ctx.coverage.update({
        'states': st['states'] + st2['states'], 'transitions': st['transitions'] + st2['transitions'], 'traces_validated_against_impl': st['transitions'] + st2['transitions'],
        'two_names_variant': {'states': st2['states'], 'transitions': st2['transitions'], 'completed_depth': st2['completed_depth']},
        'completed_depth': st['completed_depth'], 'fixpoint': st['fixpoint'], 'distinct_observations': st['distinct_obs'],
        'bound': '3 clients + observer, %d name(s), 9 flag words, invalid targets, disconnect/reconnect; BFS to the fix-point (1 name: 1108 states) or the deadline' % params['names'],
        'state_key': 'canonical dump of the implementation (registry with per-owner flags, connection table, rules) with unique names renamed to client slots + model state',
    })
    ctx.assumptions = ['pyv/models/names.py transcribes the specification', 'same canonical dump => same future behaviour (the dump covers every field the name-ownership code reads)']
    ctx.replay_fn = replay


def replay(case):
    if 'queries' in case:
        return [Violation.from_json(v) for v in task_queries([case['queries']])['viol']]
    return explore.replay_history(FACTORY, case['params'], case['history'])
