"""C12 — header edits keep a message valid and touch nothing else.

Explicit-state BFS whose state is the marshalled message itself (exact, no
abstraction): from every start message (4 types x 2 byte orders x every
permutation of the present known fields x unknown fields interleaved x
empty/non-empty body, parsed from reference-encoded bytes by the real
loader) every edit of the alphabet is applied through the public setters;
after each edit the real marshalled bytes are decoded by the independent
codec and compared field by field with the previous state."""
import itertools
import re

from .. import refdbus as R
from ..engine import Pool, Violation, worker_harness, crash_violation
from ..vbox import HarnessDied, Harness, parse_kv
from ..registry import claim

claim('C12', 'model_checking',
      'explicit-state BFS over header-edit sequences with the marshalled bytes as the (exact) state, every transition executed on the real setters and judged by an independent decoder',
      'States are real marshalled messages; transitions are the public header setters (set / replace with every length 1..17 / delete, for 8 fields, plus stripping unknown fields). '
      'Depth 1 from every start message (all field permutations, both byte orders, unknown fields at every position), depth 2-3 from subsets. After every transition the bytes must decode '
      'under the independent codec, the edited field must read back, and every other field, flags, serial, signature, unknown fields and body must be unchanged; every history is also applied without inspecting the message in between. Start messages include headers beyond 32 KiB and 64 KiB with fields behind the long value. Edits that fail for lack of memory (every allocation index) must leave a well-formed message in which nothing but the edited field differs.',
      'Trusts pyv/refdbus.py. Only API-legal edits are made (values valid per grammar, unlocked messages). Edit sequences longer than the depth bound are not covered.',
      'DESIGN.md section 4 C12')

FIELDS = {'path': R.F_PATH, 'iface': R.F_INTERFACE, 'member': R.F_MEMBER, 'errname': R.F_ERROR_NAME, 'dest': R.F_DESTINATION,
          'sender': R.F_SENDER, 'cinst': R.F_CONTAINER_INSTANCE}


def edit_alphabet(lengths, long_values=False):
    ops = []
    for n in lengths:
        ops.append(('path', b'/' + b'p' * (n - 1) if n > 1 else b'/'))
        ops.append(('cinst', b'/' + b'c' * (n - 1) if n > 1 else b'/'))
        ops.append(('member', b'm' * n))
        if n >= 3:
            ops.append(('iface', b'i.' + b'f' * (n - 2)))
            ops.append(('errname', b'e.' + b'r' * (n - 2)))
            ops.append(('dest', b'd.' + b't' * (n - 2)))
        if n >= 4:
            ops.append(('sender', b':1.' + b'7' * (n - 3)))
    if long_values:
        # the full (depth-1) alphabet also replaces the path by values that push every later field beyond 32 KiB / 64 KiB
        for n in LONG_LENGTHS[1:]:
            ops.append(('path', b'/' + b'P' * (n - 1)))
    for k in FIELDS:
        ops.append((k, None))
    for v in (1, 0xffffffff, 0x01020304):
        ops.append(('rserial', v))
    ops.append(('strip', None))
    for f in ('+n', '-n', '+a', '-a', '+i', '-i'):
        ops.append(('flag', f))
    return ops


def op_text(op):
    k, v = op
    if k == 'strip':
        return 'strip'
    if k == 'flag':
        return 'flag' + v
    if k == 'rserial':
        return 'rserial=%d' % v
    if v is None:
        return k + '-'
    return '%s=%s' % (k, v.hex())


def start_messages(tier):
    base = {
        R.MT_CALL: [(R.F_PATH, (b'o', b'/a/b')), (R.F_MEMBER, (b's', b'Mem')), (R.F_INTERFACE, (b's', b'x.y')), (R.F_DESTINATION, (b's', b'a.b'))],
        R.MT_RETURN: [(R.F_REPLY_SERIAL, (b'u', 5)), (R.F_DESTINATION, (b's', b':1.9')), (R.F_SENDER, (b's', b':1.3'))],
        R.MT_ERROR: [(R.F_ERROR_NAME, (b's', b'a.b.Err')), (R.F_REPLY_SERIAL, (b'u', 5)), (R.F_DESTINATION, (b's', b':1.9'))],
        R.MT_SIGNAL: [(R.F_PATH, (b'o', b'/a')), (R.F_INTERFACE, (b's', b'a.b')), (R.F_MEMBER, (b's', b'Sig')), (R.F_SENDER, (b's', b':1.3')),
                      (R.F_CONTAINER_INSTANCE, (b'o', b'/c'))],
    }
    unk = (12, (b's', b'zz'))
    unk2 = (200, (b'(yv)', [(b'y', 1), (b'v', (b'i', 2))]))
    out = []
    for mt, fields in base.items():
        perms = list(itertools.permutations(fields))
        if tier == 'oldquick':
            perms = perms[::5] if len(perms) > 24 else perms
        for perm in perms:
            for body in ([], [(b's', b'body')]):
                for e in 'lB':
                    f = list(perm)
                    if body:
                        f = f + [(R.F_SIGNATURE, (b'g', b's'))]
                    out.append(R.Msg(mt, 0, 0x0a0b0c0d, f, body, e))
            # unknown fields interleaved at each position (one byte order each, alternating)
            for pos in range(len(perm) + 1):
                f = list(perm)
                f.insert(pos, unk)
                f.insert((pos * 2) % (len(f) + 1), unk2)
                out.append(R.Msg(mt, 2, 77, f + [(R.F_SIGNATURE, (b'g', b'u'))], [(b'u', 9)], 'lB'[pos % 2]))
    # headers longer than 32 KiB / 64 KiB with known fields BEHIND the long value (offsets into the header beyond 2^15, 2^16)
    for n in LONG_LENGTHS:
        for e in 'lB':
            out.append(R.Msg(R.MT_CALL, 0, 0x0a0b0c0d, [(R.F_PATH, (b'o', b'/' + b'L' * (n - 1))), (R.F_MEMBER, (b's', b'Mem')), (R.F_INTERFACE, (b's', b'x.y')),
                                                       (R.F_DESTINATION, (b's', b'a.b')), (R.F_SIGNATURE, (b'g', b's'))], [(b's', b'body')], e))
        out.append(R.Msg(R.MT_SIGNAL, 0, 78, [(12, (b's', b'u' * n)), (R.F_PATH, (b'o', b'/a')), (R.F_INTERFACE, (b's', b'a.b')), (R.F_MEMBER, (b's', b'Sig')),
                                              (R.F_SENDER, (b's', b':1.3')), (R.F_SIGNATURE, (b'g', b'u'))], [(b'u', 9)], 'lB'[n % 2]))
    return out


LONG_LENGTHS = (32766, 33000, 66000)


def describe(m: R.Msg):
    """Everything the property wants preserved, keyed for comparison."""
    d = {'type': m.mtype, 'flags': m.flags, 'serial': m.serial, 'body': [R.canon_value(v) for v in m.body]}
    for c, v in m.fields:
        if c <= 10:
            d['f%d' % c] = R.canon_value(v)
    d['unknown'] = [(c, R.canon_value(v)) for c, v in m.fields if c > 10]
    return d


def judge_edit(prev_hex, op, ret, new_hex, canon, out, hits, path):
    case = {'start': path[0], 'ops': path[1] + [op_text(op)]}
    k, v = op
    hk = k if k in ('strip', 'rserial', 'flag') else (k + ('-del' if v is None else '-set'))
    hits[hk] = hits.get(hk, 0) + 1
    if ret != 1:
        out.append(Violation('setter-failed', k, 'setter returned %d for a legal edit %s' % (ret, op_text(op)), case))
        return None
    prev = R.decode_lenient(bytes.fromhex(prev_hex))
    new_bytes = bytes.fromhex(new_hex)
    st = R.try_decode(new_bytes, fds_available=1 << 30)
    if st[0] == 'invalid' and st[1].startswith('header.missing-'):
        new = R.decode_lenient(new_bytes)
        if new is None:
            out.append(Violation('malformed-after-edit', st[1], 'bytes after %s are not even well-formed' % op_text(op), dict(case, bytes=new_hex)))
            return None
    elif st[0] != 'ok':
        out.append(Violation('malformed-after-edit', str(st[1]), 'bytes after %s do not decode: %s' % (op_text(op), st[1]), dict(case, bytes=new_hex)))
        return None
    else:
        new = st[1]
    dp, dn = describe(prev), describe(new)
    expect = dict(dp)
    if k == 'strip':
        expect['unknown'] = []
    elif k == 'flag':
        bit = {'n': 1, 'a': 2, 'i': 4}[v[1]]
        on = (v[0] == '+') != (v[1] == 'a')         # set_auto_start(TRUE) clears NO_AUTO_START
        expect['flags'] = (dp['flags'] | bit) if on else (dp['flags'] & ~bit)
    elif k == 'rserial':
        expect['f5'] = R.canon_value((b'u', v))
    else:
        code = FIELDS[k]
        key = 'f%d' % code
        if v is None:
            expect.pop(key, None)
        else:
            expect[key] = R.canon_value((R.FIELD_TYPE[code], v))
    if dn != expect:
        diff = {kk: (expect.get(kk), dn.get(kk)) for kk in set(expect) | set(dn) if expect.get(kk) != dn.get(kk)}
        clause = 'edited-field-wrong' if (any(kk == ('f%d' % FIELDS.get(k, 5)) for kk in diff) or (k == 'flag' and 'flags' in diff)) and len(diff) == 1 else 'other-field-changed'
        out.append(Violation(clause, k + ('-del' if v is None and k not in ('strip',) else ''), 'after %s: expected/got differ in %r' % (op_text(op), diff), dict(case, bytes=new_hex)))
        return None
    # accessor view must agree with the bytes
    want_canon = R.canon_msg(new).replace('h:0', 'h:?')
    if canon != want_canon:
        out.append(Violation('accessors-disagree-with-bytes', k, 'accessors after %s:\n impl: %s\n ref : %s' % (op_text(op), canon, want_canon), dict(case, bytes=new_hex)))
        return None
    return new_hex


def task_expand(t):
    """t = (start_hex, ops_so_far(list of text), state_hex, list of ops) -> successor states"""
    start_hex, hist, state_hex, ops = t
    h = worker_harness('vbox')
    out, hits = [], {}
    succ = []
    n = 0
    for op in ops:
        try:
            r = h.cmd('EDIT %s %s' % (start_hex, ' '.join(hist + [op_text(op)])))
        except HarnessDied as e:
            out.append(crash_violation(e, {'start': start_hex, 'ops': hist + [op_text(op)]}))
            continue
        if not r.startswith('OK'):
            out.append(Violation('start-rejected', 'loader', 'start message rejected by the loader: %s' % r[:100], {'start': start_hex, 'ops': []}))
            break
        parts = r.split(';;')[1:]
        if len(parts) != len(hist) + 2:
            continue
        p0, p1 = parts[-2], parts[-1]
        b0 = parse_kv(p0.split(' canon=')[0])['bytes']
        if b0 != state_hex:
            out.append(Violation('replay-diverged', 'determinism', 'replaying the edit history does not reproduce the recorded state', {'start': start_hex, 'ops': hist}))
            break
        kv1 = parse_kv(p1.split(' canon=')[0])
        canon1 = p1.split(' canon=', 1)[1]
        n += 1
        nh = judge_edit(state_hex, op, int(kv1['ret']), kv1['bytes'], canon1, out, hits, (start_hex, hist))
        if nh is not None:
            succ.append((op_text(op), nh))
            # the same edit history applied "blind": nothing inspects the message before or between the edits (an inspected
            # message has been converted to the native byte order and has a filled field cache); same result required
            try:
                rb = h.cmd('EDITB %s %s' % (start_hex, ' '.join(hist + [op_text(op)])))
            except HarnessDied as e:
                out.append(crash_violation(e, {'start': start_hex, 'ops': hist + [op_text(op)], 'blind': True}))
                continue
            pb = rb.split(';;')[1:]
            if rb.startswith('OK') and pb:
                kvb = parse_kv(pb[-1].split(' canon=')[0])
                hits['blind'] = hits.get('blind', 0) + 1
                db_ = R.decode_lenient(bytes.fromhex(kvb.get('bytes', '')))
                di_ = R.decode_lenient(bytes.fromhex(nh))
                if db_ is None or di_ is None or describe(db_) != describe(di_):
                    out.append(Violation('blind-edit-differs', op[0], 'the edit history %r gives a different (or malformed) message when the message is not inspected before/between the edits (byte order aside)\n inspected: %s\n blind    : %s' %
                                         (hist + [op_text(op)], nh, kvb.get('bytes')), {'start': start_hex, 'ops': hist + [op_text(op)], 'blind': True}))
    byfp = {}
    for v in out:
        byfp.setdefault(v.fingerprint, []).append(v)
    return {'viol': [v.to_json() for vs in byfp.values() for v in vs[:2]], 'counts': {k: len(v) for k, v in byfp.items()},
            'n': n, 'hits': hits, 'succ': succ, 'start': start_hex, 'hist': hist}


def task_failed_edits(items):
    """An edit that fails for lack of memory is part of an edit sequence too: for every index k of the failing allocation the
    harness (OOMEDIT) checks that the message still serialises to exactly the bytes it had before and that the edit succeeds
    when repeated.  (C14 enumerates the same command over its own, larger set; here it closes C12's 'any sequence'.)"""
    h = worker_harness('vbox')
    out = []
    n = idx = 0
    for st, optxt in items:
        case = {'start': st, 'ops': [optxt], 'failed_edit': True}
        try:
            r = h.cmd('OOMEDIT %s %s' % (st, optxt), timeout=300)
        except HarnessDied as e:
            out.append(crash_violation(e, case))
            continue
        if not r.startswith('OK'):
            continue
        kv = parse_kv(r)
        n += 1
        idx += int(kv['indices'])
        what = kv['first'].split(':', 1)[-1]
        opk = optxt.split('=')[0].rstrip('-')
        if int(kv['bad']) and not what.startswith('failed-edit-changed-message'):
            # the repeated edit failed or gave another result than the uninjected edit, or blocks leaked
            out.append(Violation('failed-edit-' + re.sub(r'\(.*', '', what), opk, 'edit %s failing for lack of memory: %s (%s bad allocation indices of %s)' % (optxt[:60], kv['first'], kv['bad'], kv['indices']), case))
        # what a FAILED edit may leave behind as far as this property goes: a well-formed message in which everything but the
        # edited field (for strip: the unknown fields, of which any subset may be gone) is as before.  (That it should be
        # byte-for-byte unchanged is C14's atomicity clause, judged there.)
        pre = describe(R.decode_lenient(bytes.fromhex(st)))
        for item in (kv.get('changed', '-').split(',') if kv.get('changed', '-') != '-' else []):
            kk, hx = item.split(':')
            post = R.decode_lenient(bytes.fromhex(hx))
            stt = R.try_decode(bytes.fromhex(hx), fds_available=1 << 30)
            if post is None or (stt[0] != 'ok' and not str(stt[1]).startswith('header.missing-')):
                out.append(Violation('malformed-after-failed-edit', opk, 'edit %s failing at allocation %s leaves bytes that do not decode: %s' % (optxt[:60], kk, stt[1]), dict(case, bytes=hx)))
                continue
            dpost = describe(post)
            diff = {x for x in set(pre) | set(dpost) if pre.get(x) != dpost.get(x)}
            allowed = {'unknown'} if opk == 'strip' else ({'f%d' % FIELDS[opk]} if opk in FIELDS else ({'f5'} if opk == 'rserial' else {'flags'}))
            if opk == 'strip' and 'unknown' in diff and not all(u in pre['unknown'] for u in dpost['unknown']):
                diff.add('unknown-not-a-subset')
            if diff - allowed:
                out.append(Violation('other-field-changed', opk + '-failed', 'edit %s failing at allocation %s changed %r' % (optxt[:60], kk, sorted(diff - allowed)), dict(case, bytes=hx)))
    return {'viol': [v.to_json() for v in out], 'n': n, 'idx': idx}


def run(ctx):
    quick = ctx.tier == 'quick'
    ops1 = edit_alphabet(range(1, 18), long_values=True)
    ops_deep = edit_alphabet((1, 4, 7, 8, 9, 16))
    starts = [R.encode_message(m, auto_signature=False).hex() for m in start_messages(ctx.tier)]
    starts = list(dict.fromkeys(starts))
    seen = set(starts)
    transitions = 0
    pool = Pool()
    depth_plan = [(1, len(starts), ops1), (2, 200 if quick else 2000, ops_deep), (3, 12 if quick else 200, ops_deep)] + ([] if quick else [(4, 20, ops_deep)])
    frontier = [(s, [], s) for s in starts]
    completed_depth = 0
    try:
        for depth, nstates, ops in depth_plan:
            # choose the states expanded at this depth: spread over the frontier
            if len(frontier) > nstates:
                step = max(1, len(frontier) // nstates)
                chosen = frontier[::step][:nstates]
            else:
                chosen = frontier
            tasks = []
            for (st, hist, state) in chosen:
                oo = ops_deep if len(state) > 40000 else ops      # very long messages: the short alphabet (cost), in small tasks
                step_ = 8 if len(state) > 40000 else 40
                for i in range(0, len(oo), step_):
                    tasks.append((st, hist, state, oo[i:i + step_]))
            nxt = []
            aborted = False
            for r in pool.imap(task_expand, tasks):
                if '__crash__' in r:
                    ctx.add_violation(Violation('crash', r['__crash__'], r['stderr'], {'task': r['task']}))
                    continue
                transitions += r['n']
                ctx.merge_hits(r['hits'])
                ctx.add_violations(r['viol'])
                for optxt, nh in r['succ']:
                    if nh not in seen:
                        seen.add(nh)
                        nxt.append((r['start'], r['hist'] + [optxt], nh))
                if ctx.expired():
                    ctx.incomplete('deadline hit at depth %d' % depth)
                    aborted = True
                    break
            if aborted:
                pool.cancel()
                break
            completed_depth = depth
            frontier = sorted(nxt, key=lambda t_: t_[2])        # results arrive in completion order: fix the order, so that the spread below is the same in every run
        # failing edits (every allocation index) on a spread of the start messages
        fe_items = [(st, op_text(op)) for st in starts[::(100 if quick else 25)] if len(st) < 40000 for op in ops_deep if op[0] != 'flag']
        fe_n = fe_idx = 0
        if not ctx.expired():
            for r in pool.imap(task_failed_edits, [fe_items[i:i + 20] for i in range(0, len(fe_items), 20)]):
                if '__crash__' in r:
                    ctx.add_violation(Violation('crash', r['__crash__'], r['stderr'], {'task': r['task']}))
                    continue
                ctx.add_violations(r['viol'])
                fe_n += r['n']
                fe_idx += r['idx']
            if pool.cut:
                ctx.incomplete('deadline hit during the failing-edit part')
    finally:
        pool.close()
    ctx.coverage.update({
        'failed_edits': fe_n, 'failed_edit_allocation_indices': fe_idx,
        'states': len(seen), 'transitions': transitions, 'traces_validated_against_impl': transitions,
        'start_messages': len(starts), 'completed_depth': completed_depth,
        'bound': 'depth 1 from every start message with %d edits; depth 2 from %d and depth 3 from %d spread states with %d edits' %
                 (len(ops1), depth_plan[1][1], depth_plan[2][1], len(ops_deep)),
        'state_key': 'the marshalled bytes of the message (exact)',
    })
    ctx.samples = [{'start': starts[0][:80] + '...', 'ops': ['dest=642e7474', 'path-', 'strip']}]
    ctx.assumptions = ['pyv/refdbus.py is a faithful reading of the specification', 'only API-legal setter calls are made']
    ctx.replay_fn = replay


def replay(case):
    """Re-run the whole recorded edit sequence from the start message, judging every step."""
    if case.get('failed_edit'):
        return [Violation.from_json(v) for v in task_failed_edits([(case['start'], case['ops'][0])])['viol']]
    out, hits = [], {}
    ops = case['ops']
    if case.get('blind'):
        with Harness('vbox') as h:
            try:
                r1 = h.cmd('EDIT %s %s' % (case['start'], ' '.join(ops)))
                r2 = h.cmd('EDITB %s %s' % (case['start'], ' '.join(ops)))
            except HarnessDied as e:
                return [crash_violation(e, case)]
        b1 = parse_kv(r1.split(';;')[-1].split(' canon=')[0])['bytes']
        b2 = parse_kv(r2.split(';;')[-1].split(' canon=')[0])['bytes']
        d1, d2 = R.decode_lenient(bytes.fromhex(b1)), R.decode_lenient(bytes.fromhex(b2))
        if d1 is None or d2 is None or describe(d1) != describe(d2):
            return [Violation('blind-edit-differs', parse_op(ops[-1])[0], 'inspected %s blind %s' % (b1, b2), case)]
        return []
    with Harness('vbox') as h:
        try:
            r = h.cmd('EDIT %s %s' % (case['start'], ' '.join(ops)))
        except HarnessDied as e:
            return [crash_violation(e, case)]
        parts = r.split(';;')[1:]
        for i, optxt in enumerate(ops):
            if i + 1 >= len(parts):
                break
            prev = parse_kv(parts[i].split(' canon=')[0])['bytes']
            kv1 = parse_kv(parts[i + 1].split(' canon=')[0])
            judge_edit(prev, parse_op(optxt), int(kv1['ret']), kv1['bytes'], parts[i + 1].split(' canon=', 1)[1], out, hits, (case['start'], ops[:i]))
    return out


def parse_op(t):
    if t == 'strip':
        return ('strip', None)
    if t.startswith('rserial='):
        return ('rserial', int(t[8:]))
    if t.endswith('-'):
        return (t[:-1], None)
    k, v = t.split('=', 1)
    return (k, bytes.fromhex(v))
