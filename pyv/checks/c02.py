"""C02 — built messages serialise to valid wire format and round-trip exactly.

Every construction program of the generator space (message type x header
field subsets x flags x every body of pyv/gen.bodies, each through the
generic and the specific constructors and through append_basic /
append_fixed_array) is executed on the real API by vbox BUILD; the bytes are
judged by the independent codec, parsed back, re-marshalled, converted from
the other byte order, and copied."""
import re

from .. import gen
from .. import refdbus as R
from ..engine import Pool, Violation, worker_harness, crash_violation
from ..vbox import HarnessDied, Harness, parse_kv
from ..registry import claim

claim('C02', 'exploration',
      'exhaustive enumeration of construction programs up to a shape bound, each executed on the real API and judged by an independent encoder/decoder',
      'Every construction program (all type trees to a depth bound x boundary values x header-field subsets x constructors x append entry points) is run through the public '
      'construction API; dbus_message_marshal output must decode under the independent codec to exactly the program\'s value tree, parse back to the same values, re-marshal byte-identically, '
      'survive conversion from the other byte order unchanged, and copy to an equal message with serial 0. Header values include continuations and truncations of the reserved local names and of the bus name and names at the length limit; block reads of fixed arrays are cross-checked with element-wise iteration.',
      'Trusts pyv/refdbus.py. Programs deeper/wider than the bound are not covered; append_args is exercised only through the basic-type path shared with append_basic.',
      'DESIGN.md section 4 C02')


def has_h(body):
    return b'h' in b''.join(v[0] for v in body) or 'h:' in ','.join(R.canon_value(v) for v in body)


def check_program(h, m, ctor, arr, hits, out, fops='', getdel=None, reset=None):
    """m: the intended message (fields in the order the setters are called)."""
    if m.body and m.field(R.F_SIGNATURE) is None:
        m = m.copy()
        m.fields = m.fields + [(R.F_SIGNATURE, (b'g', m.body_sig()))]
    if fops:
        # flags are produced by a HISTORY of setter calls; m.flags is the expected final flag byte
        mb = m.copy()
        mb.flags = 0
        prog = '%s %s %s FOPS=%s' % (ctor, arr, R.canon_msg(mb), fops)
    elif reset:
        # the program first sets the field to reset[2] and then sets it again to the value m carries
        mb = m.copy()
        mb.fields = [(c, (v[0], reset[2]) if c == reset[1] else v) for c, v in mb.fields]
        prog = '%s %s %s RESET=%s:%s' % (ctor, arr, R.canon_msg(mb), reset[0], dict(m.fields)[reset[1]][1].hex())
    elif getdel:
        # the program sets getdel[1] as well, reads all fields back, then removes that field again; m is the expected result
        mb = m.copy()
        mb.fields = list(getdel[2])
        prog = '%s %s %s GETDEL=%s' % (ctor, arr, R.canon_msg(mb), getdel[0])
    else:
        prog = '%s %s %s' % (ctor, arr, R.canon_msg(m))
    case = {'program': prog, 'expected_flags': m.flags}
    if getdel:
        case['expected'] = R.canon_msg(m)
    try:
        r = h.cmd('BUILD ' + prog)
    except HarnessDied as e:
        out.append(crash_violation(e, case))
        return
    if len(m.body_sig()) > 255:
        # a body whose signature exceeds the protocol's 255 bytes cannot be a message: the construction API has to refuse it
        # (cleanly: no abort, nothing half-marshalled handed out)
        hits['over-long-signature-refused'] = hits.get('over-long-signature-refused', 0) + 1
        if not r.startswith('ERR'):
            out.append(Violation('invalid-serialisation', 'signature-too-long', 'a body with a %d-byte signature was built and marshalled: %s' % (len(m.body_sig()), r[:120]), case))
        return
    if r.startswith('ERR'):
        out.append(Violation('build-failed', r.split()[1] if len(r.split()) > 1 else 'err', 'construction API refused a well-typed program: %s' % r, case))
        return
    acc = None
    if ' acc=' in r:
        r, acc = r.split(' acc=', 1)
    kv = parse_kv(r)
    b1 = bytes.fromhex(kv['bytes'])
    if ctor == 's' and m.mtype == R.MT_SIGNAL and not fops:
        # dbus_message_new_signal() documents that it sets NO_REPLY_EXPECTED
        m = m.copy()
        m.flags |= 1
    want = R.canon_msg(m)
    # the API takes descriptors and writes INDICES into the message's fd array: the k-th appended
    # descriptor gets index k (append order == canonical order)
    cnt = [0]

    def renum(mo):
        cnt[0] += 1
        return 'h:%d' % (cnt[0] - 1)
    want = re.sub(r'h:\d+', renum, want)
    nfds = sum(1 for _ in re.finditer(r'h:\d+', want))
    ref = R.try_decode(b1, fds_available=nfds)
    hits['programs'] = hits.get('programs', 0) + 1
    if ref[0] != 'ok':
        out.append(Violation('invalid-serialisation', str(ref[1]), 'dbus_message_marshal produced bytes the reference rejects (%s)' % (ref[1],), dict(case, bytes=b1.hex())))
        return
    got = R.canon_msg(ref[1])
    if got != want:
        out.append(Violation('serialisation-differs', 'values', 'marshalled bytes decode to different values\n want: %s\n got : %s' % (want, got), dict(case, bytes=b1.hex())))
        return
    # the accessors of the message object that was built must say the same as its bytes
    if acc is not None and acc != re.sub(r'h:\d+', 'h:?', want):
        out.append(Violation('accessors-disagree-with-bytes', 'built-message', 'the accessors of the built message disagree with its serialisation\n accessors: %s\n bytes    : %s' % (acc, want), dict(case, bytes=b1.hex())))
        return
    # copy
    if kv.get('copyserial') != '0':
        out.append(Violation('copy', 'serial-not-zero', 'dbus_message_copy serial=%s' % kv.get('copyserial'), case))
    if bytes.fromhex(kv['copy']) != b1:
        out.append(Violation('copy', 'bytes-differ', 'dbus_message_copy (+ same serial) marshals differently', case))
    hits['copy'] = hits.get('copy', 0) + 1
    if nfds:
        hits['with-fds'] = hits.get('with-fds', 0) + 1
        return
    # parse back
    try:
        r2 = h.cmd('DEMARSHAL ' + b1.hex())
    except HarnessDied as e:
        out.append(crash_violation(e, dict(case, bytes=b1.hex())))
        return
    canon = r2.split(' canon=', 1)[1] if ' canon=' in r2 else None
    kv2 = parse_kv(r2.split(' canon=', 1)[0])
    if kv2.get('dm') != '1' or canon != want:
        out.append(Violation('parse-back', 'values', 'parsing the marshalled bytes gives different values\n want: %s\n got : %s' % (want, canon), dict(case, bytes=b1.hex())))
        return
    if kv2.get('fixedmismatch', '0') != '0':
        out.append(Violation('parse-back', 'fixed-array-block-read', 'dbus_message_iter_get_fixed_array / get_element_count (from the first and from later positions) disagree with element-wise iteration', dict(case, bytes=b1.hex())))
    if kv2.get('getargsmismatch', '0') != '0':
        out.append(Violation('parse-back', 'get_args', 'dbus_message_get_args() returns other values than the iterator walk of the same message', dict(case, bytes=b1.hex())))
    if kv2.get('re0') != b1.hex():
        out.append(Violation('remarshal', 'not-identical', 're-serialisation is not byte-identical', dict(case, bytes=b1.hex())))
    hits['parse-back'] = hits.get('parse-back', 0) + 1
    # other byte order: reference-encode the decoded message (same field order) big-endian
    m_be = ref[1].copy()
    m_be.endian = 'B'
    b_be = R.encode_message(m_be, auto_signature=False)
    try:
        r3 = h.cmd('DEMARSHAL ' + b_be.hex())
    except HarnessDied as e:
        out.append(crash_violation(e, dict(case, bytes=b_be.hex())))
        return
    canon3 = r3.split(' canon=', 1)[1] if ' canon=' in r3 else None
    kv3 = parse_kv(r3.split(' canon=', 1)[0])
    if kv3.get('fixedmismatch', '0') != '0':
        out.append(Violation('byteswap', 'fixed-array-block-read', 'block reads of fixed arrays disagree with element-wise iteration after conversion from the other byte order', dict(case, bytes=b_be.hex())))
    if kv3.get('getargsmismatch', '0') != '0':
        out.append(Violation('byteswap', 'get_args', 'dbus_message_get_args() returns other values than the iterator walk after conversion from the other byte order', dict(case, bytes=b_be.hex())))
    if kv3.get('dm') != '1' or canon3 != want:
        out.append(Violation('byteswap', 'values', 'big-endian encoding of the same message reads back differently\n want: %s\n got : %s' % (want, canon3), dict(case, bytes=b_be.hex())))
        return
    if kv3.get('re') != b1.hex():
        out.append(Violation('byteswap', 'bytes', 'message converted to native byte order does not marshal to the native encoding', dict(case, bytes=b_be.hex())))
    if kv3.get('re0') != b_be.hex():
        out.append(Violation('remarshal', 'not-identical-be', 're-serialisation of a big-endian message (before iteration) is not byte-identical', dict(case, bytes=b_be.hex())))
    hits['byteswap'] = hits.get('byteswap', 0) + 1


def task_batch(items):
    """items: list of (ctor, arr, Msg-as-tuple)"""
    h = worker_harness('vbox')
    out, hits = [], {}
    for it in items:
        ctor, arr, mt = it[:3]
        m = R.Msg(*mt)
        x = it[3] if len(it) > 3 else ''
        if isinstance(x, tuple) and x and x[0] == 'RESET':
            check_program(h, m, ctor, arr, hits, out, '', None, x[1:])
        else:
            check_program(h, m, ctor, arr, hits, out, x if isinstance(x, str) else '', x if not isinstance(x, str) else None)
    byfp = {}
    for v in out:
        byfp.setdefault(v.fingerprint, []).append(v)
    return {'viol': [v.to_json() for vs in byfp.values() for v in vs[:3]], 'counts': {k: len(v) for k, v in byfp.items()},
            'n': len(items), 'hits': hits}


def _flat(sig):
    return (len(sig) == 1 and sig in b'ybnqiuxtdsog') or (len(sig) == 2 and sig[:1] == b'a' and sig[1:2] in b'ybnqiuxtdsog')


def varargs_bodies():
    """Bodies for dbus_message_append_args / dbus_message_get_args: every pair of (basic | array) arguments so that each
    kind follows each alignment, arrays of 0..3 elements, the 8-argument maximum of the harness."""
    basics = [(b'y', 200), (b'b', 1), (b'n', -3), (b'q', 65535), (b'i', -7), (b'u', 4000000000), (b'x', -(1 << 40)), (b't', (1 << 63) + 5),
              (b'd', 0x7ff8000000000001), (b's', b'str'), (b's', b''), (b'o', b'/o/p'), (b'g', b'a{sv}')]
    def arr(code, n):
        proto = {b'y': 1, b'b': 1, b'n': -2, b'q': 7, b'i': -9, b'u': 11, b'x': -12, b't': 13, b'd': 0x4000000000000000, b's': b'e', b'o': b'/e', b'g': b'i'}[code]
        vals = []
        for k in range(n):
            if code in (b's',):
                vals.append((code, proto * k))
            elif code == b'o':
                vals.append((code, b'/e' + b'x' * k))
            elif code == b'g':
                vals.append((code, b'i' * k))
            elif code == b'b':
                vals.append((code, k % 2))
            elif code == b'y':
                vals.append((code, (proto + k) % 256))
            else:
                vals.append((code, proto + k if code != b'd' else proto + k))
        return (b'a' + code, vals)
    arrays = [arr(bytes([c]), n) for c in b'ybnqiuxtdsog' for n in (0, 1, 3)]
    singles = basics + arrays
    for v in singles:
        yield [v]
    for a in singles:
        for b in singles:
            yield [a, b]
    yield [(b'y', 1), (b's', b'a'), (b'ai', [(b'i', 1)]), (b'as', [(b's', b'x'), (b's', b'yy')]), (b'd', 5), (b'ay', []), (b'g', b'i'), (b't', 9)]


def programs(tier):
    rich = True           # the quick tier uses what used to be the thorough alphabet
    call_fields = [(R.F_PATH, (b'o', b'/a')), (R.F_INTERFACE, (b's', b'a.b')), (R.F_MEMBER, (b's', b'M'))]
    # bodies through the generic ctor with append_basic, and through append_fixed_array
    for body in (gen.bodies(3, True, 3) if tier == 'thorough' else gen.bodies(3, True, 2)):
        yield ('g', 'i', (R.MT_CALL, 0, 7, list(call_fields), body))
        if any(v[0][:1] == b'a' and len(v[0]) == 2 and v[0][1:2] in b'ybnqiuxtd' for v in body):
            yield ('g', 'f', (R.MT_CALL, 0, 7, list(call_fields), body))
        # the variable-argument builder, dbus_message_append_args(), for every body it can express (basic values, arrays
        # of fixed-size values, arrays of strings / object paths / signatures; at most 8 arguments)
        if body and len(body) <= 8 and all(_flat(v[0]) for v in body):
            yield ('g', 'v', (R.MT_CALL, 0, 7, list(call_fields), body))
    # bodies at and just beyond the 255-byte signature limit (flat, and as one struct)
    for n_ in (254, 255, 256, 300):
        yield ('g', 'i', (R.MT_CALL, 0, 7, list(call_fields), [(b'y', k % 251) for k in range(n_)]))
    for n_ in (252, 253, 254, 255):
        yield ('g', 'i', (R.MT_CALL, 0, 7, list(call_fields), [R.ST(*[(b'y', k % 251) for k in range(n_)])]))
    for body in varargs_bodies():
        yield ('g', 'v', (R.MT_SIGNAL, 0, 9, [(R.F_PATH, (b'o', b'/a')), (R.F_INTERFACE, (b's', b'a.b')), (R.F_MEMBER, (b's', b'S'))], body))
    # header programs: setters are called in the fixed order path, iface, member, dest, errname, sender, cinst, rserial
    order = [R.F_PATH, R.F_INTERFACE, R.F_MEMBER, R.F_DESTINATION, R.F_ERROR_NAME, R.F_SENDER, R.F_CONTAINER_INSTANCE, R.F_REPLY_SERIAL]
    vals = {R.F_PATH: (b'o', b'/a/b'), R.F_INTERFACE: (b's', b'x.y'), R.F_MEMBER: (b's', b'Mem'), R.F_DESTINATION: (b's', b':1.5'),
            R.F_ERROR_NAME: (b's', b'a.b.E'), R.F_SENDER: (b's', b'a.b.c'), R.F_CONTAINER_INSTANCE: (b'o', b'/c/i'), R.F_REPLY_SERIAL: (b'u', 9)}
    import itertools
    for mt in (R.MT_CALL, R.MT_RETURN, R.MT_ERROR, R.MT_SIGNAL):
        for k in range(len(order) + 1):
            for sub in itertools.combinations(order, k):
                mandatory = {R.MT_CALL: (R.F_PATH, R.F_MEMBER), R.MT_SIGNAL: (R.F_PATH, R.F_INTERFACE, R.F_MEMBER),
                             R.MT_ERROR: (R.F_ERROR_NAME, R.F_REPLY_SERIAL), R.MT_RETURN: (R.F_REPLY_SERIAL,)}[mt]
                if any(f not in sub for f in mandatory):
                    continue    # an unfinished construction, not "a message"
                extra = k - len(mandatory)
                if not rich and extra not in (0, 1, 2, len(order) - len(mandatory)):
                    continue
                fields = [(c, vals[c]) for c in sub]
                for flags in ((0, 1, 2, 3, 4, 7) if extra <= 1 else (0,)):
                    for body in ([], [(b's', b'x')]):
                        yield ('g', 'i', (mt, flags, 0x01020304, fields, body))
    # specific constructors
    for dest in (None, (b's', b'a.b')):
        for iface in (None, (b's', b'x.y')):
            f = [(R.F_PATH, (b'o', b'/p'))] + ([(R.F_INTERFACE, iface)] if iface else []) + [(R.F_MEMBER, (b's', b'M'))] + \
                ([(R.F_DESTINATION, dest)] if dest else [])
            yield ('s', 'i', (R.MT_CALL, 0, 3, f, [(b'u', 1)]))
    yield ('s', 'i', (R.MT_SIGNAL, 0, 3, [(R.F_PATH, (b'o', b'/p')), (R.F_INTERFACE, (b's', b'x.y')), (R.F_MEMBER, (b's', b'S'))], []))
    # header values that are valid but sit next to something special: continuations and truncations of the reserved local
    # interface and path and of the bus's own name, names at the 255-byte limit, the root path
    near = {R.F_INTERFACE: [b'org.freedesktop.DBus.Locale', b'org.freedesktop.DBus.Local.sub', b'org.freedesktop.DBus.Loca', b'org.freedesktop.DBus', b'a.' + b'b' * 253],
            R.F_PATH: [b'/org/freedesktop/DBus/Local/child', b'/org/freedesktop/DBus/Localx', b'/org/freedesktop/DBus/Loca', b'/org/freedesktop/DBus', b'/'],
            R.F_MEMBER: [b'M' * 255, b'Local'],
            R.F_DESTINATION: [b'org.freedesktop.DBus', b'org.freedesktop.DBus.Local', b'org.freedesktop.DBusx', b':1.' + b'9' * 252],
            R.F_SENDER: [b'org.freedesktop.DBus', b'org.freedesktop.DBus.x', b':1.0'],
            R.F_ERROR_NAME: [b'org.freedesktop.DBus.Error.Failed', b'org.freedesktop.DBus.Local.E', b'a.' + b'E' * 253]}
    sig_base = {R.F_PATH: (b'o', b'/p'), R.F_INTERFACE: (b's', b'x.y'), R.F_MEMBER: (b's', b'S')}
    for code, values in near.items():
        for v in values:
            if code in sig_base:
                f = dict(sig_base)
                f[code] = (R.FIELD_TYPE[code], v)
                fl = [(c, f[c]) for c in (R.F_PATH, R.F_INTERFACE, R.F_MEMBER)]
                yield ('s', 'i', (R.MT_SIGNAL, 0, 3, fl, [(b's', b'x')]))
                yield ('g', 'i', (R.MT_CALL, 0, 7, fl, []))
            elif code == R.F_ERROR_NAME:
                yield ('g', 'i', (R.MT_ERROR, 0, 7, [(R.F_ERROR_NAME, (b's', v)), (R.F_REPLY_SERIAL, (b'u', 9))], [(b's', b'x')]))
            else:
                yield ('g', 'i', (R.MT_CALL, 0, 7, [(R.F_PATH, (b'o', b'/p')), (R.F_MEMBER, (b's', b'M')), (code, (b's', v))], []))
    # flag histories: every sequence of <= 3 calls of the three flag setters with TRUE/FALSE, on every message type
    ops = ['+n', '-n', '+a', '-a', '+i', '-i']

    def final(start, seq):
        f = start
        for o in seq:
            bit = {'n': 1, 'a': 2, 'i': 4}[o[1]]
            on = (o[0] == '+') != (o[1] == 'a')     # auto_start(TRUE) CLEARS the NO_AUTO_START bit
            f = (f | bit) if on else (f & ~bit)
        return f
    base = {R.MT_CALL: [(R.F_PATH, (b'o', b'/p')), (R.F_MEMBER, (b's', b'M'))], R.MT_RETURN: [(R.F_REPLY_SERIAL, (b'u', 9))],
            R.MT_ERROR: [(R.F_ERROR_NAME, (b's', b'a.b.E')), (R.F_REPLY_SERIAL, (b'u', 9))],
            R.MT_SIGNAL: [(R.F_PATH, (b'o', b'/p')), (R.F_INTERFACE, (b's', b'x.y')), (R.F_MEMBER, (b's', b'S'))]}
    for n in (1, 2, 3):
        for seq in itertools.product(ops, repeat=n):
            for mt in (R.MT_CALL, R.MT_RETURN, R.MT_ERROR, R.MT_SIGNAL):
                yield ('g', 'i', (mt, final(0, seq), 11, list(base[mt]), []), ''.join(seq))
            yield ('s', 'i', (R.MT_SIGNAL, final(1, seq), 11, list(base[R.MT_SIGNAL]), []), ''.join(seq))
            yield ('s', 'i', (R.MT_CALL, final(0, seq), 11, list(base[R.MT_CALL]), []), ''.join(seq))
    # set, read back, delete: every optional field of a full header is removed after all getters have run, then a body is appended
    delname = {R.F_PATH: 'path', R.F_INTERFACE: 'iface', R.F_MEMBER: 'member', R.F_ERROR_NAME: 'errname', R.F_DESTINATION: 'dest', R.F_SENDER: 'sender', R.F_CONTAINER_INSTANCE: 'cinst'}
    for mt in (R.MT_CALL, R.MT_RETURN, R.MT_ERROR, R.MT_SIGNAL):
        mandatory = {R.MT_CALL: (R.F_PATH, R.F_MEMBER), R.MT_SIGNAL: (R.F_PATH, R.F_INTERFACE, R.F_MEMBER), R.MT_ERROR: (R.F_ERROR_NAME, R.F_REPLY_SERIAL), R.MT_RETURN: (R.F_REPLY_SERIAL,)}[mt]
        for k in (len(order), len(order) - 1, len(order) - 2):
            for sub in itertools.combinations(order, k):
                if any(f not in sub for f in mandatory):
                    continue
                full = [(c, vals[c]) for c in sub]
                for dele in sub:
                    if dele in mandatory or dele not in delname:
                        continue
                    remaining = [(c, v) for c, v in full if c != dele]
                    for body in ([], [(b's', b'x')], [(b'u', 7), (b's', b'yz')]):
                        yield ('g', 'i', (mt, 0, 0x01020304, remaining, body), (delname[dele], dele, full))
    # set twice: a field that is already there gets another value (shorter, equal length, longer, across an 8-byte block),
    # for the field set last and for one in the middle, with and without a body
    for mt in (R.MT_CALL, R.MT_SIGNAL, R.MT_ERROR):
        full = {R.MT_CALL: [R.F_PATH, R.F_INTERFACE, R.F_MEMBER, R.F_DESTINATION], R.MT_SIGNAL: [R.F_PATH, R.F_INTERFACE, R.F_MEMBER],
                R.MT_ERROR: [R.F_DESTINATION, R.F_ERROR_NAME, R.F_SENDER, R.F_REPLY_SERIAL]}[mt]
        for tail in range(1, len(full) + 1):
            sub = full[:tail]
            if mt == R.MT_ERROR and R.F_REPLY_SERIAL not in sub:
                sub = sub + [R.F_REPLY_SERIAL]
            if mt == R.MT_CALL and R.F_MEMBER not in sub:
                continue
            if mt == R.MT_SIGNAL and len(sub) < 3:
                continue
            if mt == R.MT_ERROR and R.F_ERROR_NAME not in sub:
                continue
            for target in [c for c in sub if c in delname][-2:]:
                old = vals[target][1]
                short = {R.F_PATH: b'/a', R.F_INTERFACE: b'x.y', R.F_MEMBER: b'M', R.F_DESTINATION: b':1.5', R.F_ERROR_NAME: b'a.E', R.F_SENDER: b'a.b',
                         R.F_CONTAINER_INSTANCE: b'/c'}[target]
                for newv in (short, old[:-1] + b'Q', old + b'q', old + b'qq', old + b'q' * 7, old + b'q' * 9):
                    if newv == old:
                        continue
                    fields = [(c, (vals[c][0], newv) if c == target else vals[c]) for c in sub]
                    for body in ([], [(b's', b'x')]):
                        yield ('g', 'i', (mt, 0, 0x01020304, fields, body), ('RESET', delname[target], target, old))
    # long values: strings crossing 8-byte residues in every field
    for n in range(1, 18):
        fields = [(R.F_PATH, (b'o', b'/' + b'p' * n)), (R.F_INTERFACE, (b's', b'i.' + b'f' * n)), (R.F_MEMBER, (b's', b'm' * n)),
                  (R.F_DESTINATION, (b's', b'd.' + b'e' * n))]
        yield ('g', 'i', (R.MT_CALL, 0, 5, fields, [(b's', b's' * n), (b'ay', [(b'y', 1)] * n)]))


def fix_specific_order(ctor, mt):
    """libdbus's specific constructors set fields in their own order; the comparison is on decoded
    values (canon is order independent), so nothing to do."""
    return mt


def run(ctx):
    tasks = []
    batch = []
    n = 0
    for p in programs(ctx.tier):
        batch.append(p)
        n += 1
        if len(batch) >= 150:
            tasks.append(list(batch))
            batch.clear()
    if batch:
        tasks.append(list(batch))
    pool = Pool()
    done = 0
    total = 0
    try:
        for r in pool.imap(task_batch, tasks):
            done += 1
            if '__crash__' in r:
                ctx.add_violation(Violation('crash', r['__crash__'], r['stderr'], {'task': r['task']}))
                continue
            total += r['n']
            ctx.merge_hits(r['hits'])
            ctx.add_violations(r['viol'])
            for fp, c in r['counts'].items():
                ctx.viol_counts[fp] = ctx.viol_counts.get(fp, 0) + max(0, c - min(c, 3))
            if ctx.expired():
                ctx.incomplete('deadline hit after %d of %d tasks' % (done, len(tasks)))
                pool.cancel()
                break
    finally:
        pool.close()
    ctx.coverage.update({
        'evaluations': total,
        'distinct_nontrivial': ctx.clause_hits.get('byteswap', 0),
        'rule': 'construction programs = (all type trees to depth %d x values x [X],[y,X] bodies, via append_basic and append_fixed_array) + (4 message types x subsets of 8 header setters x flags x empty/non-empty body) '
                '+ specific constructors + values of length 1..17 in every string field; all programs are distinct; non-trivial = programs that completed ALL clauses '
                '(reference decode, parse-back, byte-identical re-marshal, other-byte-order conversion, copy)' % (3,),
        'tasks': len(tasks), 'tasks_done': done,
    })
    ctx.samples = ['g i T=1 F=0 S=7 path=2f61 iface=612e62 member=4d errname- dest- sender- rserial=0 sig=ya{sv} cinst- body=[y:1,a{sv}[{s:6b,v:b=b:1}]]',
                   'g f ... body=[ai[i:-2147483648,i:19088743]]  (append_fixed_array)']
    ctx.assumptions = ['pyv/refdbus.py is a faithful reading of the specification', 'native byte order of the sandbox is little-endian; the other order is exercised by parsing a reference-encoded big-endian twin']
    ctx.replay_fn = replay


def replay(case):
    out, hits = [], {}
    prog = case['program']
    ctor, arr, canon = prog.split(' ', 2)
    fops = ''
    if ' FOPS=' in canon:
        canon, fops = canon.rsplit(' FOPS=', 1)
    if ' RESET=' in canon:
        canon, rs = canon.rsplit(' RESET=', 1)
        fname, hx = rs.split(':')
        code = {'path': R.F_PATH, 'iface': R.F_INTERFACE, 'member': R.F_MEMBER, 'errname': R.F_ERROR_NAME, 'dest': R.F_DESTINATION, 'sender': R.F_SENDER, 'cinst': R.F_CONTAINER_INSTANCE}[fname]
        with Harness('vbox') as h:
            first = msg_from_canon(canon)
            oldv = dict(first.fields)[code][1]
            m = first.copy()
            m.fields = [(c, (v[0], bytes.fromhex(hx)) if c == code else v) for c, v in m.fields]
            check_program(h, m, ctor, arr, hits, out, '', None, (fname, code, oldv))
        return out
    if ' GETDEL=' in canon:
        canon, gd = canon.rsplit(' GETDEL=', 1)
        with Harness('vbox') as h:
            full = msg_from_canon(canon)
            m = msg_from_canon(case['expected'])
            check_program(h, m, ctor, arr, hits, out, '', (gd, None, full.fields))
        return out
    with Harness('vbox') as h:
        # re-run BUILD + all clauses from the canonical text
        m = msg_from_canon(canon)
        if fops:
            m.flags = case['expected_flags']
        check_program(h, m, ctor, arr, hits, out, fops)
    return out


def msg_from_canon(canon):
    """Parse refdbus.canon_msg text back into a Msg (used only by replay)."""
    head, body = canon.split(' body=[', 1)
    body = body[:-1]
    f = {}
    for tok in head.split(' '):
        if '=' in tok:
            k, v = tok.split('=', 1)
            f[k] = v
        elif tok.endswith('-'):
            f[tok[:-1]] = None
    fields = []
    names = {'path': (R.F_PATH, b'o'), 'iface': (R.F_INTERFACE, b's'), 'member': (R.F_MEMBER, b's'), 'dest': (R.F_DESTINATION, b's'),
             'errname': (R.F_ERROR_NAME, b's'), 'sender': (R.F_SENDER, b's'), 'cinst': (R.F_CONTAINER_INSTANCE, b'o')}
    for k in ('path', 'iface', 'member', 'dest', 'errname', 'sender', 'cinst'):
        if f.get(k) is not None:
            fields.append((names[k][0], (names[k][1], bytes.fromhex(f[k]))))
    if int(f.get('rserial', '0')):
        fields.append((R.F_REPLY_SERIAL, (b'u', int(f['rserial']))))
    vals, pos = _parse_values(body, 0, ']')
    return R.Msg(int(f['T']), int(f['F']), int(f['S']), fields, vals)


def _parse_values(s, i, closer):
    out = []
    while i < len(s) and s[i] != closer:
        v, i = _parse_value(s, i)
        out.append(v)
        if i < len(s) and s[i] == ',':
            i += 1
    return out, i


def _parse_value(s, i):
    c = s[i]
    if c == 'a':
        j = s.index('[', i)
        es = s[i + 1:j].encode()
        vals, k = _parse_values(s, j + 1, ']')
        return (b'a' + es, vals), k + 1
    if c in '({':
        closer = ')' if c == '(' else '}'
        vals, k = _parse_values(s, i + 1, closer)
        sig = (c.encode() + b''.join(v[0] for v in vals) + closer.encode())
        return (sig, vals), k + 1
    if c == 'v' and s[i + 1] == ':':
        j = s.index('=', i)
        inner, k = _parse_value(s, j + 1)
        return (b'v', inner), k
    j = i + 2
    k = j
    while k < len(s) and s[k] not in ',])}':
        k += 1
    txt = s[j:k]
    code = c.encode()
    if c in 'sog':
        return (code, bytes.fromhex(txt)), k
    if c == 'd':
        return (code, int(txt, 16)), k
    return (code, int(txt)), k
