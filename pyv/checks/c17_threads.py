"""C17 parts (b) and (c): real threads on a real DBusConnection.

(b) harness/vsched runs 2-3 thread bodies plus the scripted peer under a
    cooperative scheduler (hook H3).  An execution is determined by its list
    of choices; choice 0 is always "continue the running thread" (or the
    lowest enabled id).  All schedules with at most K non-default choices
    (deviations: preemptions, environment actions taken early, timers fired
    early) are enumerated level by level: the schedules with d+1 deviations
    are derived from the recorded choice points of those with d.
(c) the same bodies run free under ThreadSanitizer.
"""
import os
import re
import subprocess
from concurrent.futures import ThreadPoolExecutor

from ..engine import Violation
from ..vbox import harness_path, RUN_ROOT, VERIF

# (bodies, env): two calls whenever a body mentions call 2
CONFIGS_QUICK = [
    ('block1,block2', 'r1,r2'),
    ('block1,block2', 'r2'),
    ('block1,dispatch', 'r1'),
    ('block1,cancel1', 'r1'),
    ('block1,close', 'r1'),
    ('block1,block2', 'r1,x'),
    ('block1,dispatch', 'r1,d1'),
    # calls without a timeout: every wait must still end once its reply has arrived, whoever read it
    ('block1,block2', 'r1,r2,inf'),
    ('block1,dispatch', 'r1,inf'),
    # calls made and signals sent while the other threads run: serials are handed out, pending calls registered and
    # messages queued concurrently with blocking waits and dispatch; every serial non-zero and distinct (also across
    # the wrap of the 32-bit counter), every call completed with its own reply
    ('call3,call4', 'r3,r4'),
    ('call3,block1', 'r1,r3'),
    ('call3,send', 'r3,wrap'),
    ('call3,dispatch', 'r3'),
]
CONFIGS_THOROUGH = CONFIGS_QUICK + [
    ('block1,block2', 'r1,r2,x'),
    ('block1,block2', ''),
    ('block1,block1', 'r1'),
    ('block1,dispatch', 'x'),
    ('block1,dispatch', ''),
    ('block1,cancel1', ''),
    ('block1,cancel1', 'x'),
    ('block1,close', ''),
    ('block2,dispatch', 'r1,r2'),
    ('block1,block2,dispatch', 'r1,r2'),
    ('block1,block2,cancel1', 'r1,r2'),
    ('block1,block2,close', 'r2'),
    ('block1,block2,dispatch', 'r1,r2,inf'),
    ('block2,dispatch', 'r1,r2,inf'),
    ('block1,block2', 'r1,r2,x,inf'),
    ('call3,call4', 'r3,r4,wrap'),
    ('call3,call4', 'r3,r4,inf'),
    ('call3,block1', 'r1,r3,wrap'),
    ('call3,cancel1', 'r1,r3'),
    ('call3,close', 'r3'),
    ('call3,send', 'r3'),
    ('call3,send', 'x'),
    ('call3,call4,dispatch', 'r3,r4'),
    ('call3,block1,send', 'r1,r3,wrap'),
    ('send,send', 'wrap'),
]
ENVIDX = {1: 0, 2: 1, 3: 4, 4: 5}      # position of "the peer replied to call i" in vsched's env= string
LOCAL_ERRORS = ('org.freedesktop.DBus.Error.NoReply', 'org.freedesktop.DBus.Error.Disconnected', 'org.freedesktop.DBus.Error.Timeout')
ENV = dict(os.environ, ASAN_OPTIONS='detect_leaks=0:abort_on_error=0:exitcode=99', UBSAN_OPTIONS='halt_on_error=1:exitcode=98')


def rundir():
    d = os.path.join(RUN_ROOT, 'sched')
    os.makedirs(d, exist_ok=True)
    return d


def execute(bodies, env, sched, tree='asan', free=False, timeout=30):
    args = [harness_path('vsched', tree), rundir(), bodies, env, ','.join(map(str, sched)) if sched else '-']
    if free:
        args.append('free')
    e = dict(ENV)
    if tree == 'tsan':
        e['TSAN_OPTIONS'] = 'halt_on_error=0:exitcode=97:second_deadlock_stack=1:suppressions=' + os.path.join(VERIF, 'harness', 'tsan.supp')
    try:
        p = subprocess.run(args, stdout=subprocess.PIPE, stderr=subprocess.PIPE, timeout=timeout, env=e)
    except subprocess.TimeoutExpired as ex:
        return {'status': 'timeout', 'raw': '', 'stderr': (ex.stderr or b'').decode('latin1')[-2000:], 'points': [], 'rc': -1}
    out = p.stdout.decode('latin1').strip()
    res = {'raw': out, 'rc': p.returncode, 'stderr': p.stderr.decode('latin1')[-3000:], 'points': [], 'status': 'crash'}
    m = re.search(r'status=(\S+) steps=(\d+) env=(\d+) trace=(\S+)(.*)$', out)
    if not m:
        return res
    res['status'] = m.group(1)
    res['steps'] = int(m.group(2))
    res['envdone'] = m.group(3)
    tr = m.group(4)
    if tr != '-':
        for item in tr.strip(';').split(';'):
            n, c = item.split(':')
            res['points'].append((int(n), int(c[:-1]), c[-1]))
    res['calls'] = {}
    for cm in re.finditer(r'pc(\d)=(\d+)/(\d+)/(\d+)/(\d+)/(\d+)/(\d+)/(\S+)', m.group(5)):
        i = int(cm.group(1))
        d = {'completed': int(cm.group(2)), 'notified': int(cm.group(3)), 'block_returned': int(cm.group(4)),
             'cancelled': int(cm.group(5)), 'cancel_step': int(cm.group(6)), 'notify_step': int(cm.group(7)), 'reply': None}
        if cm.group(8) != '-':
            kv = dict(x.split('=') for x in cm.group(8).split(','))
            d['reply'] = {'type': int(kv['type']), 'rserial': int(kv['rserial']), 'own': int(kv['own']), 'err': kv['err']}
        res['calls'][i] = d
    sm = re.search(r'serials=([\d,]*)', m.group(5))
    res['serials'] = [int(x) for x in sm.group(1).split(',') if x] if sm else []
    if p.returncode != 0 and res['status'] == 'ok':
        res['status'] = 'crash'
    return res


def judge(bodies, env, sched, r, free=False):
    case = {'schedule': list(sched), 'bodies': bodies, 'env': env, 'free': free}
    vs = []

    def v(clause, reason, what):
        vs.append(Violation(clause, reason, what + '\n  output: ' + r['raw'][-600:] + ('\n  stderr: ' + r['stderr'][-1200:] if r['stderr'] else ''), case))
    if r['status'] == 'bad-schedule':
        v('DETERMINISM', 'schedule-not-replayable', 'a choice index recorded in one execution was out of range in its re-execution')
        return vs
    if r['status'] in ('deadlock', 'horizon', 'timeout'):
        v('threads-' + r['status'], bodies.replace(',', '+'), 'execution did not terminate: %s (no thread enabled / step horizon exceeded)' % r['status'])
        return vs
    if r['status'] != 'ok':
        m = re.search(r'(SUMMARY: \S+: \S+|runtime error: [^\n]*|assertion failed[^\n]*|Assertion[^\n]*)', r['stderr'])
        v('threads-crash', (m.group(1)[:80] if m else 'rc=%s' % r['rc']), 'harness died or failed (%s)' % r['status'])
        return vs
    bl = bodies.split(',')
    closing = 'close' in bl
    ser = r.get('serials', [])
    if any(x == 0 for x in ser):
        v('serial-zero', 'threads', 'a message was given serial 0 (serials handed out: %s)' % ser)
    if len(set(ser)) != len(ser):
        v('serial-reused', 'threads', 'two messages sent on the connection were given the same serial (serials handed out: %s)' % ser)
    for b in bl:
        # (on a connection that another thread has closed first, send_with_reply legitimately hands out no pending call)
        if b.startswith('call') and int(b[4]) not in r['calls'] and not closing and r['envdone'][3] != '1':      # ('x': the peer hung up)
            v('call-not-made', 'threads', 'thread body %s did not obtain a pending call' % b)
    for i, c in sorted(r['calls'].items()):
        rep = c['reply']
        own_thread = ('call%d' % i) in bl        # made by a thread: no notify function (see vsched.c), its own blocking wait must return
        replied = r['envdone'][ENVIDX[i]] == '1'
        if c['notified'] > 1:
            v('notified-twice', 'threads', 'call %d: notify function ran %d times' % (i, c['notified']))
        if c['completed'] and rep is None and not c['cancelled']:
            v('completed-without-reply', 'threads', 'call %d is completed but has no reply to steal' % i)
        if rep is not None:
            if rep['rserial'] != rep['own']:
                v('wrong-reply', 'threads', 'call %d (serial %d) completed with a message whose reply_serial is %d' % (i, rep['own'], rep['rserial']))
            if rep['type'] == 2 and not replied:
                v('reply-from-nowhere', 'threads', 'call %d completed with a method return although the peer never replied' % i)
            if rep['type'] == 3 and rep['err'] not in LOCAL_ERRORS:
                v('wrong-reply', 'threads-error-name', 'call %d completed with unexpected error %s' % (i, rep['err']))
        if c['cancelled']:
            if c['notified'] and c['notify_step'] > c['cancel_step']:
                v('cancelled-call-notified', 'block-after-cancel' if ('block%d' % i) in bl else 'other-path', 'call %d: notify function ran (step %d) after dbus_pending_call_cancel() had returned (step %d)' % (i, c['notify_step'], c['cancel_step']))
            continue
        if own_thread and not c['block_returned']:
            v('block-never-returned', 'threads', 'the thread that made call %d never came back from its blocking wait' % i)
        if c['completed'] and c['notified'] != 1 and not own_thread:
            v('not-notified', 'threads', 'call %d is completed but its notify function ran %d times' % (i, c['notified']))
        if c['block_returned'] and not c['completed']:
            v('block-returned-incomplete', 'threads', 'dbus_pending_call_block() returned for call %d but the call is not completed' % i)
        # the peer replied, nobody cancelled, the connection was not closed locally and no timer fired: must be the reply
        timer = any(k == 'f' for (_, _, k) in r['points'])
        if replied and not closing and not timer and not free:
            if not (rep and rep['type'] == 2):
                v('reply-lost', 'threads', 'the peer replied to call %d and no timeout fired, but the call did not complete with that reply' % i)
    return vs


def explore_config(ctx, ex, bodies, env, bound, stats):
    level = [[]]
    outcomes = set()
    for d in range(bound + 1):
        if not level:
            break
        nxt = []
        results = list(ex.map(lambda s: (s, execute(bodies, env, s)), level))
        for sched, r in results:
            stats['schedules'] += 1
            stats['steps'] += r.get('steps', 0)
            got = [c for (_, c, _) in r['points']][:len(sched)]
            if r['status'] in ('ok', 'deadlock', 'horizon') and got != list(sched)[:len(got)]:
                ctx.add_violation(Violation('DETERMINISM', 'prefix-diverged', 'replaying schedule prefix %s took choices %s' % (sched, got), {'schedule': sched, 'bodies': bodies, 'env': env}))
                continue
            outcomes.add(re.sub(r'^.*?trace=\S+', '', r['raw']) + r['status'])
            for vv in judge(bodies, env, sched, r):
                ctx.add_violation(vv)
            if d < bound:
                choices = [c for (_, c, _) in r['points']]
                for i in range(len(sched), len(r['points'])):
                    n = r['points'][i][0]
                    for alt in range(1, n):
                        nxt.append(choices[:i] + [alt])
            ctx.hit('threads:' + bodies.replace(',', '+'))
        stats['per_config'].setdefault('%s|%s' % (bodies, env), {})['dev%d' % d] = len(level)
        if ctx.time_left() < 30:
            ctx.incomplete('C17 threads: deadline reached in config %s|%s after completing deviation level %d of %d' % (bodies, env, d, bound))
            break
        level = nxt
    stats['per_config']['%s|%s' % (bodies, env)]['distinct_outcomes'] = len(outcomes)


def tsan_pass(ctx, ex, configs, reps, stats):
    tasks = [(b, e, k) for (b, e) in configs for k in range(reps)]
    n = 0
    for (b, e, k), r in zip(tasks, ex.map(lambda t: execute(t[0], t[1], [], tree='tsan', free=True, timeout=60), tasks)):
        n += 1
        if 'WARNING: ThreadSanitizer' in r['stderr']:      # a report; runtime-internal messages (FATAL, CHECK failed under memory pressure) are not reports
            m = re.search(r'WARNING: ThreadSanitizer: ([^\n(]*)', r['stderr'])
            fn = re.search(r'#0 (\S+) ', r['stderr'])
            ctx.add_violation(Violation('tsan', (m.group(1).strip() if m else 'report') + '/' + (fn.group(1) if fn else '?'),
                                        'ThreadSanitizer report in free-running bodies %s env %s:\n%s' % (b, e, r['stderr'][:2500]),
                                        {'schedule': [], 'bodies': b, 'env': e, 'free': True, 'tsan': True}))
        elif 'ThreadSanitizer' in r['stderr']:
            stats['tsan_runtime_failures'] = stats.get('tsan_runtime_failures', 0) + 1     # the sanitizer runtime itself failed (e.g. out of memory): no verdict
        else:
            for vv in judge(b, e, [], r, free=True):
                ctx.add_violation(vv)
    stats['tsan_free_runs'] = n


def run(ctx):
    quick = ctx.tier == 'quick'
    stats = {'schedules': 0, 'steps': 0, 'per_config': {}}
    plan = [(c, 2) for c in CONFIGS_QUICK] if quick else [(c, 2) for c in CONFIGS_THOROUGH]
    with ThreadPoolExecutor(max_workers=16) as ex:
        # determinism gate: the same schedule twice gives the same observation
        for (b, e) in CONFIGS_QUICK[:3]:
            a1, a2 = execute(b, e, [1, 0, 2]), execute(b, e, [1, 0, 2])
            if a1['raw'] != a2['raw']:
                ctx.add_violation(Violation('DETERMINISM', 'same-schedule-different-output', '%s | %s' % (a1['raw'], a2['raw']), {'schedule': [1, 0, 2], 'bodies': b, 'env': e}))
        for (b, e), bound in plan:
            if ctx.time_left() < 40:
                ctx.incomplete('C17 threads: deadline before config %s|%s' % (b, e))
                break
            explore_config(ctx, ex, b, e, bound, stats)
        if not quick:
            for (b, e) in (('block1,cancel1', 'r1'), ('block1,close', 'r1'), ('block1,dispatch', 'r1'), ('block1,block2', 'r1,r2')):
                if ctx.time_left() > 500:
                    stats['per_config'].pop('%s|%s' % (b, e), None)
                    explore_config(ctx, ex, b, e, 3, stats)
        tsan_pass(ctx, ex, CONFIGS_QUICK if quick else CONFIGS_THOROUGH, 4 if quick else 20, stats)
    stats['bound'] = 'deviation bound per config: see per_config (devK = schedules with exactly K non-default choices)'
    return stats


def replay(case):
    tree = 'tsan' if case.get('tsan') else 'asan'
    if case.get('tsan'):
        out = []
        for _ in range(20):
            r = execute(case['bodies'], case['env'], [], tree='tsan', free=True, timeout=60)
            if 'WARNING: ThreadSanitizer' in r['stderr']:
                m = re.search(r'WARNING: ThreadSanitizer: ([^\n(]*)', r['stderr'])
                fn = re.search(r'#0 (\S+) ', r['stderr'])
                out.append(Violation('tsan', (m.group(1).strip() if m else 'report') + '/' + (fn.group(1) if fn else '?'), r['stderr'][:2500], case))
                break
        return out
    r1 = execute(case['bodies'], case['env'], case['schedule'], tree=tree, free=case.get('free', False))
    r2 = execute(case['bodies'], case['env'], case['schedule'], tree=tree, free=case.get('free', False))
    if not case.get('free') and r1['raw'] != r2['raw']:
        return [Violation('DETERMINISM', 'same-schedule-different-output', '%s | %s' % (r1['raw'], r2['raw']), case)]
    return judge(case['bodies'], case['env'], case['schedule'], r1, free=case.get('free', False))
