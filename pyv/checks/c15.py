"""C15 — passed file descriptors arrive intact and are never leaked.

BFS over histories of fd-carrying messages on an in-process bus with small
fd limits: announced count a and attached count b from {0..3} (equal, fewer,
more, beyond the per-message maximum), descriptors attached to the first
write or to a later write of a split message, sent to a negotiated peer, a
peer without fd negotiation, an unowned name, a name denied by a max_fds
policy rule, the bus itself; disconnects of either side; pending-fd timeout.
Oracle: descriptor identity (device, inode, seek offset) and order at the
recipient; and at EVERY quiescent state the process's descriptor count equals
the baseline plus what live connections may still have pending."""
import re

from .. import refdbus as R
from .. import busbox as B
from .. import explore
from ..engine import Violation, Pool, crash_violation, worker_bus
from ..vbox import HarnessDied
from ..session import BusSession
from ..registry import claim

claim('C15', 'model_checking',
      'explicit-state BFS over fd-passing histories on the real bus with a descriptor-identity oracle and a process-wide descriptor-count invariant checked in every state',
      'Histories of method calls carrying descriptors (announced x attached in {0..3}^2, attached with the first or a later write) from a negotiated sender to a negotiated peer / non-negotiated peer / unowned name / policy-denied name / the driver, '
      'plus disconnects and pending_fd_timeout expiry, are explored breadth-first with max_message_unix_fds=2. Received descriptors must be the same open files (st_dev, st_ino, offset) in order and in the announced number, only on negotiated '
      'connections; no over-limit or mismatched message may be delivered; the /proc/self/fd count of the bus process must return to baseline (+ sockets of live clients + surplus descriptors a live connection may still hold) in every quiescent state. A monitor and an eavesdropper that did not negotiate descriptor passing observe every history: nothing they receive may announce descriptors. A sender that never negotiated descriptor passing attaches descriptors anyway; a client attaches a surplus descriptor to its Hello (subject to the pending-descriptor timeout).',
      'Whether an over-limit sender is answered with an error or disconnected is observed, not judged. The kernel delivers SCM_RIGHTS as the sandbox kernel does. More than 3 descriptors per message and histories beyond the depth bound are not covered.',
      'DESIGN.md section 4 C15')

FACTORY = 'pyv.checks.c15:Session'
POLICY = """
  <policy context="default">
    <allow send_destination="*" eavesdrop="true"/>
    <allow eavesdrop="true"/>
    <allow own="*"/>
    <allow user="*"/>
    <deny send_destination="com.example.NoFds" min_fds="1"/>
  </policy>
"""
LIMITS = {'max_message_unix_fds': 2, 'pending_fd_timeout': 5000}
G_NAME = b'com.example.G'
NOFDS = b'com.example.NoFds'


class Session(BusSession):
    COUNTER_ATTRS = ('tok',)

    def __init__(self, params):
        BusSession.__init__(self, params)
        r = self.bus.h.cmd('MKFD 4')
        self.fdid = r.split()[1:]            # identity of harness descriptor k
        self.connect_slot('F')
        self.connect_slot('G')
        self.connect_slot('P', nofd=True)
        self.connect_slot('N')
        self.method('G', 'RequestName', [R.S(G_NAME), R.U(0)])
        self.method('N', 'RequestName', [R.S(NOFDS), R.U(0)])
        # two observers that did NOT negotiate descriptor passing: a monitor and an eavesdropper.  Whatever reaches them
        # must not announce descriptors ("only on connections where descriptor passing was negotiated")
        self.connect_slot('Q', nofd=True)
        self.method('Q', 'BecomeMonitor', [R.A('s', []), R.U(0)], iface=b'org.freedesktop.DBus.Monitoring')
        self.connect_slot('E', nofd=True)
        self.method('E', 'AddMatch', [R.S(b"eavesdrop='true',type='method_call'")])
        # a SENDER that never negotiated descriptor passing but attaches descriptors anyway
        self.connect_slot('X', nofd=True)
        for l in ('F', 'G', 'P', 'N', 'Q', 'E', 'X'):
            self.take(l)
        self.opened = 0                   # connections made after the baseline was taken (two descriptors each: both ends live in this process)
        self.h_state = 'closed'           # H: a client that attaches a surplus descriptor to its very first message (Hello)
        self.baseline = self.bus.fdcount()
        self.closed_by_harness = 0
        self.closed_by_bus = 0
        self.tok = 0
        self.surplus = {'F': 0}              # descriptors the bus may still hold for a live connection
        self.dirty = False
        self.fdq = []                        # identities of descriptors F has sent that no message has consumed yet (FIFO)
        self.surplus_age = 0

    def config(self):
        return B.make_config(policy=POLICY, limits=LIMITS)

    def ops(self):
        ops = []
        if self.is_open('F'):
            for target in ('G', 'P', 'unowned', 'nofds', 'bus'):
                for a in (0, 1, 2, 3):
                    for b in (0, 1, 2, 3):
                        if self.params.get('small') and (a, b) not in ((0, 0), (1, 1), (2, 2), (3, 3), (1, 0), (0, 1), (2, 1), (1, 2)):
                            continue
                        if target in ('unowned', 'bus') and a != b:
                            continue
                        ops.append(['send', target, a, b, 'first'])
                        if b > 0 and target == 'G':
                            ops.append(['send', target, a, b, 'split'])
            ops.append(['disc', 'F'])
        if self.is_open('G'):
            ops.append(['disc', 'G'])
        if self.is_open('X'):
            for a, b in ((0, 1), (1, 1), (1, 0)):
                ops.append(['sendx', a, b])
        if self.h_state == 'closed':
            ops.append(['connh'])
        elif self.is_open('H'):
            ops.append(['disc', 'H'])
        if any(self.surplus.values()):
            ops.append(['advance', 6000])
        return ops

    def expected_fds(self):
        """Descriptor count the process should have now."""
        return self.baseline + 2 * self.opened - 2 * self.closed_by_harness - self.closed_by_bus + sum(v for l, v in self.surplus.items() if self.is_open(l))

    def apply(self, op):
        out = []
        kind = op[0]
        desc = repr(op)
        if kind == 'send':
            _, target, a, b, mode = op
            self.tok += 1
            tok = b'T%d' % self.tok
            dest = {'G': G_NAME, 'P': self.uname['P'], 'unowned': b'com.example.Nobody', 'nofds': NOFDS, 'bus': R.BUS}[target]
            c = self.slots['F']
            s = self.bus.next_serial(c)
            fields = [(R.F_PATH, (b'o', b'/f')), (R.F_INTERFACE, (b's', b'f.i')), (R.F_MEMBER, (b's', b'Take')), (R.F_DESTINATION, (b's', dest))]
            if a:
                fields.append((R.F_UNIX_FDS, (b'u', a)))
            body = [R.S(tok)] + [R.H(i) for i in range(a)]
            m = R.Msg(R.MT_CALL, 0, s, fields, body)
            data = R.encode_message(m)
            fds = list(range(b))
            was_open_g = self.is_open('G')
            if mode == 'first' or not fds:
                self.send_raw('F', data, fds or None)
            else:
                # descriptors travel with a later byte of the message
                cut = len(data) // 2
                self.bus.send(c, data[:cut])
                self.bus.pump()
                self.send_raw('F', data[cut:], fds)
            self.hit('send-%s' % target)
            # expectation.  A "clean" send (nothing left over from earlier messages, attached == announced) is judged strictly.
            # Once surplus descriptors are in play the specification only says they stay with that connection within its
            # limit/timeout and are closed exactly once: delivery becomes optional, but whatever is delivered must carry the
            # oldest unclaimed descriptors of that sender (FIFO), and the descriptor-count invariant still holds.
            clean = (not self.fdq and not self.dirty and a == b)
            self.fdq += list(fds)
            overflow = len(self.fdq) > LIMITS['max_message_unix_fds']
            valid = (not overflow and a <= LIMITS['max_message_unix_fds'] and len(self.fdq) >= a)
            want_ids = [self.fdid[i] for i in self.fdq[:a]] if len(self.fdq) >= a else None
            candidate = None
            if target == 'G' and was_open_g:
                candidate = 'G'
            elif target == 'nofds' and a == 0:
                candidate = 'N'
            elif target == 'P' and a == 0:
                candidate = 'P'
            deliver_to = candidate if valid else None
            delivered = {}
            for l in ('G', 'P', 'N'):
                box = self.inbox.get(l, [])
                delivered[l] = [o for o in box if o.body and o.body[0][1] == tok]
            got = self.last_fds
            actually = [l for l in ('G', 'P', 'N') if delivered[l]]
            for l in ('G', 'P', 'N'):
                n = len(delivered[l])
                want_n = 1 if deliver_to == l else 0
                if n == want_n:
                    continue
                if not clean and l == candidate and n <= 1 and a <= LIMITS['max_message_unix_fds']:
                    continue            # surplus descriptors in play: delivery optional (see above)
                clause = 'fd-message-delivered' if n > want_n else 'fd-message-not-delivered'
                why = 'over-limit' if a > 2 else ('fewer-than-announced' if not valid else ('not-negotiated' if l == 'P' and a else ('policy' if target == 'nofds' else 'valid')))
                out.append(Violation(clause, why, '%s: %s received %d copies (announced %d, attached %d, unclaimed %r), expected %d' % (desc, l, n, a, b, self.fdq, want_n), None))
            if actually and not out:
                l = actually[0]
                ids = got.get(l, [])
                if self.dirty:
                    pass
                elif want_ids is None or ids != want_ids:
                    out.append(Violation('fd-identity', 'recipient', '%s: %s received descriptors %r, expected %r' % (desc, l, ids, want_ids), None))
                else:
                    self.hit('fds-delivered-%d' % a)
                    self.fdq = self.fdq[a:]
                deliver_to = l
            elif not actually and not clean:
                self.dirty = True       # cannot tell which descriptors the bus still holds for F
            elif not actually and clean and valid:
                self.fdq = self.fdq[a:]  # consumed by a message that went nowhere (error reply) -- the bus closed them
            for l in ('P', 'Q', 'E'):
                for o in self.inbox.get(l, []):
                    if o.msg.unix_fds:
                        out.append(Violation('fd-message-delivered', 'not-negotiated-observer' if l != 'P' else 'not-negotiated', '%s: %s, which did not negotiate descriptor passing, received a message announcing %d descriptors: %r' % (desc, l, o.msg.unix_fds, o), None))
                if l != 'P' and a == 0 and target != 'bus' and (l == 'Q' or candidate is not None):
                    self.hit('observer-copy-%s' % l, sum(1 for o in self.inbox.get(l, []) if o.body and o.body[0][1] == tok))
            for l in ('G', 'P', 'F', 'N', 'Q', 'E'):
                if l != deliver_to and got.get(l):
                    out.append(Violation('fd-delivered-to-wrong-connection', l, '%s: %s received descriptors %r' % (desc, l, got.get(l)), None))
            # sender's fate and surplus bookkeeping
            if self.eof.get('F'):
                self.hit('sender-disconnected')
                self.slots['F'] = None
                self.closed_by_bus += 1
                self.surplus['F'] = 0
                self.fdq = []
                self.dirty = False
            else:
                if deliver_to is None and valid and clean and target != 'bus':
                    errs = [o for o in self.inbox.get('F', []) if o.kind == R.MT_ERROR and o.rserial == s]
                    if len(errs) != 1:
                        out.append(Violation('undeliverable-fd-call-error', target, '%s: undeliverable call produced %d errors at its sender' % (desc, len(errs)), None))
                mo = re.search(r'conn @F [^|]*pending_fds=(\d+)', self.impl_key())
                self.surplus['F'] = int(mo.group(1)) if mo else 0       # the bus's own count; the process-wide invariant below checks it
                if self.surplus['F'] > LIMITS['max_message_unix_fds']:
                    # descriptors no message has claimed are held "within its per-connection limit": the loader's array has
                    # room for max_message_unix_fds; a connection that accumulates more must be dropped, not served
                    out.append(Violation('surplus-over-limit', 'pending-fds', '%s: the bus holds %d unclaimed descriptors for a live connection (limit %d)' % (desc, self.surplus['F'], LIMITS['max_message_unix_fds']), None))
                if self.surplus['F'] == 0:
                    self.fdq = []
                    self.dirty = False
                elif not self.dirty and self.surplus['F'] != len(self.fdq):
                    self.dirty = True
            for l in list(self.inbox):
                self.take(l)
        elif kind == 'sendx':
            _, a, b = op
            self.tok += 1
            tok = b'T%d' % self.tok
            c = self.slots['X']
            s = self.bus.next_serial(c)
            fields = [(R.F_PATH, (b'o', b'/f')), (R.F_INTERFACE, (b's', b'f.i')), (R.F_MEMBER, (b's', b'Take')), (R.F_DESTINATION, (b's', G_NAME))]
            if a:
                fields.append((R.F_UNIX_FDS, (b'u', a)))
            m = R.Msg(R.MT_CALL, 0, s, fields, [R.S(tok)] + [R.H(i) for i in range(a)])
            was_open_g = self.is_open('G')
            self.send_raw('X', R.encode_message(m), list(range(b)) or None)
            self.hit('send-from-unnegotiated-%d-%d' % (a, b))
            got = self.last_fds
            for l in ('G', 'P', 'N', 'Q', 'E', 'F', 'X'):
                if got.get(l):
                    out.append(Violation('fd-delivered-to-wrong-connection', 'from-unnegotiated-sender', '%s: %s received descriptors %r attached by a sender that never negotiated descriptor passing' % (desc, l, got.get(l)), None))
            copies = [o for o in self.inbox.get('G', []) if o.body and o.body[0][1] == tok]
            if a:
                # announces descriptors on a connection that cannot carry any: not a valid message there
                if copies:
                    out.append(Violation('fd-message-delivered', 'not-negotiated-sender', '%s: a message announcing %d descriptors from a connection without descriptor passing was delivered' % (desc, a), None))
                if not self.eof.get('X'):
                    out.append(Violation('fd-message-delivered', 'not-negotiated-sender-kept', '%s: the sender was not disconnected' % desc, None))
                    self.close_slot('X')
                    self.closed_by_harness += 1
                else:
                    self.slots['X'] = None
                    self.closed_by_bus += 1
            else:
                if was_open_g and len(copies) != 1:
                    out.append(Violation('fd-message-not-delivered', 'stray-descriptors', '%s: an ordinary message with stray descriptors attached arrived %d times' % (desc, len(copies)), None))
                if self.eof.get('X'):
                    self.slots['X'] = None
                    self.closed_by_bus += 1
            for l in list(self.inbox):
                self.take(l)
        elif kind == 'connh':
            self.connect_slot('H', hello=False)
            self.opened += 1
            c = self.slots['H']
            s = self.bus.next_serial(c)
            self.send_raw('H', R.encode_message(R.bus_call(s, 'Hello')), [0])
            self.h_state = 'open'
            self.hit('surplus-descriptor-with-hello')
            if self.eof.get('H'):
                self.slots['H'] = None
                self.closed_by_bus += 1
            else:
                rep = [o for o in self.inbox.get('H', []) if o.kind == R.MT_RETURN and o.rserial == s]
                if rep:
                    self.uname['H'] = rep[0].args()[0]
                    self.label_of[self.uname['H']] = 'H'
                    self.bus.names[c] = self.uname['H']
                self.surplus['H'] = 1
            for l in list(self.inbox):
                self.take(l)
        elif kind == 'disc':
            l = op[1]
            self.close_slot(l)
            self.closed_by_harness += 1
            if l in self.surplus:
                self.surplus[l] = 0
                if l == 'F':
                    self.fdq = []
        elif kind == 'advance':
            self.advance(op[1])
            for who in ('F', 'H'):
                if self.surplus.get(who) and self.is_open(who):
                    # a connection still holding surplus descriptors past the timeout is dropped
                    if not self.eof.get(who):
                        out.append(Violation('pending-fd-timeout', 'not-dropped' if who == 'F' else 'not-dropped-surplus-before-hello', '%s: connection %s holding %d surplus descriptors survived pending_fd_timeout' % (desc, who, self.surplus[who]), None))
                        self.close_slot(who)
                        self.closed_by_harness += 1
                    else:
                        self.slots[who] = None
                        self.closed_by_bus += 1
                    self.surplus[who] = 0
                    if who == 'F':
                        self.fdq = []
                    self.hit('pending-fd-timeout')
            for l in list(self.inbox):
                self.take(l)
        if not out:
            have = self.bus.fdcount()
            want = self.expected_fds()
            if have != want:
                clause = 'fd-leak' if have > want else 'fd-closed-too-many'
                out.append(Violation(clause, kind if kind != 'send' else 'send-%s-%s' % (op[1], 'eq' if op[2] == op[3] else ('more' if op[3] > op[2] else 'fewer')),
                                     '%s: the bus process has %d descriptors open, expected %d (baseline %d, closed by harness %d, closed by bus %d, surplus %r)' % (desc, have, want, self.baseline, self.closed_by_harness, self.closed_by_bus, self.surplus), None))
        return out

    # capture descriptor identities from the low-level parse
    last_fds = {}

    def _distribute(self, out):
        self.last_fds = {}
        for c, rv in out.items():
            lab = [l for l, ci in self.slots.items() if ci == c]
            if lab and rv.fds:
                self.last_fds.setdefault(lab[0], []).extend(rv.fds)
        BusSession._distribute(self, out)

    def key(self):
        return re.sub(r'serial=\d+', 'serial=*', self.impl_key()) + '#' + repr((self.opened, self.closed_by_harness, self.closed_by_bus, sorted(self.surplus.items()), self.fdq, sorted(l for l in ('F', 'G', 'P', 'X', 'H') if self.is_open(l)), self.h_state))


def backpressure_scenarios(tier):
    for hdr in (100, 40000, 150000):
        for nf in (1, 2):
            for k in ((2, 3) if tier == 'quick' else (2, 3, 5, 8)):
                for stalled in (0, 1):
                    yield {'backpressure': [hdr, nf, k, stalled]}


def pipelined_scenarios(tier):
    """M1 (carrying a descriptor) arrives in two writes, M2 (carrying another) is already queued behind it: the read that
    completes M1 must stop at its end, or the kernel drops M2's descriptors."""
    for pad in range(0, 8):                        # every length residue mod 8 of M1
        for big in (0, 3000):                      # M1 shorter / longer than one 2048-byte read
            for cut in ('early', 'late', 'mid'):
                yield {'pipelined': [pad, big, cut]}
    # the first piece ends inside, at the end of, or just behind the 16-byte fixed header, and the bus reads it BEFORE the
    # rest is written (first piece alone in the socket), or finds everything at once
    for pad in (0, 3):
        for big in (0, 3000):
            for cut in (1, 4, 8, 12, 15, 16, 17, 24):
                for between in (1, 0):
                    yield {'pipelined': [pad, big, cut, between]}
    # M1 carries NO descriptor and is cut; the rest of it and the descriptor-carrying M2 are in the socket together when
    # the bus reads next (the read that completes M1 must not swallow M2's first byte without its descriptors)
    for pad in (0, 5):
        for big in (0, 3000):
            for cut in (1, 16, 17, 'mid', 'late'):
                yield {'pipelined': [pad, big, cut, 1, 'plain-first']}


def task_pipelined(scns):
    out = []
    n = 0
    for scn in scns:
        pad, big, cut = scn['pipelined'][:3]
        between = scn['pipelined'][3] if len(scn['pipelined']) > 3 else 0
        plain_first = len(scn['pipelined']) > 4
        try:
            s_ = Session({'small': True})
            c, cg = s_.slots['F'], s_.slots['G']

            def mk(tok, body_extra, with_fd=True):
                ser = s_.bus.next_serial(c)
                fields = [(R.F_PATH, (b'o', b'/f')), (R.F_INTERFACE, (b's', b'f.i')), (R.F_MEMBER, (b's', b'Take')), (R.F_DESTINATION, (b's', G_NAME))]
                if with_fd:
                    fields.append((R.F_UNIX_FDS, (b'u', 1)))
                return R.encode_message(R.Msg(R.MT_CALL, 1, ser, fields, [R.S(tok + 'x' * body_extra)] + ([R.H(0)] if with_fd else [])))
            m1 = mk('P1', pad + big, with_fd=not plain_first)
            m2 = mk('P2', 3)
            k = {'early': 20, 'late': len(m1) - 5, 'mid': len(m1) // 2}[cut] if isinstance(cut, str) else cut
            s_.bus.h.cmd('SEND %d %s%s' % (c, m1[:k].hex(), '' if plain_first else ' 0'))
            if between:
                s_.bus.pump()
            s_.bus.h.cmd('SEND %d %s' % (c, m1[k:].hex()))
            s_.bus.h.cmd('SEND %d %s 1' % (c, m2.hex()))
            got_fds, toks = [], []
            for _ in range(30):
                s_.bus.pump()
                o = s_.bus.recvall()
                if not o:
                    break
                for cc, rv in o.items():
                    if cc == cg:
                        got_fds += rv.fds
                        toks += [m_.body[0][1][:2] for m_, _ in rv.msgs if m_.member == b'Take']
            n += 1
            want = [s_.fdid[0], s_.fdid[1]] if not plain_first else [s_.fdid[1]]
            if toks != [b'P1', b'P2'] or got_fds != want:
                out.append(Violation('fd-identity' if toks == [b'P1', b'P2'] else 'fd-message-not-delivered', 'pipelined',
                                     'M1 (%d bytes, split %s) and M2 written back to back, one descriptor each: the recipient got messages %r with descriptors %r, expected both with %r; sender disconnected: %s' %
                                     (len(m1), cut, toks, got_fds, want, s_.eof.get('F')), scn))
            s_.close()
        except HarnessDied as e:
            out.append(crash_violation(e, scn))
            worker_bus().h.close()
    return {'viol': [v.to_json() for v in out[:4]], 'n': n}


def task_backpressure(scns):
    """F sends k descriptor-carrying messages with a header of the given size to G, which either reads normally or
    does not read until all are written (so that the bus's writes to G are cut short, possibly inside a header)."""
    out = []
    n = 0
    for scn in scns:
        hdr, nf, k, stalled = scn['backpressure']
        try:
            s_ = Session({'small': True})
            cg = s_.slots['G']
            if stalled:
                s_.bus.h.cmd('NODRAIN %d 1' % cg)
            want = []
            c = s_.slots['F']
            for i in range(k):
                ser = s_.bus.next_serial(c)
                fds = [(i + j) % 4 for j in range(nf)]
                fields = [(R.F_PATH, (b'o', b'/' + b'p' * hdr)), (R.F_INTERFACE, (b's', b'f.i')), (R.F_MEMBER, (b's', b'Take')), (R.F_DESTINATION, (b's', G_NAME)),
                          (R.F_UNIX_FDS, (b'u', nf))]
                m = R.Msg(R.MT_CALL, 1, ser, fields, [R.S('B%d' % i)] + [R.H(j) for j in range(nf)])
                s_.bus.h.cmd('SEND %d %s %s' % (c, R.encode_message(m).hex(), ','.join(map(str, fds))))
                s_.bus.pump()
                want += [s_.fdid[x] for x in fds]
            got_fds, got_msgs = [], 0
            if stalled:
                s_.bus.h.cmd('NODRAIN %d 0' % cg)
            for _ in range(200):
                s_.bus.pump()
                o = s_.bus.recvall()
                if not o:
                    break
                for cc, rv in o.items():
                    if cc == cg:
                        got_fds += rv.fds
                        got_msgs += sum(1 for m_, _ in rv.msgs if m_.member == b'Take')
            n += 1
            if got_msgs != k or got_fds != want:
                clause = 'fd-identity' if got_msgs == k else 'fd-message-not-delivered'
                out.append(Violation(clause, 'backpressure', '%d messages with %d descriptors each and a %d-byte path to a %s recipient: it received %d messages and descriptors %r, expected %r' %
                                     (k, nf, hdr, 'stalled' if stalled else 'reading', got_msgs, got_fds, want), scn))
            else:
                have, base = s_.bus.fdcount(), s_.baseline
                if have != base:
                    out.append(Violation('fd-leak', 'backpressure', 'after delivering everything the bus process has %d descriptors open, baseline %d' % (have, base), scn))
            s_.close()
        except HarnessDied as e:
            out.append(crash_violation(e, scn))
            worker_bus().h.close()
    return {'viol': [v.to_json() for v in out[:4]], 'n': n}


def run(ctx):
    quick = ctx.tier == 'quick'
    depth = 4 if quick else 5
    st = explore.bfs(ctx, FACTORY, {'small': quick}, max_depth=depth, ops_chunk=10)
    scns = list(backpressure_scenarios(ctx.tier))
    pool = Pool()
    nbp = 0
    try:
        for r in pool.imap(task_backpressure, [scns[i:i + 2] for i in range(0, len(scns), 2)]):
            if '__crash__' in r:
                ctx.add_violation(Violation('crash', r['__crash__'], r['stderr'], {'task': r['task']}))
                continue
            ctx.add_violations(r['viol'])
            nbp += r['n']
    finally:
        pool.close()
    ctx.hit('backpressure-scenarios', nbp)
    pscn = list(pipelined_scenarios(ctx.tier))
    pool = Pool()
    npl = 0
    try:
        for r in pool.imap(task_pipelined, [pscn[i:i + 3] for i in range(0, len(pscn), 3)]):
            if '__crash__' in r:
                ctx.add_violation(Violation('crash', r['__crash__'], r['stderr'], {'task': r['task']}))
                continue
            ctx.add_violations(r['viol'])
            npl += r['n']
    finally:
        pool.close()
    ctx.hit('pipelined-fd-scenarios', npl)
    ctx.coverage.update({
        'states': st['states'], 'transitions': st['transitions'], 'traces_validated_against_impl': st['transitions'],
        'completed_depth': st['completed_depth'], 'fixpoint': st['fixpoint'], 'backpressure_scenarios': nbp, 'pipelined_fd_scenarios': npl,
        'bound': 'backpressure: 2, 3 (thorough also 5, 8) descriptor-carrying messages x path length {100, 40000, 150000} x {1,2} descriptors x recipient {reading, stalled until all are written}; sender F, negotiated peer G, non-negotiated peer P; announced x attached in {0..3}^2%s, 5 targets, first-write/split attachment, disconnects, pending_fd_timeout; max_message_unix_fds=2; BFS depth %d' %
                 (' (8 combinations)' if quick else '', depth),
    })
    ctx.assumptions = ['/proc/self/fd of the harness process counts the in-process bus\'s descriptors; the harness closes every descriptor it receives at once']
    ctx.replay_fn = replay


def replay(case):
    if 'pipelined' in case:
        r = task_pipelined([case])
        return [Violation.from_json(v) for v in r['viol']]
    if 'backpressure' in case:
        r = task_backpressure([case])
        return [Violation.from_json(v) for v in r['viol']]
    return explore.replay_history(FACTORY, case['params'], case['history'])
