"""Importing this package registers every built check in registry.CHECKS."""
import importlib, os, pkgutil
for m in pkgutil.iter_modules([os.path.dirname(__file__)]):
    if m.name.startswith('c') and m.name[1:].isdigit():
        importlib.import_module(__name__ + '.' + m.name)
from . import _round6  # noqa
