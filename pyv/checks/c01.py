"""C01 — untrusted bytes become a message only if spec-valid, and always safely.

Exhaustive sub-spaces (both byte orders): every valid body/header shape of the
generators in pyv/gen.py; EVERY single-site corruption (byte replacement at
every offset, every length word to limit values, every truncation, trailing
bytes, field deletion/duplication/rotation) of a core subset; generated limit
boundary messages (2^26 / 2^27 / 255 / 32 / 64); and all byte strings over a
small alphabet in the non-fixed positions of a minimal header.
Oracle: pyv/refdbus.py (independent decoder)."""
import itertools
import struct

from .. import gen
from .. import refdbus as R
from ..engine import Pool, Violation, worker_harness, crash_violation
from ..vbox import HarnessDied, Harness, parse_kv
from ..registry import claim

claim('C01', 'exploration',
      'exhaustive enumeration of message shapes, of every single-site corruption of them and of limit boundaries, each judged by an independent reference decoder',
      'For every generated input (valid shapes of every type tree to a depth bound x header shapes, every single-site corruption of a core subset, limit boundaries, '
      'all short unstructured tails) dbus_message_demarshal, dbus_message_demarshal_bytes_needed and a DBusMessageLoader must accept exactly when the independent '
      'decoder accepts, the values read back through the accessor/iterator API (element-wise and by block reads from the first and from later positions) must equal the reference decoding, and the process must stay ASan/UBSan/assert clean and terminate. The maximum message length is exercised with a loader whose limit is set a few bytes around each message\'s total length.',
      'Trusts pyv/refdbus.py as the reading of the specification (self-checked in setup). Inputs outside the enumerated shapes/corruption classes are not covered. '
      'Inputs where the specification admits two readings are counted as unspecified and not judged.',
      'DESIGN.md section 4 C01')

HMASK = True


def canon_ref(m):
    return R.canon_msg(m).replace('h:0', 'h:?')


def _mask_h(s):
    import re
    return re.sub(r'h:\d+', 'h:?', s)


def judge_one(desc, data, h, hits, out):
    case = {'desc': desc, 'bytes': data.hex()}
    ref = R.judged_decode(data, 0, exact=True)
    msgs, status = ([], None)
    try:
        r = h.cmd('DEMARSHAL ' + (data.hex() or '-'), timeout=30)
    except HarnessDied as e:
        clause = 'hang' if e.why == 'timeout' else 'crash'
        out.append(crash_violation(e, case, clause))
        return
    canon = None
    if ' canon=' in r:
        r, canon = r.split(' canon=', 1)
    elif ' ldcanon=' in r:
        r, _ = r.split(' ldcanon=', 1)
    kv = parse_kv(r)
    dm = kv['dm'] == '1'
    ldn, ldc, ldr = (int(x) for x in kv['ld'].split(':'))
    needed = int(kv['needed'])
    hits[ref[0]] = hits.get(ref[0], 0) + 1
    if ref[0] == 'gray':
        return
    if ref[0] == 'ok':
        hits['reason:ok'] = hits.get('reason:ok', 0) + 1
        if not dm or ldn != 1 or ldc:
            out.append(Violation('rejected-but-valid', 'parse', 'valid message rejected (dm=%s loader=%s err=%s) %s' % (dm, kv['ld'], kv.get('dmerr'), desc), case))
            return
        want = _mask_h(R.canon_msg(ref[1]))
        if canon != want:
            out.append(Violation('readback-differs', 'accessors', 'API read-back differs from the reference decoding\n impl: %s\n ref : %s' % (canon, want), case))
        if kv.get('fixedmismatch', '0') != '0':
            out.append(Violation('readback-differs', 'fixed-array', 'get_fixed_array/get_element_count disagree with element-wise iteration (%s)' % desc, case))
        if kv.get('getargsmismatch', '0') != '0':
            out.append(Violation('readback-differs', 'get_args', 'dbus_message_get_args() returns other values than the iterator walk of the same message (%s)' % desc, case))
        if kv.get('ldsame') == '0':
            out.append(Violation('readback-differs', 'loader-vs-demarshal', 'loader and demarshal yield different messages', case))
        if kv.get('re0') != data.hex():
            out.append(Violation('remarshal-differs', 'marshal', 're-marshalling an accepted message does not give back its bytes', case))
        if needed != len(data):
            out.append(Violation('bytes-needed', 'valid', 'demarshal_bytes_needed=%d for a valid %d-byte message' % (needed, len(data)), case))
        return
    if ref[0] == 'incomplete':
        # a strict prefix of a possibly-valid message: nothing may be produced, nothing declared corrupt
        # unless the 16-byte fixed header already rules it out (that is ref invalid, not incomplete)
        if dm or ldn != 0:
            out.append(Violation('accepted-but-invalid', 'incomplete', 'a truncated message produced a message (%s)' % desc, case))
        elif ldc:
            out.append(Violation('rejected-but-valid', 'incomplete-declared-corrupt', 'a strict prefix of a message was declared corrupt (reason %d) %s' % (ldr, desc), case))
        if len(data) >= 16:
            try:
                want = R.bytes_needed(data)
                if needed != want:
                    out.append(Violation('bytes-needed', 'prefix', 'demarshal_bytes_needed=%d, claimed length is %d' % (needed, want), case))
            except R.Invalid:
                pass
        elif needed != 0:
            out.append(Violation('bytes-needed', 'short', 'demarshal_bytes_needed=%d for %d bytes' % (needed, len(data)), case))
        return
    # invalid
    reason = ref[1]
    hits['reason:' + reason] = hits.get('reason:' + reason, 0) + 1
    if reason == 'trailing-bytes':
        # message + more bytes: stream semantics decide (first message delivered, remainder kept)
        sm, st = R.split_stream(data, 0)
        want_corrupt = isinstance(st, tuple)
        if ldn != len(sm) or bool(ldc) != want_corrupt:
            out.append(Violation('stream-split', 'trailing', 'loader produced %d messages corrupt=%d; reference: %d messages, %s (%s)' % (ldn, ldc, len(sm), st, desc), case))
        return
    if dm or ldn != 0:
        out.append(Violation('accepted-but-invalid', reason, 'invalid message accepted (reference: %s) %s' % (reason, desc), case))
        return
    if reason in ('header.fields-array-too-long', 'message.too-long'):
        # decided from the 16-byte fixed header alone.  If fewer bytes than the claimed length are
        # present a receiver may equally well keep waiting: the property does not demand EARLY detection.
        try:
            e = '<' if data[0] == ord('l') else '>'
            body_len, _, flen = struct.unpack(e + 'III', data[4:16])
            if len(data) < (16 + flen + 7) // 8 * 8 + body_len:
                hits['early-detection-not-required'] = hits.get('early-detection-not-required', 0) + 1
                return
        except Exception:
            pass
    if not ldc:
        out.append(Violation('accepted-but-invalid', 'not-declared-corrupt:' + reason, 'loader neither produced a message nor declared corruption for a complete invalid message (%s) %s' % (reason, desc), case))


def task_batch(items):
    h = worker_harness('vbox')
    out, hits = [], {}
    n = 0
    for desc, hx in items:
        judge_one(desc, bytes.fromhex(hx), h, hits, out)
        n += 1
    byfp = {}
    for v in out:
        byfp.setdefault(v.fingerprint, []).append(v)
    return {'viol': [v.to_json() for vs in byfp.values() for v in vs[:3]], 'counts': {k: len(v) for k, v in byfp.items()},
            'n': n, 'hits': hits}


def task_tail(t):
    """All strings over a small alphabet in the non-fixed positions after a pinned prefix."""
    prefix_hex, alpha_hex, length = t
    prefix = bytes.fromhex(prefix_hex)
    alpha = bytes.fromhex(alpha_hex)
    h = worker_harness('vbox')
    out, hits = [], {}
    n = 0
    for tup in itertools.product(alpha, repeat=length):
        data = prefix + bytes(tup)
        judge_one('tail', data, h, hits, out)
        n += 1
    byfp = {}
    for v in out:
        byfp.setdefault(v.fingerprint, []).append(v)
    return {'viol': [v.to_json() for vs in byfp.values() for v in vs[:3]], 'counts': {k: len(v) for k, v in byfp.items()},
            'n': n, 'hits': hits}


def task_big(t):
    """Boundary-size messages: accept/reject + bytes_needed only (values are zeros)."""
    desc, nbytes, endian, elem = t
    data = gen.big_array_message(nbytes, endian, elem)
    out, hits = [], {}
    case = {'desc': desc, 'big': [nbytes, endian, elem.decode()]}
    # reference verdict without materialising 2^26 python objects
    total = len(data)
    if nbytes > R.MAX_ARRAY:
        ref = 'invalid:array.too-long'
    elif total > R.MAX_MESSAGE:
        ref = 'invalid:message.too-long'
    elif nbytes % (gen.G.FIXED_SIZE.get(elem[0], 1)):
        ref = 'invalid:array.fixed-len-not-multiple'
    else:
        ref = 'ok'
    with Harness('vbox', timeout=600) as h:
        try:
            r = h.cmd('DEMARSHAL ' + data.hex() + ' nocanon', timeout=600)
        except HarnessDied as e:
            return {'viol': [crash_violation(e, case, 'hang' if e.why == 'timeout' else 'crash').to_json()], 'counts': {}, 'n': 1, 'hits': {}}
    if ' canon=' in r:
        r = r.split(' canon=', 1)[0]
    kv = parse_kv(r)
    dm = kv['dm'] == '1'
    hits['big:' + ref] = 1
    if (ref == 'ok') != dm:
        if dm:
            out.append(Violation('accepted-but-invalid', ref.split(':', 1)[1], '%s accepted' % desc, case))
        else:
            out.append(Violation('rejected-but-valid', 'big', '%s rejected (%s)' % (desc, kv.get('dmerr')), case))
    return {'viol': [v.to_json() for v in out], 'counts': {v.fingerprint: 1 for v in out}, 'n': 1, 'hits': hits}


def _dispatch(t):
    fn, arg = t
    return fn(arg)


def valid_messages(tier):
    rich = True          # (the quick tier uses what used to be the thorough alphabet; thorough goes beyond it)
    hdr = [(R.F_PATH, (b'o', b'/a')), (R.F_MEMBER, (b's', b'M'))]
    for body in (gen.bodies(3, True, 2) if rich else gen.bodies(2, True, 1)):
        for e in 'lB':
            yield ('body', R.Msg(R.MT_CALL, 0, 1, list(hdr), body, e))
    for m in gen.header_shapes(rich):
        for e in 'lB':
            m2 = m.copy()
            m2.endian = e
            yield ('hdr', m2)
            m3 = m2.copy()
            m3.body = [(b's', b'x')]
            yield ('hdr+body', m3)
    for m in gen.header_value_variants():
        for e in 'lB':
            m2 = m.copy()
            m2.endian = e
            yield ('hdrval', m2)


def core_subset(tier):
    """Messages whose every single-site corruption is explored."""
    hdr = [(R.F_PATH, (b'o', b'/a')), (R.F_MEMBER, (b's', b'M'))]
    out = []
    picks = [
        [(b's', b'hi')], [(b'y', 1), (b'x', 5)], [(b'ai', [(b'i', 1), (b'i', 2)])], [(b'v', (b's', b'v'))],
        [(b'(yx)', [(b'y', 1), (b'x', 2)])], [(b'a{sv}', [(b'{sv}', [(b's', b'k'), (b'v', (b'b', 1))])])],
        [(b'g', b'a{sv}')], [(b'o', b'/a/b')], [(b'ab', [(b'b', 1), (b'b', 0)])], [(b'as', [(b's', b'a'), (b's', b'')])],
        [(b'aai', [(b'ai', [(b'i', 1)]), (b'ai', [])])], [(b'd', 0x3ff8000000000000), (b'q', 7)], [(b'a(yv)', [(b'(yv)', [(b'y', 1), (b'v', (b'ay', [(b'y', 9)]))])])],
        [(b'at', [])], [(b'a(ii)', [])], [(b'h', 0)],
    ]
    picks += [[tv] for tv in itertools.islice(gen.typed_values(2, False), 0, None, 9 if tier == 'quick' else 3)]
    for body in picks:
        for e in 'lB':
            out.append(R.Msg(R.MT_CALL, 0, 1, list(hdr), body, e))
    hs = list(gen.header_shapes(False))
    step = 3 if tier == 'thorough' else 7
    for m in hs[::step]:
        for e in 'lB':
            m2 = m.copy()
            m2.endian = e
            m2.body = [(b's', b'x')]
            out.append(m2)
    return out


def build_tasks(tier):
    tasks = []
    batch = []

    def push(desc, data):
        batch.append((desc, data.hex()))
        if len(batch) >= 300:
            tasks.append((task_batch, list(batch)))
            batch.clear()
    nvalid = 0
    for desc, m in valid_messages(tier):
        data = R.encode_message(m)
        push(desc, data)
        nvalid += 1
    rich = True
    ncore = 0
    for m in core_subset(tier):
        data = R.encode_message(m)
        ncore += 1
        for d2, b2 in gen.single_site_corruptions(data, rich):
            push(d2, b2)
        for d2, m2 in gen.field_rearrangements(m):
            push(d2, R.encode_message(m2))
    for desc, data in gen.limit_cases():
        push(desc, data)
    if batch:
        tasks.append((task_batch, list(batch)))
    tasks.append((task_size_limit, None))
    # unstructured tails: 16-byte fixed header with a fields-array length of L, then every string over the alphabet
    alpha = bytes([0, 1, 8, ord('s'), ord('g'), ord('o')])
    L = 7 if tier == 'quick' else 8
    for e in ('<', '>'):
        fixed = (b'l' if e == '<' else b'B') + bytes([1, 0, 1]) + struct.pack(e + 'III', 0, 1, L)
        pad = b'\0' * ((8 - (16 + L) % 8) % 8)
        # vary the first 2 symbols per task
        for a, b_ in itertools.product(alpha, repeat=2):
            tasks.append((task_tail_padded, (fixed.hex(), bytes([a, b_]).hex(), alpha.hex(), L - 2, pad.hex())))
    if tier == 'thorough':
        for e in 'lB':
            for n in ((1 << 26) - 1, 1 << 26, (1 << 26) + 1):
                tasks.append((task_big, ('ay-%d-%s' % (n, e), n, e, b'y')))
            for n in ((1 << 26) - 8, 1 << 26, (1 << 26) + 8, (1 << 26) - 4):
                tasks.append((task_big, ('at-%d-%s' % (n, e), n, e, b't')))
    return tasks, nvalid, ncore


def task_size_limit(_):
    """The maximum message length is the one limit that cannot be reached with small inputs at its protocol value (2^27).  It is
    the same comparison for every value of the limit, so it is exercised with a loader whose limit is set a few bytes around
    the total length (padded header + body) of each message: every residue of the header length mod 8, both byte orders,
    with and without a body.  A message is produced exactly when its total length does not exceed the limit."""
    h = worker_harness('vbox')
    out, hits = [], {}
    n = 0
    for e in 'lB':
        for k in range(1, 9):            # member length moves the end of the header-fields array through every residue
            for body in ([], [(b's', b'x' * 11)], [(b'ay', [(b'y', 7)] * 5)]):
                m = R.Msg(R.MT_CALL, 0, 1, [(R.F_PATH, (b'o', b'/a')), (R.F_MEMBER, (b's', b'M' * k))], body, e)
                data = R.encode_message(m)
                total = len(data)
                for delta in range(-9, 3):
                    case = {'desc': 'size-limit', 'data': data.hex(), 'max': total + delta}
                    try:
                        r = h.cmd('LOADMAX %d %s' % (total + delta, data.hex()))
                    except HarnessDied as ex:
                        out.append(crash_violation(ex, case))
                        continue
                    kv = parse_kv(r)
                    n += 1
                    got = kv.get('msg') == '1'
                    want = delta >= 0
                    hits['reason:size-limit-' + ('ok' if want else 'too-long')] = hits.get('reason:size-limit-' + ('ok' if want else 'too-long'), 0) + 1
                    if got != want:
                        out.append(Violation('accepted-but-invalid' if got else 'rejected-but-valid', 'message.too-long' if got else 'size-limit',
                                             'a %d-byte message (header fields array ends %d bytes before its padding boundary) with the maximum message length set to %d was %s' %
                                             (total, (8 - (16 + len(data) - total) % 8) % 8, total + delta, 'accepted' if got else 'rejected'), case))
                    elif not want and kv.get('corrupt') != '1':
                        out.append(Violation('accepted-but-invalid', 'message.too-long-not-corrupt', 'an over-long message did not mark the stream corrupt', case))
    byfp = {}
    for v in out:
        byfp.setdefault(v.fingerprint, []).append(v)
    return {'viol': [v.to_json() for vs in byfp.values() for v in vs[:3]], 'counts': {k_: len(v) for k_, v in byfp.items()}, 'n': n, 'hits': hits}


def task_tail_padded(t):
    fixed_hex, first_hex, alpha_hex, length, pad_hex = t
    prefix = bytes.fromhex(fixed_hex) + bytes.fromhex(first_hex)
    alpha = bytes.fromhex(alpha_hex)
    pad = bytes.fromhex(pad_hex)
    h = worker_harness('vbox')
    out, hits = [], {}
    n = 0
    for tup in itertools.product(alpha, repeat=length):
        judge_one('tail', prefix + bytes(tup) + pad, h, hits, out)
        n += 1
    byfp = {}
    for v in out:
        byfp.setdefault(v.fingerprint, []).append(v)
    return {'viol': [v.to_json() for vs in byfp.values() for v in vs[:3]], 'counts': {k: len(v) for k, v in byfp.items()},
            'n': n, 'hits': hits}


def run(ctx):
    tasks, nvalid, ncore = build_tasks(ctx.tier)
    pool = Pool()
    total = 0
    done = 0
    try:
        for r in pool.imap(_dispatch, tasks):
            done += 1
            if '__crash__' in r:
                ctx.add_violation(Violation('crash', r['__crash__'], r['stderr'], {'task': r['task']}))
                continue
            total += r['n']
            ctx.merge_hits(r['hits'])
            ctx.add_violations(r['viol'])
            for fp, c in r['counts'].items():
                ctx.viol_counts[fp] = ctx.viol_counts.get(fp, 0) + max(0, c - min(c, 3))
            if ctx.expired():
                ctx.incomplete('deadline hit after %d of %d tasks' % (done, len(tasks)))
                pool.cancel()
                break
    finally:
        pool.close()
    reasons = sorted(k for k in ctx.clause_hits if k.startswith('reason:'))
    ctx.coverage.update({
        'evaluations': total,
        'distinct_nontrivial': len(reasons),
        'rule': 'inputs = valid messages (all type trees to depth %d x values x [X],[y,X] bodies x 2 byte orders; header shapes: types x optional-field subsets x 2 orders x unknown fields x flags; '
                'header value variants) + EVERY single-site corruption (byte at every offset x replacement set, every aligned u32 to limit values, every truncation, trailing extensions, '
                'field delete/duplicate/rotate) of %d core messages + limit boundary messages + all strings over a 6-symbol alphabet in a %d-byte fields array; '
                'distinct_nontrivial = number of DISTINCT reference verdict/reason classes exercised (each a different rule of the specification)' % (3, ncore, 7 if ctx.tier == 'quick' else 8),
        'valid_shapes': nvalid, 'core_messages': ncore, 'reason_classes': reasons, 'tasks': len(tasks), 'tasks_done': done,
    })
    ctx.samples = [{'desc': 'body', 'canon': 'T=1 F=0 S=1 ... body=[y:1,a{sv}[{s:6b,v:b=b:1}]]'},
                   {'desc': 'byte@17=ff of a method call', 'expect': 'invalid (reference reason code decides)'},
                   {'desc': 'fixed-array-i-5bytes-l', 'expect': 'array.fixed-len-not-multiple'}]
    ctx.assumptions = ['pyv/refdbus.py is a faithful reading of the specification', 'dbus-protocol.h field code 10 (CONTAINER_INSTANCE) is treated as known; its wrong-type case is unspecified']
    ctx.replay_fn = replay


def replay(case):
    out, hits = [], {}
    if 'big' in case:
        n, e, el = case['big']
        r = task_big((case['desc'], n, e, el.encode()))
        return [Violation.from_json(v) for v in r['viol']]
    if case.get('desc') == 'size-limit':
        return [Violation.from_json(v) for v in task_size_limit(None)['viol']]
    if 'bytes' not in case:
        return []
    with Harness('vbox', timeout=120) as h:
        judge_one(case.get('desc', 'replay'), bytes.fromhex(case['bytes']), h, hits, out)
    return out
