"""C13 — configured resource limits are never exceeded.

BFS over connect / Hello / disconnect / auth-timeout histories of several
users, RequestName / ReleaseName (queued ownership counts), AddMatch /
RemoveMatch and messages around max_message_size, on an in-process bus whose
limits are set to 2-3.  A counter model predicts every outcome; on every state
the implementation's own counters (hook H2) must equal the lengths of the
lists they count and stay within the configured limits."""
import re
from collections import Counter

from .. import refdbus as R
from .. import busbox as B
from .. import explore
from ..engine import Violation, Pool, crash_violation, worker_bus
from ..vbox import HarnessDied
from ..session import BusSession
from ..models import names as N
from ..registry import claim

claim('C13', 'model_checking',
      'explicit-state BFS over connect/Hello/name/rule/oversize-message histories on the real bus with small limits, judged by a counter model and by counter-vs-list invariants read from the implementation\'s state dump in every state',
      'Limits max_incomplete_connections=2, max_completed_connections=3, max_connections_per_user=2, max_names_per_connection=3, max_match_rules_per_connection=2, max_message_size=4096. '
      'Histories of 4 client slots of 2 users (raw connect with pipelined SASL, Hello, disconnect, auth timeout), name requests with and without queuing, rule add/remove and messages of size limit-8/limit/limit+8 are explored; '
      'the request that would exceed a limit must be refused with LimitsExceeded (or the connection not accepted) leaving the dump unchanged, requests below the limit must succeed, freed capacity must be reusable, '
      'and every internal counter must equal the length of its list and be <= its limit in every state; rules may name another connection\'s unique name (the holder\'s counter, its own list and the matchmaker must agree whatever the bus does when that connection leaves); unanswered calls count against max_replies_per_connection with a finite reply_timeout configured; a reload of the same limits changes nothing, a reload that raises the per-connection limits makes the new values decide; calls to a recipient that does not read are refused for its full queue without taking a reply slot.',
      'Trusts the counter model. max_replies_per_connection is covered in C09. Limits other than the listed values and histories beyond the depth bound are not covered.',
      'DESIGN.md section 4 C13')

FACTORY = 'pyv.checks.c13:Session'
SLOTS = {'U1': 1000, 'U2': 1000, 'U3': 1000, 'V1': 65534}
NAMES = [b'com.example.N1', b'com.example.N2', b'com.example.N3']
RULES = [b"type='signal',member='R1'", b"type='signal',member='R2'", b"type='signal',member='NameOwnerChanged'"]
LIM = {'max_incomplete_connections': 2, 'max_completed_connections': 3, 'max_connections_per_user': 2,
       'max_names_per_connection': 3, 'max_match_rules_per_connection': 2, 'max_message_size': 4096, 'auth_timeout': 30000,
       'max_replies_per_connection': 2,
       # finite, but far beyond anything the explored histories add up to: the bus runs its expiry machinery for pending
       # replies (as every real configuration does) without a call ever timing out here
       'reply_timeout': 100000000}
LIMITS_EXCEEDED = b'org.freedesktop.DBus.Error.LimitsExceeded'
WIDER = ('max_names_per_connection', 'max_match_rules_per_connection', 'max_replies_per_connection')


class Session(BusSession):
    def __init__(self, params):
        BusSession.__init__(self, params)
        self.st = {l: 'closed' for l in SLOTS}     # closed | waiting | incomplete | completed
        self.waitq = []                               # labels connected but not accepted yet, FIFO
        self.age = {}                                 # label -> ms since accepted (incomplete only)
        self.reg = N.Registry()
        self.rules = {l: Counter() for l in SLOTS}
        self.undecided = set()
        self.small = params.get('small', False)
        self.calls = []               # outstanding calls: [caller, callee, serial] in the order they were made
        self._prefilled = False
        self.prefill()

    def prefill(self):
        """Variant: three registered connections (two users) exist at the start, so that histories about names, rules and
        pending replies of established connections fit into the depth bound."""
        if self.params.get('prefill') and not self._prefilled:
            self._prefilled = True
            for l in ('U1', 'U2', 'V1'):
                for op in (['conn', l], ['hello', l]):
                    vs = self.apply(op)
                    if vs:
                        raise RuntimeError('prefill failed at %r: %s' % (op, vs[0].what))

    def lim_names(self):
        return self.lim['max_names_per_connection']

    def limits_for(self, which):
        # with the two names of the small alphabet the names limit must be 2 (unique name + 1), otherwise no request could exceed it
        base = dict(LIM, max_names_per_connection=2 if self.params.get('small') else LIM['max_names_per_connection'])
        if which == 'wide':
            # a reload that RAISES the per-connection limits (lowering one below what is already held is not specified)
            for k in WIDER:
                base[k] += 1
        return base

    def config(self):
        self.which = 'base'
        self.lim = self.limits_for('base')
        return B.make_config(limits=self.lim)

    def fits_base(self):
        b = self.limits_for('base')
        for l in SLOTS:
            if self.st[l] == 'completed' and (self.names_count(l) > b['max_names_per_connection'] or sum(self.rules[l].values()) > b['max_match_rules_per_connection']
                                              or sum(1 for x in self.calls if x[0] == l) > b['max_replies_per_connection']):
                return False
        return True

    # ------------------------------------------------------------------
    def n_incomplete(self):
        return sum(1 for l in SLOTS if self.st[l] == 'incomplete')

    def n_completed(self):
        return sum(1 for l in SLOTS if self.st[l] == 'completed')

    def n_uid(self, uid):
        return sum(1 for l in SLOTS if self.st[l] == 'completed' and SLOTS[l] == uid)

    def names_count(self, l):
        return 1 + len(self.reg.names_of(l))

    def ops(self):
        ops = []
        for l in SLOTS:
            s = self.st[l]
            if s == 'closed':
                ops.append(['conn', l])
            elif s == 'waiting':
                ops.append(['disc', l])
            elif s == 'incomplete':
                ops.append(['hello', l])
                ops.append(['disc', l])
            else:
                ops.append(['disc', l])
                nn = NAMES[:2] if self.small else NAMES
                for i in range(len(nn)):
                    ops.append(['req', l, i, 0])
                    if not self.small:
                        ops.append(['req', l, i, 4])
                    ops.append(['rel', l, i])
                for i in range(len(RULES)):
                    ops.append(['add', l, i])
                    ops.append(['rm', l, i])
                # method calls that nobody answers yet (pending replies per CALLER are limited), and answers to the oldest one
                for t in SLOTS:
                    if t != l and self.st[t] == 'completed' and (l, t) in (('U1', 'U2'), ('U1', 'U3'), ('U1', 'V1'), ('U2', 'U1')):
                        ops.append(['pcall', l, t])
                    # a rule that names another connection's unique name: the bus discards it when that connection goes
                    # away, and the capacity it took must be free again
                    if t != l and self.st[t] == 'completed' and (l, t) in (('U1', 'U2'), ('U2', 'U1'), ('U1', 'V1')):
                        ops.append(['addu', l, t])
                if any(c[1] == l for c in self.calls):
                    ops.append(['preply', l])
                ops.append(['big', l, -8])
                ops.append(['big', l, 0])
                ops.append(['big', l, 8])
        if any(self.st[l] == 'incomplete' for l in SLOTS):
            ops.append(['advance', 20000])
        ops.append(['reload'])       # same limits re-read: counters, lists and the capacity in use stay what they are
        # a reload that changes the limits: from then on the NEW values decide
        if not self.params.get('prefill'):
            pass            # (only in the variant that starts with established connections: the product with the connect/auth histories adds nothing)
        elif self.which == 'base':
            ops.append(['reconf', 'wide'])
        elif self.fits_base():
            ops.append(['reconf', 'base'])
        return ops

    # ------------------------------------------------------------------
    def forget_unique(self, gone):
        # whether the bus discards other connections' rules that name the departed unique name is its own business (it does
        # so only opportunistically); the model takes over whatever the implementation's rule LIST says afterwards -- the
        # counter must agree with that list, and the limit applies to it
        for l in SLOTS:
            n = self.rules[l].pop(('u', gone), 0)
            if n:
                self.rules[l][('kept', gone)] += n
                self.undecided.add((l, gone))

    def settle_undecided(self, d):
        for l, gone in sorted(self.undecided):
            n = self.rules[l].pop(('kept', gone), 0)
            other = sum(self.rules[l].values())
            mm = re.search(r'conn @%s uid=\d+ n_services=\d+ len_services=\d+ n_rules=\d+ len_rules=(\d+)' % l, d)
            keep = (int(mm.group(1)) - other) if mm else 0
            if 0 <= keep <= n:
                self.hit('rule-naming-departed-connection-' + ('kept' if keep else 'collected'), n)
                if keep:
                    self.rules[l][('kept', gone)] = keep
            elif mm:
                self.rules[l][('kept', gone)] = n        # neither outcome explains the list: reported by the comparison below
        self.undecided = set()

    def accept_waiting(self, out, opdesc):
        """After capacity was freed the listener accepts queued connections FIFO."""
        while self.waitq and self.n_incomplete() < self.lim['max_incomplete_connections']:
            l = self.waitq.pop(0)
            self.st[l] = 'incomplete'
            self.age[l] = 0
            self.hit('accepted-after-wait')

    def read_handshake(self, out, opdesc):
        """Collect handshake bytes of clients that are still in raw mode."""
        self._distribute(self.bus.recvall())
        for l in SLOTS:
            c = self.slots.get(l)
            if c is None:
                continue
            self.hsbuf[l] = self.rawbuf.get(l, b'')
            if c in self.bus.rawmode and self.hsbuf[l].startswith(b'OK ') and self.hsbuf[l].endswith(b'\r\n'):
                self.bus.rawmode.discard(c)     # BEGIN was pipelined: from here on the stream is messages

    hsbuf = None

    def check_handshakes(self, out, opdesc):
        for l in SLOTS:
            got_ok = (self.hsbuf.get(l, b'')[:3] == b'OK ')
            if self.st[l] == 'waiting' and (got_ok or self.hsbuf.get(l)):
                out.append(Violation('limit-exceeded', 'max_incomplete_connections', '%s: connection %s was accepted although %d incomplete connections already existed' %
                                     (opdesc, l, self.lim['max_incomplete_connections']), None))
            if self.st[l] == 'incomplete' and not got_ok and not self.eof.get(l):
                out.append(Violation('refused-below-limit', 'accept', '%s: connection %s was not accepted/authenticated although capacity is free (got %r)' % (opdesc, l, self.hsbuf.get(l)), None))

    def apply(self, op):
        out = []
        if self.hsbuf is None:
            self.hsbuf = {}
        kind = op[0]
        desc = repr(op)
        before = None
        if kind == 'conn':
            l = op[1]
            uid = SLOTS[l]
            c = self.bus.rawconnect(uid)
            self.slots[l] = c
            self.uname[l] = None
            self.inbox.setdefault(l, [])
            self.eof[l] = False
            self.hsbuf[l] = b''
            self.rawbuf[l] = b''
            self.bus.rawmode.add(c)
            hexuid = str(uid).encode().hex().encode()
            self.bus.send(c, b'\0AUTH EXTERNAL ' + hexuid + b'\r\nBEGIN\r\n')
            self.bus.pump()
            if self.n_incomplete() < self.lim['max_incomplete_connections'] and not self.waitq:
                self.st[l] = 'incomplete'
                self.age[l] = 0
                self.hit('conn-accepted')
            else:
                self.st[l] = 'waiting'
                self.waitq.append(l)
                self.hit('conn-not-accepted')
            self.read_handshake(out, desc)
            self.check_handshakes(out, desc)
        elif kind == 'hello':
            l = op[1]
            c = self.slots[l]
            s = self.bus.next_serial(c)
            before = self.impl_key()
            self.send(l, R.bus_call(s, 'Hello'))
            rep = self.take_reply(l, s)
            ok = self.n_completed() < self.lim['max_completed_connections'] and self.n_uid(SLOTS[l]) < self.lim['max_connections_per_user']
            if ok:
                self.hit('hello-ok')
                if rep is None or rep.kind != R.MT_RETURN:
                    out.append(Violation('refused-below-limit', 'Hello', '%s: Hello refused (%r) with %d completed, %d of this user' % (desc, rep, self.n_completed(), self.n_uid(SLOTS[l])), None))
                    return out
                name = rep.args()[0]
                self.uname[l] = name
                self.label_of[name] = l
                self.st[l] = 'completed'
                self.age.pop(l, None)
                self.accept_waiting(out, desc)
                self.bus.pump()
                self.read_handshake(out, desc)
                self.check_handshakes(out, desc)
            else:
                which = 'max_completed_connections' if self.n_completed() >= self.lim['max_completed_connections'] else 'max_connections_per_user'
                self.hit('hello-over-' + which)
                if rep is None or rep.kind != R.MT_ERROR or rep.errname != LIMITS_EXCEEDED:
                    out.append(Violation('limit-exceeded', which, '%s: Hello answered %r with %d completed connections, %d of this user' % (desc, rep, self.n_completed(), self.n_uid(SLOTS[l])), None))
                elif self.impl_key() != before and not self.eof.get(l):
                    out.append(Violation('refusal-changed-state', which, '%s: refused Hello changed the state' % desc, None))
                if self.eof.get(l):
                    # the bus may drop a connection whose Hello it refused
                    self.st[l] = 'closed'
                    self.slots[l] = None
                    self.age.pop(l, None)
                    self.accept_waiting(out, desc)
                    self.bus.pump()
                    self.read_handshake(out, desc)
                    self.check_handshakes(out, desc)
        elif kind == 'disc':
            l = op[1]
            was = self.st[l]
            self.close_slot(l)
            self.st[l] = 'closed'
            self.age.pop(l, None)
            self.hsbuf[l] = b''
            self.rawbuf[l] = b''
            if l in self.waitq:
                self.waitq.remove(l)
            self.reg.drop_connection(l)
            self.rules[l] = Counter()
            self.forget_unique(l)
            self.uname[l] = None
            self.calls = [x for x in self.calls if x[0] != l and x[1] != l]      # its own calls vanish; calls TO it are answered NoReply
            if was in ('incomplete',):
                self.accept_waiting(out, desc)
            self.bus.pump()
            self.read_handshake(out, desc)
            self.check_handshakes(out, desc)
            self.hit('disc-' + was)
        elif kind == 'reconf':
            self.which = op[1]
            self.lim = self.limits_for(op[1])
            before = re.sub(r'\|?limits [^|]*', '', self.impl_key())
            self.bus.reload(B.make_config(limits=self.lim))
            self._distribute(self.bus.recvall())
            self.hit('reload-changed-limits')
            for l in SLOTS:
                if self.inbox.get(l) or (self.eof.get(l) and self.slots.get(l) is not None):
                    out.append(Violation('reload-visible', 'limits', '%s: %s noticed the reload (%r, eof=%s)' % (desc, l, self.inbox.get(l)[:1], self.eof.get(l)), None))
            if re.sub(r'\|?limits [^|]*', '', self.impl_key()) != before and not out:
                out.append(Violation('reload-visible', 'state', '%s: a reload that only changes limits changed what connections hold' % desc, None))
            self.read_handshake(out, desc)
            self.check_handshakes(out, desc)
        elif kind == 'reload':
            self.reload_same(out, desc)
            self.read_handshake(out, desc)
            self.check_handshakes(out, desc)
        elif kind == 'advance':
            dt = op[1]
            self.advance(dt)
            expired = []
            for l in list(self.age):
                self.age[l] += dt
                if self.age[l] > self.lim['auth_timeout']:
                    expired.append(l)
            for l in expired:
                self.hit('auth-timeout')
                if not self.eof.get(l):
                    self.read_handshake(out, desc)
                if not self.eof.get(l):
                    out.append(Violation('auth-timeout', 'not-dropped', '%s: incomplete connection %s survived the auth timeout' % (desc, l), None))
                self.st[l] = 'closed'
                self.slots[l] = None
                self.age.pop(l)
                self.hsbuf[l] = b''
                self.rawbuf[l] = b''
            if expired:
                self.accept_waiting(out, desc)
                self.bus.pump()
            self.read_handshake(out, desc)
            self.check_handshakes(out, desc)
        elif kind == 'pcall':
            l, t = op[1], op[2]
            before = self.impl_key()
            c = self.slots[l]
            ser = self.bus.next_serial(c)
            self.send(l, R.method_call(ser, self.uname[t], '/c', 'c.i', 'Ask', [R.U(ser)]))
            mine = sum(1 for x in self.calls if x[0] == l)
            got_call = [o for o in self.inbox.get(t, []) if o.kind == R.MT_CALL and o.serial == ser and o.sender == self.uname[l]]
            errs = [o for o in self.inbox.get(l, []) if o.kind == R.MT_ERROR and o.rserial == ser]
            if mine >= self.lim['max_replies_per_connection']:
                self.hit('call-over-limit')
                if got_call or len(errs) != 1 or errs[0].errname != LIMITS_EXCEEDED:
                    out.append(Violation('limit-exceeded', 'max_replies_per_connection', '%s: %s already has %d unanswered calls; the call was %s, errors %r' % (desc, l, mine, 'delivered' if got_call else 'not delivered', errs), None))
                elif self.impl_key() != before:
                    out.append(Violation('refusal-changed-state', 'max_replies_per_connection', '%s: refused call changed the state' % desc, None))
                else:
                    self.silent(out, desc, 'max_replies_per_connection', l, ser)
            else:
                self.hit('call-ok')
                if len(got_call) != 1 or errs:
                    out.append(Violation('refused-below-limit', 'call', '%s: %s has %d unanswered calls (limit %d) but the call was not delivered: errors %r' % (desc, l, mine, self.lim['max_replies_per_connection'], errs), None))
                else:
                    self.calls.append([l, t, ser])
        elif kind == 'preply':
            t = op[1]
            idx = next(i for i, x in enumerate(self.calls) if x[1] == t)
            l, _, ser = self.calls.pop(idx)
            c = self.slots[t]
            s2 = self.bus.next_serial(c)
            self.send(t, R.method_return(s2, ser, self.uname[l], [R.U(ser)]))
            got = [o for o in self.inbox.get(l, []) if o.kind == R.MT_RETURN and o.rserial == ser]
            self.hit('reply-frees-slot')
            if len(got) != 1:
                out.append(Violation('refused-below-limit', 'reply', '%s: the reply to an outstanding call was not delivered' % desc, None))
        elif kind in ('req', 'rel'):
            l, n = op[1], NAMES[op[2]]
            before = self.impl_key()
            if kind == 'req':
                s, rep = self.method(l, 'RequestName', [R.S(n), R.U(op[3])])
                inq = l in self.reg.queued(n)
                if self.names_count(l) >= self.lim_names():
                    if inq and rep is not None and rep.kind == R.MT_RETURN:
                        code, _ = self.reg.request(l, n, op[3])          # re-request at the limit: does not exceed it
                        self.hit('req-at-limit-rerequest')
                    elif rep is None or rep.kind != R.MT_ERROR or rep.errname != LIMITS_EXCEEDED:
                        out.append(Violation('limit-exceeded', 'max_names_per_connection', '%s: RequestName answered %r although %s already holds %d names' % (desc, rep, l, self.names_count(l)), None))
                    else:
                        self.hit('req-over-limit')
                        if self.impl_key() != before:
                            out.append(Violation('refusal-changed-state', 'max_names_per_connection', '%s: refused RequestName changed the state' % desc, None))
                        self.silent(out, desc, 'max_names_per_connection')
                else:
                    code, _ = self.reg.request(l, n, op[3])
                    self.hit('req-ok')
                    if rep is None or rep.kind != R.MT_RETURN or rep.args() != [code]:
                        out.append(Violation('refused-below-limit', 'RequestName', '%s: answered %r, model %d (holds %d names)' % (desc, rep, code, self.names_count(l)), None))
            else:
                s, rep = self.method(l, 'ReleaseName', [R.S(n)])
                code, _ = self.reg.release(l, n)
                if rep is None or rep.kind != R.MT_RETURN or rep.args() != [code]:
                    out.append(Violation('reply-code', 'ReleaseName', '%s: answered %r, model %d' % (desc, rep, code), None))
        elif kind in ('add', 'rm', 'addu'):
            l = op[1]
            r = RULES[op[2]] if kind != 'addu' else b"type='signal',sender='%s'" % self.uname[op[2]]
            if kind == 'addu':
                kind = 'add'
            before = self.impl_key()
            if kind == 'add':
                s, rep = self.method(l, 'AddMatch', [R.S(r)])
                if sum(self.rules[l].values()) >= self.lim['max_match_rules_per_connection']:
                    self.hit('add-over-limit')
                    if rep is None or rep.kind != R.MT_ERROR or rep.errname != LIMITS_EXCEEDED:
                        out.append(Violation('limit-exceeded', 'max_match_rules_per_connection', '%s: AddMatch answered %r with %d rules held' % (desc, rep, sum(self.rules[l].values())), None))
                    elif self.impl_key() != before:
                        out.append(Violation('refusal-changed-state', 'max_match_rules_per_connection', '%s: refused AddMatch changed the state' % desc, None))
                    else:
                        self.silent(out, desc, 'max_match_rules_per_connection')
                else:
                    self.hit('add-ok')
                    if rep is None or rep.kind != R.MT_RETURN:
                        out.append(Violation('refused-below-limit', 'AddMatch', '%s: answered %r with %d rules held' % (desc, rep, sum(self.rules[l].values())), None))
                    else:
                        self.rules[l][r if op[0] != 'addu' else ('u', op[2])] += 1
            else:
                s, rep = self.method(l, 'RemoveMatch', [R.S(r)])
                if self.rules[l][r] > 0:
                    if rep is None or rep.kind != R.MT_RETURN:
                        out.append(Violation('reply-code', 'RemoveMatch', '%s: answered %r' % (desc, rep), None))
                    self.rules[l][r] -= 1
                elif rep is None or rep.kind != R.MT_ERROR:
                    out.append(Violation('reply-code', 'RemoveMatch', '%s: answered %r for a rule not held' % (desc, rep), None))
        elif kind == 'big':
            l, delta = op[1], op[2]
            c = self.slots[l]
            s = self.bus.next_serial(c)
            m = R.bus_call(s, 'GetId', [])
            # pad with an unknown-to-the-method body so that the total size is exact
            base = len(R.encode_message(R.method_call(s, R.BUS, R.BUS_PATH, R.BUS, 'GetId', [(b'ay', [])])))
            want = self.lim['max_message_size'] + delta
            m = R.method_call(s, R.BUS, R.BUS_PATH, R.BUS, 'GetId', [(b'ay', [(b'y', 0)] * (want - base))])
            data = R.encode_message(m)
            assert len(data) == want, (len(data), want)
            before = self.impl_key()
            self.send_raw(l, data)
            others_eof = [x for x in SLOTS if x != l and self.st[x] in ('incomplete', 'completed') and self.eof.get(x)]
            if others_eof:
                out.append(Violation('oversize-hits-others', 'max_message_size', '%s: connections %r were closed too' % (desc, others_eof), None))
            if delta > 0:
                self.hit('big-over')
                if not self.eof.get(l):
                    out.append(Violation('limit-exceeded', 'max_message_size', '%s: a %d-byte message did not get its sender disconnected (limit %d)' % (desc, want, self.lim['max_message_size']), None))
                self.st[l] = 'closed'
                self.slots[l] = None
                self.reg.drop_connection(l)
                self.rules[l] = Counter()
                self.forget_unique(l)
                self.uname[l] = None
            else:
                self.hit('big-ok')
                rep = self.take_reply(l, s)
                if self.eof.get(l) or rep is None:
                    out.append(Violation('refused-below-limit', 'max_message_size', '%s: a %d-byte message (limit %d) was not processed: eof=%s reply=%r' % (desc, want, self.lim['max_message_size'], self.eof.get(l), rep), None))
        for x in list(self.inbox):
            self.take(x)
        if not out:
            self.invariants(out, desc)
        return out

    def silent(self, out, desc, which, requester=None, serial=None):
        """A refused request "changes nothing": apart from the one error to the requester nobody hears anything of it -
        no NameAcquired / NameOwnerChanged for a name that was not acquired, no copy of a call that was not delivered."""
        for x in list(self.inbox):
            left = [o for o in self.inbox[x] if not (x == requester and o.kind == R.MT_ERROR and o.rserial == serial)]
            if left:
                out.append(Violation('refusal-visible', which, '%s: the request was refused with LimitsExceeded, yet %s received %r' % (desc, x, left[:2]), None))
                return

    def invariants(self, out, desc):
        d = self.impl_key()
        self.settle_undecided(d)
        m = re.search(r'conns n_completed=(\d+) len_completed=(\d+) n_incomplete=(\d+) len_incomplete=(\d+)', d)
        nc, lc, ni, li = (int(x) for x in m.groups())
        if nc != lc or ni != li:
            out.append(Violation('counter-mismatch', 'connections', '%s: n_completed=%d list=%d n_incomplete=%d list=%d' % (desc, nc, lc, ni, li), None))
        if nc > self.lim['max_completed_connections'] or ni > self.lim['max_incomplete_connections']:
            out.append(Violation('limit-exceeded', 'connections-counter', '%s: n_completed=%d n_incomplete=%d' % (desc, nc, ni), None))
        if nc != self.n_completed() or ni != self.n_incomplete():
            out.append(Violation('model-differs', 'connections', '%s: implementation completed=%d incomplete=%d, model %d/%d (%r)' % (desc, nc, ni, self.n_completed(), self.n_incomplete(), self.st), None))
        # calls of / to connections that are gone (closed by the client or dropped by the bus) are no longer outstanding
        self.calls = [x for x in self.calls if self.st[x[0]] == 'completed' and self.st[x[1]] == 'completed']
        per = Counter(mm.group(1)[1:] for mm in re.finditer(r'\|reply get=(\S+) ', '|' + d))
        mper = Counter(x[0] for x in self.calls)
        for lab in set(per) | set(mper):
            if per[lab] > self.lim['max_replies_per_connection']:
                out.append(Violation('limit-exceeded', 'pending-replies-counter', '%s: %s has %d pending replies recorded' % (desc, lab, per[lab]), None))
            if per[lab] != mper[lab]:
                out.append(Violation('model-differs', 'pending-replies', '%s: the bus records %d pending replies for %s, the model %d' % (desc, per[lab], lab, mper[lab]), None))
        # the matchmaker's own lists, per rule holder (what actually gets matched)
        inmm = Counter(mm.group(1) for mm in re.finditer(r'\|rule (\S+) ', '|' + d))
        uids = Counter()
        for mm in re.finditer(r'conn (\S+) uid=(\d+) n_services=(\d+) len_services=(\d+) n_rules=(\d+) len_rules=(\d+)', d):
            lab, uid, ns, ls, nr, lr = mm.group(1), int(mm.group(2)), int(mm.group(3)), int(mm.group(4)), int(mm.group(5)), int(mm.group(6))
            uids[uid] += 1
            if inmm.get(lab, 0) != lr:
                out.append(Violation('counter-mismatch', 'matchmaker-rules', '%s: %s holds %d rules by its own list (counter %d), the matchmaker has %d of them' % (desc, lab, lr, nr, inmm.get(lab, 0)), None))
            if ns != ls or nr != lr:
                out.append(Violation('counter-mismatch', 'per-connection', '%s: %s n_services=%d list=%d n_rules=%d list=%d' % (desc, lab, ns, ls, nr, lr), None))
            if ns > self.lim_names() or nr > self.lim['max_match_rules_per_connection']:
                out.append(Violation('limit-exceeded', 'per-connection-counter', '%s: %s holds %d names, %d rules' % (desc, lab, ns, nr), None))
            l = lab[1:]
            if l in SLOTS:
                if ns != self.names_count(l) or nr != sum(self.rules[l].values()):
                    out.append(Violation('model-differs', 'per-connection', '%s: %s holds %d names/%d rules, model %d/%d' % (desc, lab, ns, nr, self.names_count(l), sum(self.rules[l].values())), None))
        for mm in re.finditer(r'uid (\d+) count=(\d+)', d):
            uid, cnt = int(mm.group(1)), int(mm.group(2))
            if cnt != uids.get(uid, 0):
                out.append(Violation('counter-mismatch', 'per-user', '%s: per-user table says %d for uid %d, %d completed connections have it' % (desc, cnt, uid, uids.get(uid, 0)), None))
            if cnt > self.lim['max_connections_per_user']:
                out.append(Violation('limit-exceeded', 'max_connections_per_user', '%s: uid %d has %d connections' % (desc, uid, cnt), None))

    def key(self):
        return self.impl_key() + '#' + self.which + '#' + repr(sorted(self.st.items())) + repr(self.waitq) + repr(sorted(self.age.items())) + self.reg.key()


class StallSession(BusSession):
    """B does not read: calls to it pile up inside the bus until max_outgoing_bytes refuses further ones."""

    def __init__(self, params=None):
        BusSession.__init__(self, params or {})
        self.connect_slot('B')
        self.bus.h.cmd('SRVSOCKBUF 4608')
        self.connect_slot('A')
        self.connect_slot('T')
        self.bus.h.cmd('SOCKBUF %d 0 2048' % self.slots['B'])
        for l in list(self.inbox):
            self.take(l)

    def config(self):
        return B.make_config(limits={'max_outgoing_bytes': 3000, 'max_replies_per_connection': self.params.get('limit', 3), 'reply_timeout': 100000000})


def task_stalled_recipient(scns):
    """Pending replies are counted per caller: a call the bus REFUSES (the recipient's queue is full) changes nothing -- it takes
    no slot -- and a caller below its limit is served.  For every number of calls to the stalled recipient and limit:"""
    out = []
    n = 0
    for limit, ncalls in scns:
        case = {'stalled_recipient': [limit, ncalls]}
        try:
            s = StallSession({'limit': limit})
            s.bus.h.cmd('NODRAIN %d 1' % s.slots['B'])
            held = 0
            for i in range(ncalls):
                c = s.slots['A']
                ser = s.bus.next_serial(c)
                s.send('A', R.method_call(ser, s.uname['B'], '/c', 'c.i', 'Ask', [R.S(b'p' * 12000)]))
                for _ in range(6):
                    s.bus.pump()
                    s._distribute(s.bus.recvall())
                errs = [o for o in s.take('A') if o.kind == R.MT_ERROR and o.rserial == ser]
                n += 1
                if held >= limit:
                    if len(errs) != 1 or errs[0].errname != LIMITS_EXCEEDED:
                        out.append(Violation('limit-exceeded', 'max_replies_per_connection', 'call %d to a stalled recipient with %d calls outstanding (limit %d): errors %r' % (i, held, limit, errs), case))
                        break
                elif not errs:
                    held += 1
                elif len(errs) == 1 and errs[0].errname == LIMITS_EXCEEDED:
                    pass        # refused: the recipient's queue is full -- must not take a slot (checked against the dump below)
                else:
                    out.append(Violation('refused-below-limit', 'call', 'call %d to a stalled recipient answered %r' % (i, errs), case))
                    break
                recorded = sum(1 for line in s.impl_key().split('|') if line.startswith('reply get=@A '))
                if recorded != held:
                    out.append(Violation('refusal-changed-state' if recorded > held else 'model-differs', 'pending-replies-stalled-recipient',
                                         'after call %d to a stalled recipient the bus records %d pending replies for the caller, %d calls were accepted (limit %d)' % (i, recorded, held, limit), case))
                    break
            else:
                # a healthy third party: served iff the caller is below its limit
                c = s.slots['A']
                ser = s.bus.next_serial(c)
                s.send('A', R.method_call(ser, s.uname['T'], '/c', 'c.i', 'Ask', [R.U(1)]))
                got = [o for o in s.take('T') if o.kind == R.MT_CALL and o.serial == ser]
                errs = [o for o in s.take('A') if o.kind == R.MT_ERROR and o.rserial == ser]
                n += 1
                if held < limit and (len(got) != 1 or errs):
                    out.append(Violation('refused-below-limit', 'call-after-refusals', 'with %d of %d reply slots in use (after %d calls to a stalled recipient) a call to a healthy recipient was not delivered: %r' % (held, limit, ncalls, errs), case))
                if held >= limit and (got or len(errs) != 1):
                    out.append(Violation('limit-exceeded', 'max_replies_per_connection', 'with %d of %d reply slots in use a further call was delivered' % (held, limit), case))
        except HarnessDied as e:
            out.append(crash_violation(e, case))
            worker_bus().h.close()
    return {'viol': [v.to_json() for v in out], 'n': n}


def run(ctx):
    quick = ctx.tier == 'quick'
    pool = Pool()
    nstall = 0
    scns = [(limit, k) for limit in (1, 2, 3) for k in range(1, 6)]
    try:
        for r in pool.imap(task_stalled_recipient, [scns[i:i + 3] for i in range(0, len(scns), 3)]):
            if '__crash__' in r:
                ctx.add_violation(Violation('crash', r['__crash__'], r['stderr'], {'task': r['task']}))
                continue
            ctx.add_violations(r['viol'])
            nstall += r['n']
    finally:
        pool.close()
    ctx.coverage['stalled_recipient_calls'] = nstall
    depth = 7 if quick else 10
    with ctx.sub_budget(0.6):
        st = explore.bfs(ctx, FACTORY, {'small': quick}, max_depth=depth, ops_chunk=10)
    # second exploration from a state with three registered connections of two users (established-connection histories)
    st2 = explore.bfs(ctx, FACTORY, {'small': quick, 'prefill': True}, max_depth=4 if quick else 6, ops_chunk=10)
    ctx.coverage.update({
        'states': st['states'] + st2['states'], 'transitions': st['transitions'] + st2['transitions'], 'traces_validated_against_impl': st['transitions'] + st2['transitions'],
        'completed_depth': st['completed_depth'], 'fixpoint': st['fixpoint'], 'prefilled_variant': {'states': st2['states'], 'transitions': st2['transitions'], 'completed_depth': st2['completed_depth']},
        'bound': '4 client slots (3 of uid 1000, 1 of uid 65534); limits %r; BFS depth %d' % (LIM, depth),
    })
    ctx.assumptions = ['the counter model', 'a connection the listener has not accepted yet shows as a client that wrote its handshake and got no answer']
    ctx.replay_fn = replay


def replay(case):
    if 'stalled_recipient' in case:
        return [Violation.from_json(v) for v in task_stalled_recipient([tuple(case['stalled_recipient'])])['viol']]
    return explore.replay_history(FACTORY, case['params'], case['history'])
