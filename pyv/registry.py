"""Registry of claimed checks: the single source for MANIFEST.json.
A property is 'claimed' once its check module exists in CHECKS; everything
else is listed under not_applicable with the reason it is not claimed yet."""

# id -> dict(level, technique, text, note, design_ref)
CHECKS = {}

NOT_YET = 'check not built yet in this round; design in DESIGN.md section 4'

ALL_IDS = ['C%02d' % i for i in range(1, 21)]


def claim(pid, level, technique, text, note, design_ref):
    CHECKS[pid] = dict(level=level, technique=technique, text=text, note=note, design_ref=design_ref)
