"""busbox — an in-process dbus-daemon (real bus/ code) driven through vbox's
bus face, with raw-socket clients owned by the harness."""
import os
import re
from . import refdbus as R
from .vbox import Harness, HarnessDied, parse_kv

PERMISSIVE_POLICY = """
  <policy context="default">
    <allow send_destination="*" eavesdrop="true"/>
    <allow eavesdrop="true"/>
    <allow own="*"/>
    <allow user="*"/>
  </policy>
"""


def make_config(policy=PERMISSIVE_POLICY, limits=None, bustype='session', extra='', servicedirs=(), auth=None,
                allow_anonymous=False):
    lim = ''.join('  <limit name="%s">%d</limit>\n' % (k, v) for k, v in sorted((limits or {}).items()))
    sd = ''.join('  <servicedir>%s</servicedir>\n' % d for d in servicedirs)
    au = ''.join('  <auth>%s</auth>\n' % a for a in (auth or ()))
    return ('<!DOCTYPE busconfig PUBLIC "-//freedesktop//DTD D-Bus Bus Configuration 1.0//EN" '
            '"http://www.freedesktop.org/standards/dbus/1.0/busconfig.dtd">\n'
            '<busconfig>\n' + ('  <type>%s</type>\n' % bustype if bustype else '') +
            '  <listen>unix:path=@SOCK@</listen>\n' + au + ('  <allow_anonymous/>\n' if allow_anonymous else '') +
            sd + policy + lim + extra + '</busconfig>\n')


class Recv:
    __slots__ = ('msgs', 'eof', 'fds', 'junk', 'raw')

    def __init__(self):
        self.msgs = []     # list of (Msg, raw bytes)
        self.eof = False
        self.fds = []      # list of 'dev:ino:off'
        self.junk = None   # ('corrupt', reason) if the bus sent something undecodable
        self.raw = b''


class BusError(Exception):
    pass


class Bus:
    """One fresh bus per reset().  All client traffic is raw bytes."""

    def __init__(self, harness=None):
        self.h = harness or Harness('vbox')
        self.own_harness = harness is None
        self.pending = {}     # client -> leftover bytes (incomplete message)
        self.names = {}       # client -> unique name (bytes)
        self.serial = {}      # client -> next serial
        self.spin = False
        self.config = None
        self.rawmode = set()  # clients still in the SASL phase: their bytes are handed over unparsed

    # -- lifecycle ------------------------------------------------------
    def reset(self, config_xml, seed=None):
        if self.h.proc is None:
            self.h.start()
        sock = os.path.join(self.h.rundir, 'bus.sock')
        cfgpath = os.path.join(self.h.rundir, 'bus.conf')
        if config_xml != self.config or not os.path.exists(cfgpath):
            with open(cfgpath, 'w') as f:
                f.write(config_xml.replace('@SOCK@', sock).replace('@RUNDIR@', self.h.rundir))
            self.config = config_xml
        cmd = 'RESET %s %s' % (cfgpath, sock)
        if seed:
            cmd += ' %d %d' % seed
        r = self.h.cmd(cmd)
        if not r.startswith('OK'):
            raise BusError('reset failed: ' + r)
        self.pending.clear()
        self.names.clear()
        self.serial.clear()
        self.rawmode.clear()
        self.spin = False

    def reload(self, config_xml):
        """Rewrite the configuration file and make the running bus re-read it (connections stay)."""
        sock = os.path.join(self.h.rundir, 'bus.sock')
        cfgpath = os.path.join(self.h.rundir, 'bus.conf')
        with open(cfgpath, 'w') as f:
            f.write(config_xml.replace('@SOCK@', sock).replace('@RUNDIR@', self.h.rundir))
        self.config = config_xml
        r = self.h.cmd('RELOAD')
        if not r.startswith('OK'):
            raise BusError('reload failed: ' + r)

    def close(self):
        if self.own_harness:
            self.h.close()

    # -- clients --------------------------------------------------------
    def connect(self, uid=0, nofd=False):
        r = self.h.cmd('CONNECT %d%s' % (uid, ' nofd' if nofd else ''))
        if not r.startswith('OK '):
            raise BusError('connect failed: ' + r)
        c = int(r.split()[1])
        self.pending[c] = b''
        self.serial[c] = 1
        return c

    def rawconnect(self, uid=0, tcp_port=None):
        r = self.h.cmd('RAWCONNECT %d' % uid + (' tcp:%d' % tcp_port if tcp_port else ''))
        if not r.startswith('OK '):
            raise BusError('rawconnect failed: ' + r)
        c = int(r.split()[1])
        self.pending[c] = b''
        self.serial[c] = 1
        return c

    def next_serial(self, c):
        s = self.serial[c]
        self.serial[c] = s + 1
        return s

    def _parse(self, r, raw=False):
        """Parse 'OK ... c0=<hex>[!eof] f0=...' into {client: Recv}."""
        if not r.startswith('OK'):
            raise BusError('unexpected response: ' + r[:200])
        out = {}
        for tok in r.split(' ')[1:]:
            m = re.match(r'^([cf])(\d+)=(.*)$', tok)
            if not m:
                if tok.startswith('it=') and tok[3:].startswith('-'):
                    self.spin = True
                continue
            kind, c, val = m.group(1), int(m.group(2)), m.group(3)
            rv = out.setdefault(c, Recv())
            if kind == 'f':
                rv.fds = val.split(',')
                continue
            if val.endswith('!eof'):
                rv.eof = True
                val = val[:-4]
            data = self.pending.get(c, b'') + bytes.fromhex(val)
            rv.raw = data
            if raw or c in self.rawmode:
                self.pending[c] = b''
                continue
            msgs, status = R.split_stream(data, fds_available=1 << 30)
            rv.msgs = msgs
            used = sum(len(b) for _, b in msgs)
            if status == 'clean':
                self.pending[c] = b''
            elif status == 'incomplete':
                self.pending[c] = data[used:]
            else:
                rv.junk = status
                self.pending[c] = b''
        return out

    def step(self, c, data, fds=None, raw=False):
        """Write data on client c, pump to quiescence, drain everybody."""
        cmd = 'STEP %d %s' % (c, data.hex() if data else '-')
        if fds:
            cmd += ' ' + ','.join(str(i) for i in fds)
        return self._parse(self.h.cmd(cmd), raw)

    def send(self, c, data, fds=None):
        cmd = 'SEND %d %s' % (c, data.hex() if data else '-')
        if fds:
            cmd += ' ' + ','.join(str(i) for i in fds)
        r = self.h.cmd(cmd)
        return int(r.split()[1])

    def pump(self):
        r = self.h.cmd('PUMP')
        if 'it=-' in r:
            self.spin = True
        return r

    def recvall(self, raw=False):
        return self._parse(self.h.cmd('RECVALL'), raw)

    def close_client(self, c, pump=True):
        return self._parse(self.h.cmd('CLOSE %d%s' % (c, '' if pump else ' nopump')))

    def advance(self, ms):
        return self._parse(self.h.cmd('ADVANCE %d' % ms))

    def dump(self):
        r = self.h.cmd('DUMP')
        if not r.startswith('OK'):
            raise BusError('dump failed: ' + r)
        return r[3:]

    def fdcount(self):
        return int(self.h.cmd('FDCOUNT').split()[1])

    def blocks(self):
        return int(self.h.cmd('BLOCKS').split()[1])

    # -- conveniences ---------------------------------------------------
    def call(self, c, msg: R.Msg, fds=None):
        return self.step(c, R.encode_message(msg), fds)

    def hello(self, c):
        s = self.next_serial(c)
        out = self.call(c, R.bus_call(s, 'Hello'))
        for m, _ in out.get(c, Recv()).msgs:
            if m.mtype == R.MT_RETURN and m.reply_serial == s:
                self.names[c] = m.body[0][1]
                return out
        return out

    def bus_method(self, c, member, body=(), iface=R.BUS, path=R.BUS_PATH, flags=0):
        s = self.next_serial(c)
        return s, self.call(c, R.bus_call(s, member, body, iface, path, flags))


def find_reply(recv, serial):
    """First METHOD_RETURN/ERROR in a Recv with the given reply serial."""
    if recv is None:
        return None
    for m, _ in recv.msgs:
        if m.mtype in (R.MT_RETURN, R.MT_ERROR) and m.reply_serial == serial:
            return m
    return None
