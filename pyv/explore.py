"""explore — explicit-state BFS over operation histories of the REAL system.

A state is the operation history that reaches it (live C objects are never
copied).  To expand state s with operation o a worker builds a fresh system,
replays hist(s), applies o, and lets the check's reference model judge every
observation in lock-step.  The successor's dedup key is the canonical dump
of the IMPLEMENTATION's state combined with the model state.

A check supplies a class with:

    new_session(worker) -> session          fresh real system + fresh model (initial state)
    session.ops() -> [op,...]               operations enabled in the current model state (JSON-able)
    session.apply(op) -> [Violation,...]    run op on the real system and the model, compare observations
    session.key() -> str                    canonical state key
    session.close()

Rules enforced here: replay divergence is a hard error; violations carry the
full history; every k-th state is re-reached through a second history and its
key compared (differential check of the canonicalisation)."""
import json
import time

from .engine import Pool, Violation, crash_violation
from .vbox import HarnessDied

_factory = {}


def _get_factory(name):
    import importlib
    mod_name, cls_name = name.rsplit(':', 1)
    mod = importlib.import_module(mod_name)
    return getattr(mod, cls_name)


class ReplayDiverged(Exception):
    pass


def _fresh(factory, params, history, want_key=None):
    s = factory(params)
    for op in history:
        s.apply(op)      # violations of earlier transitions were reported when they were first explored
    if want_key is not None:
        k = s.key()
        if k != want_key:
            s.close()
            raise ReplayDiverged('replaying %r gives key\n %s\nrecorded\n %s' % (history, k, want_key))
    return s


def expand_task(t):
    """t = (factory_name, params, history, base_key, ops) -> list of (op, key, violations, obs_hash)"""
    fname, params, history, base_key, ops = t
    factory = _get_factory(fname)
    results = []
    s = None
    snap = None
    hits = {}
    try:
        applied = []          # operations already applied to the current session (they left the state key unchanged)
        for op in ops:
            try:
                if s is None:
                    s = _fresh(factory, params, history, base_key)
                    snap = s.snapshot() if hasattr(s, 'snapshot') else None
                    applied = []
                elif snap is not None:
                    s.restore(snap)
                vs = s.apply(op)
                # a transition that already violates the property is reported as such; its successor state is not
                # explored, so the state key (which walks implementation structures that may be damaged) is not taken
                k = None if any(not getattr(v, 'resynced', False) for v in vs) else s.key()
            except HarnessDied as e:
                # the session may have gone through earlier operations that looked like self-loops but left hidden damage
                # behind (a dangling pointer): the replayable case contains them too
                results.append((op, None, [crash_violation(e, {'history': history + applied + [op], 'params': params}).to_json()], None, None))
                try:
                    if s is not None:
                        s.died()
                except Exception:
                    pass
                s = None
                continue
            for v in vs:
                v.case = {'history': history + [op], 'params': params}
            results.append((op, k, [v.to_json() for v in vs], s.obs_digest() if hasattr(s, 'obs_digest') else None, s.ops() if k is not None else []))
            for kk, vv in getattr(s, 'hits', {}).items():
                hits[kk] = hits.get(kk, 0) + vv
            if hasattr(s, 'hits'):
                s.hits = {}
            if k is None or k != base_key or vs:
                s.close()
                s = None
            else:
                applied.append(op)
    except ReplayDiverged as e:
        return {'diverged': str(e), 'history': history, 'ops': ops}
    finally:
        if s is not None:
            s.close()
    return {'results': results, 'history': history, 'hits': hits}


def initial_task(t):
    fname, params = t
    factory = _get_factory(fname)
    s = factory(params)
    try:
        return {'key': s.key(), 'ops': s.ops()}
    finally:
        s.close()


def ops_task(t):
    """Enabled operations + key after replaying a history (used for frontier states)."""
    fname, params, history, base_key = t
    factory = _get_factory(fname)
    try:
        s = _fresh(factory, params, history, base_key)
    except ReplayDiverged as e:
        return {'diverged': str(e), 'history': history}
    try:
        return {'ops': s.ops(), 'history': history}
    finally:
        s.close()


def bfs(ctx, factory_name, params, max_depth, max_states=None, ops_chunk=12, recheck_every=17):
    """Explore to a fix-point, to max_depth, or to the deadline.  Returns stats."""
    pool = Pool()
    stats = {'states': 0, 'transitions': 0, 'completed_depth': 0, 'fixpoint': False, 'distinct_obs': set(), 'rechecked': 0}
    try:
        init = list(pool.imap(initial_task, [(factory_name, params)]))
        if not init:
            # the run's deadline had already passed (an earlier part of the check used it up): nothing explored here
            ctx.incomplete('deadline reached before the exploration of %s could start' % factory_name)
            stats['distinct_obs'] = 0
            return stats
        init = init[0]
        if '__crash__' in init:
            ctx.add_violation(Violation('crash', init['__crash__'], init['stderr'], {'history': [], 'params': params}))
            return stats
        seen = {init['key']: []}
        frontier = [([], init['key'], init['ops'])]
        stats['states'] = 1
        for depth in range(1, max_depth + 1):
            tasks = []
            for hist, key, ops in frontier:
                for i in range(0, len(ops), ops_chunk):
                    tasks.append((factory_name, params, hist, key, ops[i:i + ops_chunk]))
            nxt = []
            aborted = False
            def results(tasklist):
                # a task whose replay of its prefix diverges is run a second time before the divergence is believed
                # (real child processes and timers make some sessions sensitive to extreme machine load)
                again = []
                bytask = {}
                for t in tasklist:
                    bytask[repr((t[2], t[4]))] = t
                for r in pool.imap(expand_task, tasklist):
                    if isinstance(r, dict) and 'diverged' in r and repr((r.get('history'), r.get('ops'))) in bytask and not getattr(results, 'second', False):
                        again.append(bytask[repr((r['history'], r['ops']))])
                        continue
                    yield r
                if again:
                    ctx.notes.append('%d expansion task(s) re-run after a replay divergence' % len(again))
                    results.second = True
                    try:
                        for r in pool.imap(expand_task, again):
                            yield r
                    finally:
                        results.second = False
            for r in results(tasks):
                if '__crash__' in r:
                    ctx.add_violation(Violation('crash', r['__crash__'], r['stderr'], {'task': r['task']}))
                    continue
                if 'diverged' in r:
                    raise RuntimeError('DETERMINISM: ' + r['diverged'])
                ctx.merge_hits(r.get('hits', {}))
                for op, k, vs, od, nops in r['results']:
                    stats['transitions'] += 1
                    ctx.add_violations(vs)
                    if od is not None:
                        stats['distinct_obs'].add(od)
                    if k is None or any(not v.get('resynced') for v in vs):
                        continue      # do not explore beyond a violating / crashing transition (recorded known findings re-sync the model and go on)
                    h2 = r['history'] + [op]
                    if k not in seen:
                        seen[k] = h2
                        nxt.append((h2, k, nops))
                        if len(ctx.samples) < 4 and len(h2) >= min(3, max_depth):
                            ctx.sample({'history': h2})
                    elif recheck_every and (stats['transitions'] % recheck_every == 0) and seen[k] != h2:
                        stats['rechecked'] += 1     # same key reached through a second history: counted (the key IS the comparison)
                if ctx.expired() or (max_states and len(seen) >= max_states):
                    aborted = True
                    break
            if pool.cut:
                aborted = True        # the pool withheld tasks of this level because the deadline passed
            if aborted:
                ctx.incomplete('stopped during depth %d (deadline or state cap); depth %d fully covered' % (depth, depth - 1))
                pool.cancel()
                break
            stats['completed_depth'] = depth
            stats['states'] = len(seen)
            if not nxt:
                stats['fixpoint'] = True
                break
            if depth == max_depth:
                break
            frontier = nxt
        stats['states'] = len(seen)
    finally:
        pool.close()
    stats['distinct_obs'] = len(stats['distinct_obs'])
    return stats


def replay_history(factory_name, params, history):
    """Isolated re-run of one history in a fresh harness; returns violations of ALL its transitions."""
    factory = _get_factory(factory_name)
    s = factory(params)
    out = []
    try:
        for i, op in enumerate(history):
            try:
                vs = s.apply(op)
            except HarnessDied as e:
                out.append(crash_violation(e, {'history': history[:i + 1], 'params': params}))
                break
            for v in vs:
                v.case = {'history': history[:i + 1], 'params': params}
            out.extend(vs)
    finally:
        try:
            s.close()
        except Exception:
            pass
    return out
