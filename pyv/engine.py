"""engine — run context (evidence, violations, known findings, replays),
worker pool, and the generic explorers used by the per-property checks."""
import hashlib
import json
import multiprocessing as mp
import os
import re
import sys
import time
import traceback

from . import vbox
from .vbox import Harness, HarnessDied

VERIF = vbox.VERIF
NWORKERS = int(os.environ.get('VERIF_WORKERS', '16'))


class Violation:
    """One oracle disagreement.  fingerprint identifies the DEFECT (clause +
    reason code + crash frame), not the input."""

    def __init__(self, clause, reason, what, case, resynced=False):
        self.clause = clause
        self.reason = reason
        self.what = what
        self.case = case          # JSON-able description sufficient for replay
        self.resynced = resynced  # a recorded known finding after which the model was re-synchronised (exploration continues)

    @property
    def fingerprint(self):
        return '%s/%s' % (self.clause, self.reason)

    def to_json(self):
        return {'clause': self.clause, 'reason': self.reason, 'what': self.what, 'case': self.case, 'resynced': self.resynced}

    @staticmethod
    def from_json(d):
        return Violation(d['clause'], d['reason'], d['what'], d['case'], d.get('resynced', False))


_kf_cache = None


def load_known_findings():
    global _kf_cache
    if _kf_cache is None:
        p = os.path.join(VERIF, 'known_findings.json')
        _kf_cache = json.load(open(p)) if os.path.exists(p) else {'findings': [], 'fixed': []}
    return _kf_cache


class _FpSet:
    """Recorded fingerprints of one property.  An entry is an exact fingerprint, or — only where one defect shows
    under a family of inputs, e.g. every flag word — a pattern with '*' standing for one bracket-free token."""

    def __init__(self, entries):
        self.entries = list(entries)

    @staticmethod
    def _match(pattern, fp):
        if '*' not in pattern:
            return pattern == fp
        rx = '^' + '[^\\[\\],:/]*'.join(re.escape(x) for x in pattern.split('*')) + '$'
        return re.match(rx, fp) is not None

    def find(self, fp):
        for e in self.entries:
            if self._match(e['fingerprint'], fp):
                return e
        return None

    def __contains__(self, fp):
        return self.find(fp) is not None


def known_fingerprints(pid):
    return _FpSet(f for f in load_known_findings().get('findings', []) if f['property'] == pid)


# evidence/ and replays/ normally live in /verif; VERIF_OUT redirects them (used when the checks are pointed at a
# scratch copy of the repository with VERIF_REPO, so that /verif/evidence only ever describes /repo itself)
OUT = os.environ.get('VERIF_OUT', VERIF)


class Ctx:
    def __init__(self, pid, tier, level):
        self.pid = pid
        self.tier = tier
        self.level = level
        self.seed = int(os.environ.get('VERIF_SEED', '0') or 0)
        self.t0 = time.time()
        budget = {'quick': 150, 'thorough': 2400}[tier]
        self.deadline = self.t0 + float(os.environ.get('VERIF_DEADLINE_S', budget))
        DEADLINE[0] = self.deadline
        self.coverage = {}
        self.assumptions = []
        self.violations = {}      # fingerprint -> list[Violation] (first few)
        self.viol_counts = {}
        self.samples = []
        self.exhaustive = True
        self.notes = []
        self.clause_hits = {}
        self.replay_fn = None     # callable(case) -> list[Violation]; set by the check for replay-before-report

    # ------------------------------------------------------------------
    def time_left(self):
        return self.deadline - time.time()

    def expired(self):
        return time.time() > self.deadline

    def sub_budget(self, fraction):
        """Context manager: the enclosed part of a check may use at most `fraction` of the time that is left."""
        ctx = self

        class _Sub:
            def __enter__(self_):
                self_.saved = ctx.deadline
                ctx.deadline = min(ctx.deadline, time.time() + max(5.0, (ctx.deadline - time.time()) * fraction))
                DEADLINE[0] = ctx.deadline

            def __exit__(self_, *a):
                ctx.deadline = self_.saved
                DEADLINE[0] = ctx.deadline
                if CUT[0] and ctx.exhaustive:
                    ctx.incomplete('a part of the check used up its share of the time budget before finishing')
                CUT[0] = False
                return False
        return _Sub()

    def hit(self, clause, n=1):
        self.clause_hits[clause] = self.clause_hits.get(clause, 0) + n

    def merge_hits(self, d):
        for k, v in d.items():
            self.hit(k, v)

    def add_violation(self, v):
        fp = v.fingerprint
        self.viol_counts[fp] = self.viol_counts.get(fp, 0) + 1
        lst = self.violations.setdefault(fp, [])
        if len(lst) < 3:
            lst.append(v)

    def add_violations(self, vs):
        for v in vs:
            self.add_violation(v if isinstance(v, Violation) else Violation.from_json(v))

    def sample(self, s, limit=6):
        if len(self.samples) < limit:
            self.samples.append(s)

    def incomplete(self, why):
        self.exhaustive = False
        self.notes.append(why)

    # ------------------------------------------------------------------
    def finish(self):
        """Write evidence, print verdict lines, return exit code."""
        if CUT[0] and self.exhaustive:
            self.incomplete('deadline reached: some tasks of the enumeration were not started')
        known = load_known_findings()
        kf = known_fingerprints(self.pid)
        exit_code = 0
        n_unlisted = 0
        confirmed_violation = False
        os.makedirs(os.path.join(OUT, 'replays'), exist_ok=True)
        for fp in sorted(self.violations):
            vs = self.violations[fp]
            if fp in kf:
                print('KNOWN-FINDING: property=%s %s [%s] (%d cases this run)' %
                      (self.pid, kf.find(fp)['what'], fp, self.viol_counts[fp]))
                continue
            # replay before report
            v = vs[0]
            confirmed = True
            if self.replay_fn is not None:
                try:
                    again = self.replay_fn(v.case)
                    confirmed = any(a.fingerprint == fp for a in again)
                    if not confirmed and v.clause.endswith('crash') and any(a.clause.endswith('crash') for a in again):
                        # a memory-safety failure may be caught at a different frame each time (use after free):
                        # any crash on replay of the same case confirms it
                        confirmed = True
                    if not confirmed:
                        # not reproducible in isolation: a harness problem, not a property violation
                        print('HARNESS-ERROR: violation %s did not reproduce on isolated replay: %s' % (fp, v.what))
                        sys.stdout.flush()
                        self.notes.append('non-reproducible: ' + fp)
                        exit_code = max(exit_code, 2)
                        continue
                except Exception as e:   # replay machinery failed; report the original
                    self.notes.append('replay raised %r' % (e,))
            h = hashlib.sha1((fp + json.dumps(v.case, sort_keys=True, default=str)).encode()).hexdigest()[:12]
            path = os.path.join(OUT, 'replays', '%s-%s.json' % (self.pid, h))
            with open(path, 'w') as f:
                json.dump({'property': self.pid, 'fingerprint': fp, 'violation': v.to_json()}, f, indent=1, default=str)
            print('VIOLATION property=%s replay=%s' % (self.pid, path))
            print('  fingerprint: %s  cases: %d' % (fp, self.viol_counts[fp]))
            print('  what: %s' % v.what[:600])
            n_unlisted += 1
            confirmed_violation = True
        # vacuity: clauses that must have been exercised
        cov = dict(self.coverage)
        cov['samples'] = self.samples if self.samples else cov.get('samples', [])
        cov['exhaustive'] = bool(self.exhaustive)
        cov['clause_hits'] = self.clause_hits
        cov['known_findings_seen'] = sorted(fp for fp in self.violations if fp in kf)
        if self.notes:
            cov['notes'] = self.notes
        ev = {
            'property_id': self.pid,
            'tier': self.tier,
            'seed': self.seed,
            'level': self.level,
            'coverage': cov,
            'assumptions': self.assumptions,
            'wall_s': round(time.time() - self.t0, 2),
            'violations': n_unlisted,
        }
        os.makedirs(os.path.join(OUT, 'evidence'), exist_ok=True)
        with open(os.path.join(OUT, 'evidence', '%s.json' % self.pid), 'w') as f:
            json.dump(ev, f, indent=1, default=str)
        summ = {k: v for k, v in cov.items() if isinstance(v, (int, float, bool))}
        if confirmed_violation:
            exit_code = 1      # a confirmed, replayed violation decides the exit status even if another one did not reproduce
        print('%s %s: %s wall=%.1fs exit=%d' % (self.pid, self.tier, json.dumps(summ, sort_keys=True), ev['wall_s'], exit_code))
        return exit_code


# --------------------------------------------------------------------------
# worker pool: each worker process owns harness processes, created lazily

_worker_state = {}


def worker_harness(name='vbox', tree='asan', **kw):
    key = (name, tree)
    h = _worker_state.get(key)
    if h is None:
        h = Harness(name, tree, **kw)
        _worker_state[key] = h
    return h


def worker_bus():
    from .busbox import Bus
    b = _worker_state.get('bus')
    if b is None:
        b = Bus(worker_harness('vbox'))
        _worker_state['bus'] = b
    return b


def _worker_cleanup():
    for k, h in list(_worker_state.items()):
        if isinstance(h, Harness):
            h.close()
    _worker_state.clear()


def _call(args):
    fn, task = args
    try:
        return fn(task)
    except HarnessDied as e:
        # a check that wants crash attribution catches HarnessDied itself;
        # reaching here means an unattributed crash
        for k in list(_worker_state):
            if isinstance(_worker_state[k], Harness):
                _worker_state[k].close()
        _worker_state.clear()
        return {'__crash__': e.fingerprint(), 'stderr': e.stderr[-3000:], 'cmd': e.cmd[:500], 'task': repr(task)[:2000]}
    except Exception:
        return {'__error__': traceback.format_exc(), 'task': repr(task)[:2000]}


def _init_worker():
    import atexit
    import signal
    signal.signal(signal.SIGINT, signal.SIG_IGN)
    atexit.register(_worker_cleanup)


DEADLINE = [None]     # set by Ctx: no new task is handed to a worker after this time
CUT = [False]         # a pool withheld tasks because the deadline had passed: the run cannot claim to be exhaustive


class Pool:
    """Worker pool.  Tasks are fed to the workers lazily (at most 2 per worker outstanding), never after the run's
    deadline and never after cancel(); the pool is always shut down by close()+join(), never by terminate() —
    multiprocessing.Pool.terminate() can dead-lock against its own feeder thread, which would hang a check."""

    def __init__(self, n=None):
        import threading
        self.n = n or NWORKERS
        self.pool = mp.get_context('fork').Pool(self.n, initializer=_init_worker)
        self.stop = False
        self.cut = False          # True if tasks were withheld because of the deadline / cancel()
        self._threading = threading
        self._sems = []

    def imap(self, fn, tasks, chunksize=1):
        """Unordered map; yields results. Raises on harness-internal errors."""
        sem = self._threading.Semaphore(self.n * 2 * chunksize)
        self._sems.append(sem)

        def feed():
            for t in tasks:
                sem.acquire()
                if self.stop:
                    self.cut = True
                    return
                if DEADLINE[0] is not None and time.time() > DEADLINE[0]:
                    self.cut = True
                    CUT[0] = True
                    return
                yield (fn, t)
        for r in self.pool.imap_unordered(_call, feed(), chunksize):
            sem.release()
            if isinstance(r, dict) and '__error__' in r:
                self.cancel()
                raise RuntimeError('worker error on %s:\n%s' % (r['task'], r['__error__']))
            yield r

    def cancel(self):
        """Stop handing out tasks (tasks already running finish)."""
        self.stop = True
        for sem in self._sems:
            for _ in range(self.n * 64):
                sem.release()

    def close(self):
        # run cleanup in every worker so harness subprocesses and run dirs go away
        self.cancel()
        self.pool.close()
        self.pool.join()


def crash_violation(e: HarnessDied, case, clause='crash'):
    return Violation(clause, e.fingerprint(), 'harness process died (%s) while executing the case; stderr tail:\n%s' %
                     (e.why, e.stderr[-1500:]), case)
