"""session — base class for bus histories explored by pyv/explore.py.

Owns one in-process bus (worker-local vbox) and named client slots; renames
unique connection names to slot labels so that states reached through
different histories compare equal."""
import hashlib
import re

from . import refdbus as R
from . import busbox as B
from .engine import worker_bus, Violation

NOC_RULE = b"type='signal',sender='org.freedesktop.DBus',interface='org.freedesktop.DBus',member='NameOwnerChanged'"


class Obs:
    """A received message reduced to what oracles compare."""
    __slots__ = ('kind', 'sender', 'dest', 'member', 'iface', 'path', 'errname', 'rserial', 'serial', 'body', 'sig', 'flags', 'msg')

    def __init__(self, m: R.Msg):
        self.msg = m
        self.kind = m.mtype
        self.sender = m.sender
        self.dest = m.destination
        self.member = m.member
        self.iface = m.interface
        self.path = m.path
        self.errname = m.error_name
        self.rserial = m.reply_serial
        self.serial = m.serial
        self.sig = m.signature
        self.flags = m.flags
        self.body = m.body

    def args(self):
        """Body as plain python values (strings as bytes)."""
        return [plain(v) for v in self.body]

    def __repr__(self):
        return 'Obs(%s)' % R.canon_msg(self.msg)


def plain(v):
    sig, p = v
    c = sig[:1]
    if c in (b'a',):
        return [plain(x) for x in p]
    if c in (b'(', b'{'):
        return tuple(plain(x) for x in p)
    if c == b'v':
        return plain(p)
    return p


class BusSession:
    """Subclasses set CONFIG (xml) and call connect_slot()."""
    CONFIG = B.make_config()

    def __init__(self, params=None):
        self.params = params or {}
        self.bus = worker_bus()
        self.bus.reset(self.config())
        self.slots = {}       # label -> client index (None when closed)
        self.uname = {}       # label -> unique name bytes (None before Hello)
        self.label_of = {}    # unique name -> label (kept after close: names are never reused)
        self.inbox = {}       # label -> list of Obs since last take()
        self.eof = {}         # label -> bool
        self.junk = []
        self.rawbuf = {}      # label -> bytes received while the client is in raw (handshake) mode
        self.hits = {}
        self._obs_log = hashlib.sha1()

    def config(self):
        return self.CONFIG

    def hit(self, k, n=1):
        self.hits[k] = self.hits.get(k, 0) + n

    # ---- plumbing ----------------------------------------------------
    def _distribute(self, out):
        for c, rv in out.items():
            lab = None
            for l, ci in self.slots.items():
                if ci == c:
                    lab = l
            if lab is None:
                lab = self._closed_label(c)
            if c in self.bus.rawmode and rv.raw:
                self.rawbuf[lab] = self.rawbuf.get(lab, b'') + rv.raw
            for m, raw in rv.msgs:
                self.inbox.setdefault(lab, []).append(Obs(m))
            if rv.eof:
                self.eof[lab] = True
            if rv.junk:
                self.junk.append((lab, rv.junk))

    def _closed_label(self, c):
        return 'closed%d' % c

    def connect_slot(self, label, uid=0, hello=True, nofd=False):
        c = self.bus.connect(uid, nofd)
        self.slots[label] = c
        self.uname[label] = None
        self.inbox.setdefault(label, [])
        self.eof[label] = False
        if hello:
            self.hello(label)
        return c

    def hello(self, label):
        c = self.slots[label]
        s0 = self.bus.serial[c]
        out = self.bus.hello(c)
        self._distribute(out)
        self.take_reply(label, s0)
        n = self.bus.names.get(c)
        if n is not None and self.uname.get(label) is None:
            self.uname[label] = n
            self.label_of[n] = label
        return n

    def send(self, label, msg, fds=None):
        """Send one message from slot label, pump, distribute observations."""
        c = self.slots[label]
        out = self.bus.call(c, msg, fds)
        self._distribute(out)

    def send_raw(self, label, data, fds=None):
        c = self.slots[label]
        out = self.bus.step(c, data, fds)
        self._distribute(out)

    def method(self, label, member, body=(), iface=R.BUS, path=R.BUS_PATH, flags=0, dest=R.BUS):
        """Call a method; return the reply Obs (or None). Other traffic stays in the inboxes."""
        c = self.slots[label]
        s = self.bus.next_serial(c)
        m = R.method_call(s, dest, path, iface, member, body, flags)
        self.send(label, m)
        return s, self.take_reply(label, s)

    def take_reply(self, label, serial):
        box = self.inbox.get(label, [])
        for i, o in enumerate(box):
            if o.kind in (R.MT_RETURN, R.MT_ERROR) and o.rserial == serial:
                del box[i]
                return o
        return None

    def take(self, label):
        box = self.inbox.get(label, [])
        self.inbox[label] = []
        return box

    def close_slot(self, label):
        c = self.slots[label]
        out = self.bus.close_client(c)
        self.slots[label] = None
        self._distribute(out)

    def advance(self, ms):
        self._distribute(self.bus.advance(ms))

    def reload_same(self, out, desc):
        """The bus re-reads the configuration it is already running with (SIGHUP / ReloadConfig): nobody may receive
        anything and the canonical state must be what it was."""
        before = self.impl_key()
        self.bus.reload(self.bus.config)
        self._distribute(self.bus.recvall())
        self.hit('reload-same-configuration')
        for l, box in self.inbox.items():
            if box:
                out.append(Violation('reload-visible', 'message', '%s: %s received %r when the bus re-read an unchanged configuration' % (desc, l, box[:2]), None))
        for l, e in self.eof.items():
            if e and self.slots.get(l) is not None:
                out.append(Violation('reload-visible', 'disconnected', '%s: %s was disconnected when the bus re-read an unchanged configuration' % (desc, l), None))
        after = self.impl_key()
        if after != before and not out:
            out.append(Violation('reload-visible', 'state', '%s: re-reading an unchanged configuration changed the state\n before: %s\n after : %s' % (desc, before[:600], after[:600]), None))

    def is_open(self, label):
        return self.slots.get(label) is not None

    # ---- canonicalisation ---------------------------------------------
    def rename(self, text):
        """Replace unique names by slot labels in a text (longest names first)."""
        if isinstance(text, bytes):
            text = text.decode('latin-1')
        names = sorted(((n.decode(), l) for n, l in self.label_of.items()), key=lambda x: -len(x[0]))
        if not names:
            return text
        pat = re.compile('|'.join(re.escape(n) + r'(?![0-9])' for n, _ in names))
        d = dict(names)
        text = pat.sub(lambda mo: '@' + d[mo.group(0)], text)
        # the same names hex-encoded (canonical message text carries strings as hex)
        hpat = re.compile('|'.join(n.encode().hex() + r'(?!3[0-9])' for n, _ in names))
        hd = {n.encode().hex(): ('@' + l).encode().hex() for n, l in names}
        return hpat.sub(lambda mo: hd[mo.group(0)], text)

    def lab(self, uname):
        """unique name bytes -> '@label' (or the name itself if unknown)."""
        if uname is None:
            return None
        l = self.label_of.get(uname)
        return ('@' + l) if l is not None else uname.decode('latin-1')

    def impl_key(self):
        return self.rename(self.bus.dump())

    def obs_note(self, s):
        self._obs_log.update(s.encode() if isinstance(s, str) else s)

    def obs_digest(self):
        return self._obs_log.hexdigest()[:16]

    # Python-side counters that a self-loop transition must not advance (the real system's state is
    # unchanged after it, so the next operation tried from the same state must look exactly like it
    # does after a fresh replay of the history)
    COUNTER_ATTRS = ()

    def snapshot(self):
        return (dict(self.bus.serial), {a: getattr(self, a) for a in self.COUNTER_ATTRS})

    def restore(self, snap):
        self.bus.serial.clear()
        self.bus.serial.update(snap[0])
        for a, v in snap[1].items():
            setattr(self, a, v)

    def died(self):
        self.bus.h.close()

    def close(self):
        pass
