"""refdbus — an independent D-Bus wire codec and validator.

Written from doc/dbus-specification.xml (Marshaling, Message Format, Valid
Names).  Never calls libdbus.  Used as the reference decoding for every
check: libdbus is never its own oracle.

Value model
-----------
A value is a pair ``(sig, payload)`` with ``sig`` the bytes of ONE single
complete type and payload:

  y n q i u x t h b   int (b: 0/1)
  d                   int: the raw 64 bits (so NaN payloads compare exactly)
  s o g               bytes
  v                   a value (sig, payload)
  a<elem>             list of payloads-with-sig, i.e. list of values whose sig == <elem>
  (..)                list of values
  {kv}                [key value, value value]

Canonical text (``canon_value``) is what the C harness prints too, so both
sides can be compared as strings.
"""
import struct
from . import grammars as G

MAX_ARRAY = 1 << 26
MAX_MESSAGE = 1 << 27

F_PATH, F_INTERFACE, F_MEMBER, F_ERROR_NAME, F_REPLY_SERIAL, F_DESTINATION, F_SENDER, \
    F_SIGNATURE, F_UNIX_FDS, F_CONTAINER_INSTANCE = range(1, 11)
FIELD_TYPE = {1: b'o', 2: b's', 3: b's', 4: b's', 5: b'u', 6: b's', 7: b's', 8: b'g', 9: b'u', 10: b'o'}
FIELD_NAME = {1: 'path', 2: 'iface', 3: 'member', 4: 'errname', 5: 'rserial', 6: 'dest', 7: 'sender',
              8: 'sig', 9: 'fds', 10: 'cinst'}
MT_CALL, MT_RETURN, MT_ERROR, MT_SIGNAL = 1, 2, 3, 4
LOCAL_IFACE = b'org.freedesktop.DBus.Local'
LOCAL_PATH = b'/org/freedesktop/DBus/Local'

_INT_FMT = {ord('y'): 'B', ord('n'): 'h', ord('q'): 'H', ord('i'): 'i', ord('u'): 'I',
            ord('x'): 'q', ord('t'): 'Q', ord('h'): 'I', ord('b'): 'I', ord('d'): 'Q'}


class Invalid(Exception):
    """Raised by the decoder; .reason is a stable reason code."""

    def __init__(self, reason, where=None):
        Exception.__init__(self, reason)
        self.reason = reason
        self.where = where


class Incomplete(Exception):
    """Not enough bytes yet to hold the claimed message."""


# --------------------------------------------------------------------------
# encoder

def _pad(buf: bytearray, align: int):
    r = len(buf) % align
    if r:
        buf.extend(b'\0' * (align - r))


def encode_value(buf: bytearray, sig: bytes, payload, e: str):
    """Append payload of single complete type sig to buf (alignment relative to len(buf))."""
    c = sig[0]
    if c in _INT_FMT:
        _pad(buf, G.ALIGN[c])
        buf.extend(struct.pack(e + _INT_FMT[c], payload))
    elif c in (ord('s'), ord('o')):
        _pad(buf, 4)
        buf.extend(struct.pack(e + 'I', len(payload)))
        buf.extend(payload)
        buf.append(0)
    elif c == ord('g'):
        buf.append(len(payload))
        buf.extend(payload)
        buf.append(0)
    elif c == ord('v'):
        vsig, vpay = payload
        buf.append(len(vsig))
        buf.extend(vsig)
        buf.append(0)
        encode_value(buf, vsig, vpay, e)
    elif c == ord('a'):
        esig = sig[1:]
        _pad(buf, 4)
        lenpos = len(buf)
        buf.extend(b'\0\0\0\0')
        _pad(buf, G.ALIGN[esig[0]])
        start = len(buf)
        for (s2, p2) in payload:
            encode_value(buf, esig, p2, e)
        struct.pack_into(e + 'I', buf, lenpos, len(buf) - start)
    elif c in (ord('('), ord('{')):
        _pad(buf, 8)
        for (s2, p2) in payload:
            encode_value(buf, s2, p2, e)
    else:
        raise ValueError('cannot encode type %r' % sig)


class Msg:
    __slots__ = ('endian', 'mtype', 'flags', 'version', 'serial', 'fields', 'body', 'body_len')

    def __init__(self, mtype=MT_CALL, flags=0, serial=1, fields=None, body=None, endian='l', version=1):
        self.endian = endian
        self.mtype = mtype
        self.flags = flags
        self.version = version
        self.serial = serial
        self.fields = fields if fields is not None else []   # list of (code, (sig, payload)) in wire order
        self.body = body if body is not None else []          # list of values
        self.body_len = None

    # convenience -------------------------------------------------------
    def field(self, code, default=None):
        for c, v in self.fields:
            if c == code:
                return v[1]
        return default

    def set_field(self, code, payload, sig=None):
        sig = sig or FIELD_TYPE[code]
        for i, (c, v) in enumerate(self.fields):
            if c == code:
                self.fields[i] = (code, (sig, payload))
                return
        self.fields.append((code, (sig, payload)))

    def del_field(self, code):
        self.fields = [(c, v) for (c, v) in self.fields if c != code]

    @property
    def path(self): return self.field(F_PATH)
    @property
    def interface(self): return self.field(F_INTERFACE)
    @property
    def member(self): return self.field(F_MEMBER)
    @property
    def error_name(self): return self.field(F_ERROR_NAME)
    @property
    def reply_serial(self): return self.field(F_REPLY_SERIAL)
    @property
    def destination(self): return self.field(F_DESTINATION)
    @property
    def sender(self): return self.field(F_SENDER)
    @property
    def signature(self): return self.field(F_SIGNATURE, b'')
    @property
    def unix_fds(self): return self.field(F_UNIX_FDS, 0)

    def body_sig(self):
        return b''.join(v[0] for v in self.body)

    def copy(self):
        m = Msg(self.mtype, self.flags, self.serial, list(self.fields), list(self.body), self.endian, self.version)
        return m

    def __repr__(self):
        return 'Msg(%s)' % canon_msg(self)


def encode_message(m: Msg, auto_signature=True) -> bytes:
    e = '<' if m.endian == 'l' else '>'
    fields = list(m.fields)
    if auto_signature and m.body and not any(c == F_SIGNATURE for c, _ in fields):
        fields.append((F_SIGNATURE, (b'g', m.body_sig())))
    body = bytearray()
    for (s, p) in m.body:
        encode_value(body, s, p, e)
    buf = bytearray()
    buf.append(ord(m.endian))
    buf.append(m.mtype)
    buf.append(m.flags)
    buf.append(m.version)
    buf.extend(struct.pack(e + 'II', len(body), m.serial))
    buf.extend(b'\0\0\0\0')
    start = len(buf)
    for code, (vs, vp) in fields:
        _pad(buf, 8)
        buf.append(code)
        buf.append(len(vs))
        buf.extend(vs)
        buf.append(0)
        encode_value(buf, vs, vp, e)
    struct.pack_into(e + 'I', buf, 12, len(buf) - start)
    _pad(buf, 8)
    return bytes(buf) + bytes(body)


# --------------------------------------------------------------------------
# decoder / validator

class _R:
    """Bounded reader over data[0:end]; positions are absolute (alignment base 0)."""
    __slots__ = ('d', 'p', 'end', 'e')

    def __init__(self, d, p, end, e):
        self.d, self.p, self.end, self.e = d, p, end, e

    def align(self, a):
        q = (self.p + a - 1) // a * a
        if q > self.end:
            raise Invalid('body.truncated')
        for i in range(self.p, q):
            if self.d[i] != 0:
                raise Invalid('padding.not-nul')
        self.p = q

    def take(self, n):
        if self.p + n > self.end:
            raise Invalid('body.truncated')
        b = self.d[self.p:self.p + n]
        self.p += n
        return b

    def u32(self):
        self.align(4)
        return struct.unpack(self.e + 'I', self.take(4))[0]


def _decode_sigstr(r: _R):
    n = r.take(1)[0]
    s = bytes(r.take(n))
    if r.take(1)[0] != 0:
        raise Invalid('signature.missing-nul')
    return s


def decode_value(r: _R, sig: bytes, depth: int):
    """Decode one single complete type; depth = number of enclosing containers."""
    c = sig[0]
    if c in _INT_FMT:
        a = G.ALIGN[c]
        r.align(a)
        v = struct.unpack(r.e + _INT_FMT[c], r.take(a))[0]
        if c == ord('b') and v not in (0, 1):
            raise Invalid('bool.not-0-or-1')
        return (sig, v)
    if c in (ord('s'), ord('o')):
        n = r.u32()
        if n > r.end - r.p:
            raise Invalid('string.length-out-of-bounds')
        s = bytes(r.take(n))
        if r.p >= r.end:
            raise Invalid('body.truncated')
        if r.take(1)[0] != 0:
            raise Invalid('string.missing-nul')
        if c == ord('s'):
            if not G.valid_utf8(s):
                raise Invalid('string.bad-utf8')
        else:
            if not G.valid_path(s):
                raise Invalid('path.bad')
        return (sig, s)
    if c == ord('g'):
        s = _decode_sigstr(r)
        reason = G.sig_reason(s)
        if reason:
            raise Invalid(reason)
        return (sig, s)
    if depth + 1 > 64:
        if c == ord('a'):
            # an EMPTY array nested deeper than 64 holds no value at that depth: whether the
            # "total message depth" rule applies is not stated -> unspecified, not judged
            n0 = r.u32()
            if n0 == 0:
                raise Invalid('gray.empty-array-beyond-depth-64')
        raise Invalid('nesting.too-deep')
    if c == ord('v'):
        s = _decode_sigstr(r)
        reason = G.sig_reason(s)
        if reason:
            raise Invalid('variant.' + reason)
        parts = G.split_signature(s)
        if len(parts) != 1:
            raise Invalid('variant.sig-not-single')
        return (sig, decode_value(r, s, depth + 1))
    if c == ord('a'):
        esig = sig[1:]
        n = r.u32()
        r.align(G.ALIGN[esig[0]])
        if n > MAX_ARRAY:
            raise Invalid('array.too-long')
        if n > r.end - r.p:
            raise Invalid('array.length-out-of-bounds')
        fs = G.FIXED_SIZE.get(esig[0])
        if fs is not None and n % fs != 0:
            raise Invalid('array.fixed-len-not-multiple')
        sub = _R(r.d, r.p, r.p + n, r.e)
        out = []
        while sub.p < sub.end:
            out.append(decode_value(sub, esig, depth + 1))
        if sub.p != sub.end:
            raise Invalid('array.length-incorrect')
        r.p = sub.end
        return (sig, out)
    if c in (ord('('), ord('{')):
        r.align(8)
        inner = G.split_signature(sig[1:-1])
        out = [decode_value(r, s2, depth + 1) for s2 in inner]
        return (sig, out)
    raise Invalid('sig.unknown-typecode')


def _wrap_array_err(fn):
    return fn


def bytes_needed(data: bytes):
    """Length of the message claimed by the first 16 bytes, per the spec;
    raises Invalid for a fixed header that can never become valid, Incomplete if < 16 bytes."""
    if len(data) < 16:
        raise Incomplete()
    if data[0] == ord('l'):
        e = '<'
    elif data[0] == ord('B'):
        e = '>'
    else:
        raise Invalid('header.bad-byte-order')
    body_len, serial, flen = struct.unpack(e + 'III', data[4:16])
    if flen > MAX_ARRAY:
        raise Invalid('header.fields-array-too-long')
    if body_len > MAX_MESSAGE:
        raise Invalid('message.too-long')
    hlen = (16 + flen + 7) // 8 * 8
    if hlen + body_len > MAX_MESSAGE:
        raise Invalid('message.too-long')
    return hlen + body_len


def decode_message(data: bytes, fds_available: int = 0, exact=True, mandatory=True) -> Msg:
    """Decode the message at the start of data.  exact=True demands that data
    is exactly one message.  Raises Invalid(reason) / Incomplete."""
    total = bytes_needed(data)
    if len(data) < total:
        raise Incomplete()
    if exact and len(data) != total:
        raise Invalid('trailing-bytes')
    e = '<' if data[0] == ord('l') else '>'
    mtype, flags, version = data[1], data[2], data[3]
    body_len, serial, flen = struct.unpack(e + 'III', data[4:16])
    hlen = (16 + flen + 7) // 8 * 8
    # fields array: elements are structs (8-aligned); 16 is already 8-aligned
    r = _R(data, 16, 16 + flen, e)
    fields = []
    try:
        while r.p < r.end:
            r.align(8)
            if r.p >= r.end:
                # padding up to the end of the array without an element: the array
                # length then does not end at an element boundary
                raise Invalid('array.length-incorrect')
            code = r.take(1)[0]
            vs = _decode_sigstr(r)
            reason = G.sig_reason(vs)
            if reason:
                raise Invalid('variant.' + reason)
            if len(G.split_signature(vs)) != 1:
                raise Invalid('variant.sig-not-single')
            val = decode_value(r, vs, 3)   # array > struct > variant
            fields.append((code, val))
    except Invalid as x:
        if x.reason == 'body.truncated':
            raise Invalid('header.field-crosses-array-end')
        raise
    for i in range(16 + flen, hlen):
        if data[i] != 0:
            raise Invalid('padding.not-nul')
    if mtype == 0:
        raise Invalid('header.bad-message-type')
    if version != 1:
        raise Invalid('header.bad-protocol-version')
    if serial == 0:
        raise Invalid('header.bad-serial')
    seen = set()
    for code, (vs, vp) in fields:
        if code == 0:
            raise Invalid('header.field-code-0')
        if code > 10:
            continue
        if vs != FIELD_TYPE[code]:
            if code == F_CONTAINER_INSTANCE:
                # field 10 is defined by dbus-protocol.h but not by the specification text
                raise Invalid('gray.field10-type')
            raise Invalid('header.field-wrong-type')
        if code in seen:
            raise Invalid('header.field-twice')
        seen.add(code)
        if code == F_INTERFACE:
            if not G.valid_interface(vp):
                raise Invalid('header.bad-interface')
            if vp == LOCAL_IFACE:
                raise Invalid('header.local-interface')
        elif code == F_MEMBER:
            if not G.valid_member(vp):
                raise Invalid('header.bad-member')
        elif code == F_ERROR_NAME:
            if not G.valid_error_name(vp):
                raise Invalid('header.bad-error-name')
        elif code == F_DESTINATION:
            if not G.valid_bus_name(vp):
                raise Invalid('header.bad-destination:' + str(G.why_invalid('bus', vp)))
        elif code == F_SENDER:
            if not G.valid_bus_name(vp):
                raise Invalid('header.bad-sender:' + str(G.why_invalid('bus', vp)))
        elif code == F_PATH:
            if vp == LOCAL_PATH:
                raise Invalid('header.local-path')
        elif code == F_REPLY_SERIAL:
            if vp == 0:
                raise Invalid('header.bad-reply-serial')
    req = {MT_CALL: (F_PATH, F_MEMBER), MT_SIGNAL: (F_INTERFACE, F_PATH, F_MEMBER),
           MT_ERROR: (F_ERROR_NAME, F_REPLY_SERIAL), MT_RETURN: (F_REPLY_SERIAL,)}.get(mtype, ())
    for f in req:
        if mandatory and f not in seen:
            raise Invalid('header.missing-' + FIELD_NAME[f])
    m = Msg(mtype, flags, serial, fields, [], 'l' if e == '<' else 'B', version)
    m.body_len = body_len
    bsig = m.signature
    if m.unix_fds > fds_available:
        raise Invalid('fds.missing')
    # body
    rb = _R(data, hlen, hlen + body_len, e)
    for s in G.split_signature(bsig):
        if rb.p >= rb.end:
            raise Invalid('body.truncated')
        m.body.append(decode_value(rb, s, 0))
    if rb.p != rb.end:
        raise Invalid('body.too-much-data')
    return m


def decode_lenient(data: bytes):
    """Well-formedness only: like decode_message but without the mandatory-field rule; None if malformed."""
    try:
        return decode_message(data, 1 << 30, True, mandatory=False)
    except (Invalid, Incomplete):
        return None


def try_decode(data: bytes, fds_available=0, exact=True):
    """-> ('ok', Msg) | ('invalid', reason) | ('incomplete', None)"""
    try:
        return ('ok', decode_message(data, fds_available, exact))
    except Invalid as x:
        return ('invalid', x.reason)
    except Incomplete:
        return ('incomplete', None)


def judged_decode(data: bytes, fds_available=0, exact=True):
    """try_decode under both readings of the dict-entry nesting rule;
    -> ('gray', why) when the specification does not decide the input."""
    G.STRICT = True
    try:
        a = try_decode(data, fds_available, exact)
        G.STRICT = False
        b = try_decode(data, fds_available, exact)
    finally:
        G.STRICT = True
    if a[0] == 'invalid' and a[1].startswith('gray.'):
        return ('gray', a[1])
    if a[0] != b[0]:
        return ('gray', 'dict-entry-depth-reading')
    return a


def split_stream(data: bytes, fds_available=0):
    """Split a byte stream into messages the way a conforming receiver must:
    -> (list of (Msg, raw bytes)), status) with status 'clean' | 'incomplete' | ('corrupt', reason)."""
    out = []
    pos = 0
    while pos < len(data):
        chunk = data[pos:]
        try:
            n = bytes_needed(chunk)
        except Incomplete:
            return out, 'incomplete'
        except Invalid as x:
            return out, ('corrupt', x.reason)
        if len(chunk) < n:
            return out, 'incomplete'
        try:
            m = decode_message(chunk[:n], fds_available)
        except Invalid as x:
            return out, ('corrupt', x.reason)
        out.append((m, chunk[:n]))
        pos += n
    return out, 'clean'


# --------------------------------------------------------------------------
# canonical text

def canon_value(v) -> str:
    sig, p = v
    c = sig[0]
    if c == ord('d'):
        return 'd:%016x' % p
    if c in _INT_FMT:
        return '%s:%d' % (chr(c), p)
    if c in (ord('s'), ord('o'), ord('g')):
        return '%s:%s' % (chr(c), p.hex())
    if c == ord('v'):
        return 'v:%s=%s' % (p[0].decode('latin-1'), canon_value(p))
    if c == ord('a'):
        return 'a%s[%s]' % (sig[1:].decode('latin-1'), ','.join(canon_value(x) for x in p))
    if c == ord('('):
        return '(%s)' % ','.join(canon_value(x) for x in p)
    if c == ord('{'):
        return '{%s}' % ','.join(canon_value(x) for x in p)
    raise ValueError(sig)


def _hx(b):
    return '-' if b is None else ('=' + b.hex())


def canon_msg(m: Msg, with_unknown=False) -> str:
    """The same line the harness prints for an accepted message (known fields only)."""
    parts = ['T=%d' % m.mtype, 'F=%d' % m.flags, 'S=%d' % m.serial]
    for code in (F_PATH, F_INTERFACE, F_MEMBER, F_ERROR_NAME, F_DESTINATION, F_SENDER):
        parts.append('%s%s' % (FIELD_NAME[code], _hx(m.field(code))))
    rs = m.field(F_REPLY_SERIAL)
    parts.append('rserial=%d' % (rs if rs is not None else 0))
    parts.append('sig=%s' % m.signature.decode('latin-1'))
    parts.append('cinst%s' % _hx(m.field(F_CONTAINER_INSTANCE)))
    if with_unknown:
        unk = [(c, v) for c, v in m.fields if c > 10]
        parts.append('unk=%s' % ';'.join('%d:%s' % (c, canon_value((b'v', v))) for c, v in unk))
    parts.append('body=[%s]' % ','.join(canon_value(v) for v in m.body))
    return ' '.join(parts)


# --------------------------------------------------------------------------
# small constructors used all over the checks

def S(x): return (b's', x if isinstance(x, bytes) else x.encode())
def O(x): return (b'o', x if isinstance(x, bytes) else x.encode())
def SIG(x): return (b'g', x if isinstance(x, bytes) else x.encode())
def U(x): return (b'u', x)
def I(x): return (b'i', x)
def Y(x): return (b'y', x)
def B(x): return (b'b', 1 if x else 0)
def H(x): return (b'h', x)
def V(v): return (b'v', v)
def A(esig, items):
    esig = esig if isinstance(esig, bytes) else esig.encode()
    return (b'a' + esig, list(items))
def ST(*items): return (b'(' + b''.join(i[0] for i in items) + b')', list(items))
def DE(k, v): return (b'{' + k[0] + v[0] + b'}', [k, v])


def _b(x):
    return x if isinstance(x, (bytes, type(None))) else x.encode()


def method_call(serial, dest, path, iface, member, body=(), flags=0, endian='l', sender=None):
    f = [(F_PATH, (b'o', _b(path)))]
    if iface is not None:
        f.append((F_INTERFACE, (b's', _b(iface))))
    f.append((F_MEMBER, (b's', _b(member))))
    if dest is not None:
        f.append((F_DESTINATION, (b's', _b(dest))))
    if sender is not None:
        f.append((F_SENDER, (b's', _b(sender))))
    return Msg(MT_CALL, flags, serial, f, list(body), endian)


def signal(serial, path, iface, member, body=(), dest=None, flags=0, endian='l', sender=None):
    f = [(F_PATH, (b'o', _b(path))), (F_INTERFACE, (b's', _b(iface))), (F_MEMBER, (b's', _b(member)))]
    if dest is not None:
        f.append((F_DESTINATION, (b's', _b(dest))))
    if sender is not None:
        f.append((F_SENDER, (b's', _b(sender))))
    return Msg(MT_SIGNAL, flags, serial, f, list(body), endian)


def method_return(serial, reply_serial, dest=None, body=(), flags=1, endian='l'):
    f = [(F_REPLY_SERIAL, (b'u', reply_serial))]
    if dest is not None:
        f.append((F_DESTINATION, (b's', _b(dest))))
    return Msg(MT_RETURN, flags, serial, f, list(body), endian)


def error(serial, reply_serial, name, dest=None, body=(), flags=1, endian='l'):
    f = [(F_ERROR_NAME, (b's', _b(name))), (F_REPLY_SERIAL, (b'u', reply_serial))]
    if dest is not None:
        f.append((F_DESTINATION, (b's', _b(dest))))
    return Msg(MT_ERROR, flags, serial, f, list(body), endian)


BUS = b'org.freedesktop.DBus'
BUS_PATH = b'/org/freedesktop/DBus'


def bus_call(serial, member, body=(), iface=BUS, path=BUS_PATH, flags=0):
    return method_call(serial, BUS, path, iface, member, body, flags)
