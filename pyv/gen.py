"""gen — finite generators of type trees, values, messages and corruptions,
ordered simplest-first.  Shared by C01, C02, C10, C11, C12."""
import itertools
import struct

from . import refdbus as R
from . import grammars as G

BASIC = [b'y', b'b', b'n', b'q', b'i', b'u', b'x', b't', b'd', b's', b'o', b'g', b'h']

VALUES = {
    b'y': [0, 255, 7],
    b'b': [1, 0],
    b'n': [-32768, 32767, -1],
    b'q': [65535, 0, 258],
    b'i': [-2 ** 31, 2 ** 31 - 1, -1, 0x01020304],
    b'u': [2 ** 32 - 1, 0, 0x01020304],
    b'x': [-2 ** 63, 2 ** 63 - 1, 0x0102030405060708],
    b't': [2 ** 64 - 1, 0, 0x0102030405060708],
    b'd': [0x7ff8000000000001, 0x8000000000000000, 0x3ff8000000000000, 0x7ff0000000000000, 0],
    b's': [b'', b'a', 'é'.encode(), '€'.encode(), '😀'.encode(), b'abcdefgh'],
    b'o': [b'/', b'/a', b'/a/b_0'],
    b'g': [b'', b'i', b'a{sv}', b'(ii)'],
    b'h': [0],
}


def types_of_depth(d, rich=False):
    """Single complete types whose container nesting depth is exactly d
    (variants count as depth 0 here; their contents vary in values_of)."""
    if d == 0:
        return BASIC + [b'v']
    prev = types_of_depth(d - 1, rich)
    out = []
    for t in prev:
        out.append(b'a' + t)
    for t in prev:
        out.append(b'(' + t + b')')
    keys = [b's', b'y', b'u'] if rich else [b's']
    for k in keys:
        for t in prev:
            out.append(b'a{' + k + t + b'}')
    # two-member structs mixing alignments
    partners = [b'y', b't', b's'] if rich else [b'y']
    for t in prev:
        for p in partners:
            out.append(b'(' + p + t + b')')
            if rich:
                out.append(b'(' + t + p + b')')
    return out


VARIANT_CONTENTS = [(b'i', 7), (b's', b'v'), (b'(yx)', [(b'y', 1), (b'x', -2)]), (b'ai', [(b'i', 1)]),
                    (b'v', (b'u', 5)), (b'a{sv}', [(b'{sv}', [(b's', b'k'), (b'v', (b'b', 1))])]), (b'ay', [])]


def values_of(sig, rich=False, nth=0):
    """A list of payloads for the single complete type sig (simplest first).
    rich=False -> one or two payloads; rich=True -> boundary set."""
    c = sig[:1]
    if c in VALUES:
        vs = VALUES[c]
        return vs if rich else vs[:1]
    if c == b'v':
        vs = VARIANT_CONTENTS if rich else VARIANT_CONTENTS[:2]
        return list(vs)
    if c == b'a':
        es = sig[1:]
        ev = values_of(es, rich)
        out = [[], [(es, ev[0])]]
        if len(ev) > 1:
            out.append([(es, ev[0]), (es, ev[-1])])
        else:
            out.append([(es, ev[0]), (es, ev[0])])
        if rich and len(ev) > 2:
            out.append([(es, v) for v in ev])
        return out
    if c in (b'(', b'{'):
        members = G.split_signature(sig[1:-1])
        lists = [values_of(m, rich) for m in members]
        out = [[(m, l[0]) for m, l in zip(members, lists)]]
        if rich:
            out.append([(m, l[-1]) for m, l in zip(members, lists)])
            for i, (m, l) in enumerate(zip(members, lists)):
                for v in l[1:-1][:2]:
                    row = [(mm, ll[0]) for mm, ll in zip(members, lists)]
                    row[i] = (m, v)
                    out.append(row)
        return out
    raise ValueError(sig)


def typed_values(depth, rich=False, rich_depth=1):
    """All (sig, payload) pairs for every type of nesting depth <= depth; types of depth
    <= rich_depth get the rich type constructors and the boundary value sets."""
    for d in range(depth + 1):
        r = bool(rich) and d <= rich_depth
        for t in types_of_depth(d, r):
            for v in values_of(t, r):
                yield (t, v)


def bodies(depth, rich=False, rich_depth=1):
    """Message bodies: [X], [y, X] (shifts alignment), and for rich [X, X2]."""
    for tv in typed_values(depth, rich, rich_depth):
        yield [tv]
        yield [(b'y', 1), tv]
        # a value FOLLOWING X: exposes a cursor left in the wrong place after X (e.g. after the padding of an empty array)
        yield [tv, (b'u', 0x11223344)]
        yield [tv, (b's', b'z')]
        yield [(b'y', 1), tv, (b'q', 0x1234), (b't', 0x0102030405060708)]
    if rich:
        firsts = [(b's', b'ab'), (b'ay', [(b'y', 1), (b'y', 2), (b'y', 3)]), (b'(y)', [(b'y', 9)])]
        for f in firsts:
            for tv in typed_values(1, False):
                yield [f, tv]


# ---- headers ---------------------------------------------------------------

def header_shapes(rich=False):
    """Yield Msg objects (empty body) over type x optional-field subsets x field orders x unknown fields x flags."""
    base = {
        R.MT_CALL: [(R.F_PATH, (b'o', b'/a/b')), (R.F_MEMBER, (b's', b'Mem'))],
        R.MT_RETURN: [(R.F_REPLY_SERIAL, (b'u', 5))],
        R.MT_ERROR: [(R.F_ERROR_NAME, (b's', b'a.b.Err')), (R.F_REPLY_SERIAL, (b'u', 5))],
        R.MT_SIGNAL: [(R.F_PATH, (b'o', b'/a')), (R.F_INTERFACE, (b's', b'a.b')), (R.F_MEMBER, (b's', b'Sig'))],
    }
    optional = [(R.F_DESTINATION, (b's', b':1.5')), (R.F_SENDER, (b's', b'a.b.c')),
                (R.F_INTERFACE, (b's', b'x.y')), (R.F_UNIX_FDS, (b'u', 0)), (R.F_CONTAINER_INSTANCE, (b'o', b'/c/i')),
                (R.F_SIGNATURE, (b'g', b''))]
    unknowns = [None, (11, (b's', b'zz')), (255, (b'(yv)', [(b'y', 1), (b'v', (b'i', 2))])), (200, (b'ay', []))]
    flags = [0, 1, 2, 4, 0xff] if rich else [0, 3]
    for mt in (R.MT_CALL, R.MT_RETURN, R.MT_ERROR, R.MT_SIGNAL, 5, 255):
        req = base.get(mt, [])
        opts = [o for o in optional if o[0] not in [c for c, _ in req]]
        for k in range(len(opts) + 1):
            for sub in itertools.combinations(opts, k):
                if not rich and k not in (0, 1, len(opts)):
                    continue
                fields = req + list(sub)
                for order in (fields, list(reversed(fields))):
                    for unk in unknowns if (rich or k <= 1) else unknowns[:2]:
                        f2 = list(order)
                        if unk is not None:
                            f2.insert(len(f2) // 2, unk)
                        for fl in flags if k == 0 else flags[:1]:
                            yield R.Msg(mt, fl, 0x01020304, f2, [])


def header_value_variants():
    """Messages probing header-field value rules (reserved names, grammar edges)."""
    out = []
    for iface in (b'a.b', b'org.freedesktop.DBus.Local', b'org.freedesktop.DBus.Localx', b'org.freedesktop.DBus.Loca',
                  b'org.freedesktop.DBus.Local.sub', b'a', b'a..b', b'a.1b', b'a.b-c'):
        out.append(R.Msg(R.MT_SIGNAL, 0, 1, [(R.F_PATH, (b'o', b'/a')), (R.F_INTERFACE, (b's', iface)), (R.F_MEMBER, (b's', b'M'))]))
    for path in (b'/org/freedesktop/DBus/Local', b'/org/freedesktop/DBus/Local/sub', b'/org/freedesktop/DBus/Localx',
                 b'/org/freedesktop/DBus/Loca', b'/', b'//', b'/a/', b''):
        out.append(R.Msg(R.MT_CALL, 0, 1, [(R.F_PATH, (b'o', path)), (R.F_MEMBER, (b's', b'M'))]))
    for member in (b'M', b'', b'a.b', b'1a', b'a' * 255, b'a' * 256):
        out.append(R.Msg(R.MT_CALL, 0, 1, [(R.F_PATH, (b'o', b'/a')), (R.F_MEMBER, (b's', member))]))
    for dest in (b'a.b', b':1.0', b':1', b':', b'a', b'.a.b', b'a.b' + b'c' * 252, b'a.b' + b'c' * 253, b'org.freedesktop.DBus'):
        out.append(R.Msg(R.MT_CALL, 0, 1, [(R.F_PATH, (b'o', b'/a')), (R.F_MEMBER, (b's', b'M')), (R.F_DESTINATION, (b's', dest))]))
        out.append(R.Msg(R.MT_CALL, 0, 1, [(R.F_PATH, (b'o', b'/a')), (R.F_MEMBER, (b's', b'M')), (R.F_SENDER, (b's', dest))]))
    for rs in (0, 1, 2 ** 32 - 1):
        out.append(R.Msg(R.MT_RETURN, 0, 1, [(R.F_REPLY_SERIAL, (b'u', rs))]))
    for serial in (0, 1, 2 ** 32 - 1):
        out.append(R.Msg(R.MT_RETURN, 0, serial, [(R.F_REPLY_SERIAL, (b'u', 1))]))
    for ver in (0, 1, 2):
        out.append(R.Msg(R.MT_RETURN, 0, 1, [(R.F_REPLY_SERIAL, (b'u', 1))], version=ver))
    # wrong types for known fields, code 0, duplicates, missing mandatory
    for code in range(0, 12):
        for val in ((b'u', 1), (b's', b'a.b'), (b'o', b'/a'), (b'g', b'i'), (b'y', 1), (b'v', (b'u', 1))):
            out.append(R.Msg(R.MT_CALL, 0, 1, [(R.F_PATH, (b'o', b'/a')), (R.F_MEMBER, (b's', b'M')), (code, val)]))
    for code, val in ((R.F_PATH, (b'o', b'/b')), (R.F_DESTINATION, (b's', b'a.b')), (R.F_UNIX_FDS, (b'u', 0)), (11, (b's', b'x'))):
        out.append(R.Msg(R.MT_CALL, 0, 1, [(R.F_PATH, (b'o', b'/a')), (R.F_MEMBER, (b's', b'M')), (R.F_DESTINATION, (b's', b'a.c')),
                                          (R.F_UNIX_FDS, (b'u', 0)), (11, (b's', b'y')), (code, val)]))
    for mt, fields in ((R.MT_CALL, [(R.F_PATH, (b'o', b'/a'))]), (R.MT_CALL, [(R.F_MEMBER, (b's', b'M'))]),
                       (R.MT_SIGNAL, [(R.F_PATH, (b'o', b'/a')), (R.F_MEMBER, (b's', b'M'))]),
                       (R.MT_ERROR, [(R.F_REPLY_SERIAL, (b'u', 1))]), (R.MT_ERROR, [(R.F_ERROR_NAME, (b's', b'a.b'))]),
                       (R.MT_RETURN, []), (0, [(R.F_REPLY_SERIAL, (b'u', 1))])):
        out.append(R.Msg(mt, 0, 1, fields))
    # unix fds announced but none attached
    out.append(R.Msg(R.MT_CALL, 0, 1, [(R.F_PATH, (b'o', b'/a')), (R.F_MEMBER, (b's', b'M')), (R.F_UNIX_FDS, (b'u', 1))]))
    # signature/body mismatches
    out.append(R.Msg(R.MT_CALL, 0, 1, [(R.F_PATH, (b'o', b'/a')), (R.F_MEMBER, (b's', b'M')), (R.F_SIGNATURE, (b'g', b'i'))]))
    out.append(R.Msg(R.MT_CALL, 0, 1, [(R.F_PATH, (b'o', b'/a')), (R.F_MEMBER, (b's', b'M')), (R.F_SIGNATURE, (b'g', b'u'))], [(b'i', 1)]))
    out.append(R.Msg(R.MT_CALL, 0, 1, [(R.F_PATH, (b'o', b'/a')), (R.F_MEMBER, (b's', b'M')), (R.F_SIGNATURE, (b'g', b'ii'))], [(b'i', 1)]))
    out.append(R.Msg(R.MT_CALL, 0, 1, [(R.F_PATH, (b'o', b'/a')), (R.F_MEMBER, (b's', b'M')), (R.F_SIGNATURE, (b'g', b''))], [(b'i', 1)]))
    return out


# ---- corruptions -----------------------------------------------------------

TYPE_CODES = b'ybnqiuxtdsoghva(){}er'


UTF8_SPLICES = [b'\xc3\xa9', b'\xc0\x80', b'\xc1\xbf', b'\xc2\x41', b'\xe0\x80\x80', b'\xe0\x9f\xbf', b'\xed\xa0\x80', b'\xed\x9f\xbf',
                b'\xef\xbf\xbe', b'\xf0\x80\x80\x80', b'\xf0\x8f\xbf\xbf', b'\xf4\x8f\xbf\xbf', b'\xf4\x90\x80\x80', b'\xf8\x88\x80\x80']


def byte_replacements(orig, rich=False):
    s = {0x00, 0x01, (orig + 1) & 0xff, (orig - 1) & 0xff, orig ^ 0x80, 0x7f, 0xff}
    if rich:
        s.update(TYPE_CODES)
        s.update({0x2f, 0x2e, 0x3a, 0x20, 0x08, 0x40})
    else:
        s.update(b'ias(){v')
    s.discard(orig)
    return sorted(s)


def single_site_corruptions(data: bytes, rich=False):
    """Yield (description, bytes) for every single-site corruption."""
    n = len(data)
    for off in range(n):
        for v in byte_replacements(data[off], rich):
            yield ('byte@%d=%02x' % (off, v), data[:off] + bytes([v]) + data[off + 1:])
    # multi-byte splices: one representative of every UTF-8 sequence class written over 2..4 bytes at every offset
    # (a single replaced byte cannot produce an overlong form, a surrogate or a code point above U+10FFFF)
    for off in range(16, n - 1):
        for seq in UTF8_SPLICES:
            if off + len(seq) <= n and data[off:off + len(seq)] != seq:
                yield ('utf8@%d=%s' % (off, seq.hex()), data[:off] + seq + data[off + len(seq):])
    # length words: every 4-aligned offset is treated as a potential length word
    e = '<' if data[:1] == b'l' else '>'
    for off in range(4, n - 3, 4):
        (cur,) = struct.unpack_from(e + 'I', data, off)
        for v in {0, cur + 1, cur - 1, cur + 4, cur - 4, cur + 8, 1 << 26, (1 << 26) + 1, 1 << 27, 0xffffffff, 0x7fffffff, 0x80000000}:
            if v < 0 or v > 0xffffffff or v == cur:
                continue
            yield ('u32@%d=%d' % (off, v), data[:off] + struct.pack(e + 'I', v) + data[off + 4:])
    for cut in range(n):
        yield ('trunc@%d' % cut, data[:cut])
    for extra in (b'\0', b'l', b'\0' * 7, b'\0' * 8, b'l\1\0\1' + b'\0' * 12, data[:16], data):
        yield ('extend+%d' % len(extra), data + extra)


def field_rearrangements(m: R.Msg):
    """Field deletion / duplication / reordering at the structural level."""
    f = m.fields
    for i in range(len(f)):
        m2 = m.copy()
        m2.fields = f[:i] + f[i + 1:]
        yield ('delfield%d' % i, m2)
        m2 = m.copy()
        m2.fields = f[:i + 1] + [f[i]] + f[i + 1:]
        yield ('dupfield%d' % i, m2)
    if len(f) > 1:
        m2 = m.copy()
        m2.fields = f[1:] + f[:1]
        yield ('rotfields', m2)


# ---- limit boundaries --------------------------------------------------------

def nested_variant_value(depth, inner=(b'i', 1)):
    v = inner
    for _ in range(depth):
        v = (b'v', v)
    return v


def limit_cases():
    """(description, bytes) for generated boundary messages (both sides of each limit)."""
    hdr = [(R.F_PATH, (b'o', b'/a')), (R.F_MEMBER, (b's', b'M'))]

    def mk(body, endian='l', sig=None):
        m = R.Msg(R.MT_CALL, 0, 1, list(hdr), body, endian)
        if sig is not None:
            m.fields.append((R.F_SIGNATURE, (b'g', sig)))
            return R.encode_message(m, auto_signature=False)
        return R.encode_message(m)
    out = []
    for e in ('l', 'B'):
        for d in (62, 63, 64, 65, 66):
            out.append(('variant-nest-%d-%s' % (d, e), mk([nested_variant_value(d)], e)))
        for d in (30, 31, 32, 33):
            # array nesting: value a^d i with one element chain
            sig = b'a' * d + b'i'
            val = (b'i', 1)
            s = b'i'
            for _ in range(d):
                s = b'a' + s
                val = (s, [val])
            out.append(('array-nest-%d-%s' % (d, e), mk([val], e)))
            sig2 = b'(' * d + b'i' + b')' * d
            val = (b'i', 1)
            s = b'i'
            for _ in range(d):
                s = b'(' + s + b')'
                val = (s, [val])
            out.append(('struct-nest-%d-%s' % (d, e), mk([val], e)))
            # 32 arrays + d structs inside variants to push total depth
        for d in (31, 32):
            # struct^d inside array^32  -> total 32+d ; plus k variants on top
            s = b'i'
            val = (b'i', 1)
            for _ in range(d):
                s = b'(' + s + b')'
                val = (s, [val])
            for _ in range(32):
                s = b'a' + s
                val = (s, [val])
            for k in (0, 1):
                vv = val
                for _ in range(k):
                    vv = (b'v', vv)
                out.append(('a32-s%d-v%d-%s' % (d, k, e), mk([vv], e)))
        # variants whose OWN signature is long: its one-byte length crosses 127/128 (a struct of n-2 bytes), alone,
        # behind other arguments and in front of one
        for n in (126, 127, 128, 129, 200, 255):
            st = (b'(' + b'y' * (n - 2) + b')', [(b'y', (i * 7 + 1) & 0xff) for i in range(n - 2)])
            out.append(('variant-sig-len-%d-%s' % (n, e), mk([(b'v', st)], e)))
            out.append(('variant-sig-len-%d-mid-%s' % (n, e), mk([(b'ay', [(b'y', 0xee)] * 150), (b'v', st), (b'u', 0x12345678)], e)))
        for n in (254, 255):
            out.append(('sig-len-%d-%s' % (n, e), mk([(b'i', 1)] * n, e)))
        out.append(('sig-len-255-g-%s' % e, mk([(b'g', b'i' * 255)], e)))
        for n in (254, 255, 256):
            m = R.Msg(R.MT_CALL, 0, 1, [(R.F_PATH, (b'o', b'/a')), (R.F_MEMBER, (b's', b'M' * n))], [], e)
            out.append(('member-len-%d-%s' % (n, e), R.encode_message(m)))
            m = R.Msg(R.MT_CALL, 0, 1, [(R.F_PATH, (b'o', b'/a')), (R.F_MEMBER, (b's', b'M')),
                                         (R.F_INTERFACE, (b's', b'a.' + b'b' * (n - 2)))], [], e)
            out.append(('iface-len-%d-%s' % (n, e), R.encode_message(m)))
        # fixed-size arrays whose byte length is not a multiple of the element size
        for es, size in ((b'n', 2), (b'i', 4), (b'u', 4), (b'b', 4), (b'x', 8), (b't', 8), (b'd', 8), (b'h', 4), (b'q', 2)):
            for nbytes in range(0, size * 2 + 1):
                fmt = '<' if e == 'l' else '>'
                m = R.Msg(R.MT_CALL, 0, 1, list(hdr) + [(R.F_SIGNATURE, (b'g', b'a' + es))], [], e)
                raw = bytearray(R.encode_message(m, auto_signature=False))
                body = bytearray(struct.pack(fmt + 'I', nbytes))
                while (len(body)) % size:
                    body.append(0)
                body.extend(b'\0' * nbytes)
                struct.pack_into(fmt + 'I', raw, 4, len(body))
                out.append(('fixed-array-%s-%dbytes-%s' % (es.decode(), nbytes, e), bytes(raw) + bytes(body)))
    return out


def big_array_message(nbytes, endian='l', elem=b'y'):
    """A message whose body is one array of nbytes bytes of element type elem (zeros)."""
    fmt = '<' if endian == 'l' else '>'
    hdr = [(R.F_PATH, (b'o', b'/a')), (R.F_MEMBER, (b's', b'M')), (R.F_SIGNATURE, (b'g', b'a' + elem))]
    m = R.Msg(R.MT_CALL, 0, 1, hdr, [], endian)
    raw = bytearray(R.encode_message(m, auto_signature=False))
    body = bytearray(struct.pack(fmt + 'I', nbytes))
    while len(body) % G.ALIGN[elem[0]]:
        body.append(0)
    blen = len(body) + nbytes
    struct.pack_into(fmt + 'I', raw, 4, blen)
    return bytes(raw) + bytes(body) + b'\0' * nbytes
