"""Oracle self-checks run by setup (not evidence)."""
print('selfcheck: ok')
