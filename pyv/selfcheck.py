"""Oracle self-checks run by `./build.sh setup` (not evidence).

The reference codec, the grammar predicates and the models are the judges of the
checks, so they are pinned here against vectors taken literally from the
D-Bus specification text (examples and explicit statements), independent of
libdbus.  A failure here means the ORACLE is wrong and aborts setup."""
import sys
import os

sys.path.insert(0, os.path.dirname(os.path.dirname(os.path.abspath(__file__))))
from pyv import grammars as G
from pyv import refdbus as R
from pyv.models import names as N
from pyv.models import matchrules as MR

fails = []
count = [0]


def expect(cond, what):
    count[0] += 1
    if not cond:
        fails.append(what)


# --- grammars: statements of the specification ---------------------------------
for b, ok in [(b'org.freedesktop.DBus', True), (b'a.b', True), (b'a', False), (b'', False), (b'.a.b', False), (b'a..b', False),
              (b'a.b.', False), (b'a.1b', False), (b'a-b.c', False), (b'_a._1', True), (b'a.' + b'b' * 253, True), (b'a.' + b'b' * 254, False)]:
    expect(G.valid_interface(b) == ok, 'interface %r' % b)
for b, ok in [(b'Frob', True), (b'', False), (b'a.b', False), (b'1a', False), (b'a1_', True), (b'a' * 255, True), (b'a' * 256, False), (b'a-b', False)]:
    expect(G.valid_member(b) == ok, 'member %r' % b)
for b, ok in [(b':1.42', True), (b':a.b-c._', True), (b':1', False), (b':', False), (b':.a', False), (b':a..b', False), (b'com.example-x.y', True),
              (b'com.1example', False), (b'com', False), (b'a.b', True), (b':1.2.', False)]:
    expect(G.valid_bus_name(b) == ok, 'bus name %r' % b)
for b, ok in [(b'/', True), (b'/a', True), (b'/a/b_1', True), (b'', False), (b'a', False), (b'/a/', False), (b'//', False), (b'/a//b', False), (b'/a-b', False), (b'/a.b', False)]:
    expect(G.valid_path(b) == ok, 'path %r' % b)
for b, ok in [(b'', True), (b'i', True), (b'ii', True), (b'a{sv}', True), (b'(i)', True), (b'()', False), (b'a', False), (b'{sv}', False), (b'a{vs}', False),
              (b'a{s}', False), (b'a{sii}', False), (b'(i', False), (b'i)', False), (b'(ia{i)}', False), (b'(a{i)i}', False), (b'a' * 32 + b'i', True), (b'a' * 33 + b'i', False),
              (b'(' * 32 + b'i' + b')' * 32, True), (b'(' * 33 + b'i' + b')' * 33, False), (b'i' * 255, True), (b'i' * 256, False), (b'z', False), (b'r', False), (b'e', False)]:
    expect(G.valid_signature(b) == ok, 'signature %r' % b[:40])
for b, ok in [(b'abc', True), (b'\xc3\xa9', True), (b'\xc0\x80', False), (b'\xed\xa0\x80', False), (b'\xf4\x8f\xbf\xbf', True), (b'\xf4\x90\x80\x80', False),
              (b'\xef\xbf\xbe', True), (b'\x80', False), (b'\xe2\x82', False), (b'a\x00b', False)]:
    expect(G.valid_utf8(b) == ok, 'utf8 %r' % b)

# --- codec: the specification's marshalling rules on a hand-computed message ------
m = R.method_call(1, 'a.b', '/p', 'c.d', 'M', body=[R.U(7), R.S('x')])
raw = R.encode_message(m)
expect(raw[:4] == b'l\x01\x00\x01', 'fixed header start')
expect(int.from_bytes(raw[4:8], 'little') == 4 + 4 + 2, 'body length: u at 0, string length at 4, 1 char + NUL')
expect(int.from_bytes(raw[8:12], 'little') == 1, 'serial')
hl = int.from_bytes(raw[12:16], 'little')
expect((16 + hl + 7) // 8 * 8 + 10 == len(raw), 'header padded to 8, body not padded')
d = R.decode_message(raw)
expect(R.canon_msg(d) == R.canon_msg(m).replace('sig= ', 'sig=us '), 'decode(encode(m)) == m (the encoder fills in SIGNATURE)')
big = R.encode_message(R.method_call(1, 'a.b', '/p', 'c.d', 'M', body=[R.U(7), R.S('x')], endian='B'))
expect(big[0:1] == b'B', 'big endian flag')
expect([R.canon_value(x) for x in R.decode_message(big).body] == [R.canon_value(x) for x in d.body], 'same body in both byte orders')
for bad, why in [(raw[:-1], 'truncated'), (raw + b'\0', 'trailing byte'), (b'x' + raw[1:], 'bad endian flag'), (raw[:1] + b'\x00' + raw[2:], 'type 0 invalid'),
                 (raw[:3] + b'\x02' + raw[4:], 'wrong protocol version'), (raw[:8] + b'\0\0\0\0' + raw[12:], 'serial 0')]:
    expect(R.try_decode(bad)[0] in ('invalid', 'incomplete'), 'reference must reject: ' + why)
# alignment: a struct containing a 64-bit value after a byte starts at 8
v = R.ST(R.Y(1), (b't', 5))
buf = bytearray()
R.encode_value(buf, v[0], v[1], '<')
expect(len(buf) == 16 and buf[8] == 5, 'struct (yt) = 1 byte, 7 padding, 8 bytes')
# arrays: the length does not include the padding to the first element
buf = bytearray()
R.encode_value(buf, b'at', [(b't', 5)], '<')
expect(int.from_bytes(buf[0:4], 'little') == 8 and len(buf) == 16, 'array of uint64: length 8, 4 padding bytes not counted')

# --- names model: the sentences of RequestName / ReleaseName -----------------------
r = N.Registry()
expect(r.request('A', b'n.x', 0)[0] == N.PRIMARY_OWNER, 'first requester becomes primary owner')
expect(r.request('A', b'n.x', 0)[0] == N.ALREADY_OWNER, 'owner requesting again: ALREADY_OWNER')
expect(r.request('B', b'n.x', 0)[0] == N.IN_QUEUE and r.queued(b'n.x') == ['A', 'B'], 'second requester queued')
expect(r.request('C', b'n.x', N.DO_NOT_QUEUE)[0] == N.EXISTS and r.queued(b'n.x') == ['A', 'B'], 'DO_NOT_QUEUE: EXISTS, not queued')
expect(r.request('C', b'n.x', N.REPLACE_EXISTING)[0] == N.IN_QUEUE, 'REPLACE_EXISTING without ALLOW_REPLACEMENT on the owner: queued')
expect(r.release('B', b'n.x')[0] == N.RELEASED and 'B' not in r.queued(b'n.x'), 'queued connection may release')
expect(r.release('Z', b'n.x')[0] == N.NOT_OWNER and r.release('Z', b'n.y')[0] == N.NON_EXISTENT, 'release replies')
r2 = N.Registry()
r2.request('A', b'n.x', N.ALLOW_REPLACEMENT)
code, sig = r2.request('B', b'n.x', N.REPLACE_EXISTING)
expect(code == N.PRIMARY_OWNER and r2.queued(b'n.x') == ['B', 'A'], 'replacement: old owner goes to the queue behind the new one')
expect(('A', b'n.x') in sig.lost and ('B', b'n.x') in sig.acquired and (b'n.x', 'A', 'B') in sig.changed, 'replacement signals')
r3 = N.Registry()
r3.request('A', b'n.x', N.ALLOW_REPLACEMENT | N.DO_NOT_QUEUE)
r3.request('B', b'n.x', N.REPLACE_EXISTING)
expect(r3.queued(b'n.x') == ['B'], 'replaced owner with DO_NOT_QUEUE leaves the queue')

# --- match rules: grammar and semantics stated in the specification -------------------
for text, verdict in [(b"type='signal'", 'valid'), (b"type='signal',sender='a.b',interface='c.d',member='M',path='/p'", 'valid'), (b"type='bogus'", 'invalid'),
                      (b"arg0='x',arg63='y'", 'valid'), (b"arg64='x'", 'invalid'), (b"path='/a',path_namespace='/a'", 'invalid'), (b"foo='bar'", 'invalid'),
                      (b"interface='nodots'", 'invalid'), (b"arg0namespace='a.b'", 'valid'), (b"arg0namespace='a..b'", 'invalid'), (b"=x", 'invalid')]:
    got = MR.parse(text)[0]
    expect(got == verdict, 'match rule %r: %s (expected %s)' % (text, got, verdict))

if fails:
    print('selfcheck: ORACLE FAILURES')
    for f in fails:
        print('  -', f)
    sys.exit(1)
print('selfcheck: ok (%d oracle vectors)' % count[0])
