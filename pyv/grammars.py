"""Independent grammar predicates, transcribed from doc/dbus-specification.xml.

All predicates take *bytes*.  They never call libdbus.
"""
import re

MAX_NAME = 255
MAX_SIG = 255

_ELEM = rb'[A-Za-z_][A-Za-z0-9_]*'
_ELEM_BUS = rb'[A-Za-z_\-][A-Za-z0-9_\-]*'
_ELEM_UNIQ = rb'[A-Za-z0-9_\-]+'

_RE_INTERFACE = re.compile(rb'\A' + _ELEM + rb'(?:\.' + _ELEM + rb')+\Z')
_RE_MEMBER = re.compile(rb'\A' + _ELEM + rb'\Z')
_RE_WELLKNOWN = re.compile(rb'\A' + _ELEM_BUS + rb'(?:\.' + _ELEM_BUS + rb')+\Z')
# unique names: ':' then >= 2 non-empty elements, elements may start with a digit
_RE_UNIQUE = re.compile(rb'\A:' + _ELEM_UNIQ + rb'(?:\.' + _ELEM_UNIQ + rb')+\Z')
_RE_PATH = re.compile(rb'\A(?:/|(?:/[A-Za-z0-9_]+)+)\Z')


def valid_interface(b: bytes) -> bool:
    return len(b) <= MAX_NAME and _RE_INTERFACE.match(b) is not None


def valid_error_name(b: bytes) -> bool:
    return valid_interface(b)


def valid_member(b: bytes) -> bool:
    return 1 <= len(b) <= MAX_NAME and _RE_MEMBER.match(b) is not None


def valid_unique_name(b: bytes) -> bool:
    return len(b) <= MAX_NAME and _RE_UNIQUE.match(b) is not None


def valid_wellknown_name(b: bytes) -> bool:
    return len(b) <= MAX_NAME and _RE_WELLKNOWN.match(b) is not None


def valid_bus_name(b: bytes) -> bool:
    if b[:1] == b':':
        return valid_unique_name(b)
    return valid_wellknown_name(b)


def valid_path(b: bytes) -> bool:
    # no length limit for object paths in the specification
    return _RE_PATH.match(b) is not None


def valid_utf8(b: bytes) -> bool:
    """Valid UTF-8 per the spec's STRING definition: well-formed Unicode
    (no surrogates, <= U+10FFFF, shortest form), and no NUL bytes.
    Noncharacters are allowed (spec: 'noncharacters are allowed since 0.21')."""
    i, n = 0, len(b)
    while i < n:
        c = b[i]
        if c == 0:
            return False
        if c < 0x80:
            i += 1
            continue
        if 0xC2 <= c <= 0xDF:
            need, lo, hi = 1, 0x80, 0xBF
        elif c == 0xE0:
            need, lo, hi = 2, 0xA0, 0xBF
        elif 0xE1 <= c <= 0xEC or 0xEE <= c <= 0xEF:
            need, lo, hi = 2, 0x80, 0xBF
        elif c == 0xED:
            need, lo, hi = 2, 0x80, 0x9F
        elif c == 0xF0:
            need, lo, hi = 3, 0x90, 0xBF
        elif 0xF1 <= c <= 0xF3:
            need, lo, hi = 3, 0x80, 0xBF
        elif c == 0xF4:
            need, lo, hi = 3, 0x80, 0x8F
        else:
            return False
        if i + need > n - 1:
            return False
        if not (lo <= b[i + 1] <= hi):
            return False
        for k in range(2, need + 1):
            if not (0x80 <= b[i + k] <= 0xBF):
                return False
        i += need + 1
    return True


BASIC = b'ybnqiuxtdsogh'
FIXED_SIZE = {ord('y'): 1, ord('b'): 4, ord('n'): 2, ord('q'): 2, ord('i'): 4, ord('u'): 4,
              ord('x'): 8, ord('t'): 8, ord('d'): 8, ord('h'): 4}
ALIGN = {ord('y'): 1, ord('b'): 4, ord('n'): 2, ord('q'): 2, ord('i'): 4, ord('u'): 4,
         ord('x'): 8, ord('t'): 8, ord('d'): 8, ord('h'): 4, ord('s'): 4, ord('o'): 4,
         ord('g'): 1, ord('v'): 1, ord('a'): 4, ord('('): 8, ord('{'): 8}


class SigError(Exception):
    def __init__(self, reason):
        Exception.__init__(self, reason)
        self.reason = reason


def _parse_single(sig: bytes, pos: int, adepth: int, sdepth: int) -> int:
    """Parse one single complete type starting at pos; return position after it.
    adepth = array nesting so far, sdepth = struct/dict-entry nesting so far."""
    if pos >= len(sig):
        raise SigError('sig.missing-type')
    c = sig[pos]
    if c in BASIC or c == ord('v'):
        return pos + 1
    if c == ord('a'):
        if adepth + 1 > 32:
            raise SigError('sig.array-depth')
        if pos + 1 >= len(sig):
            raise SigError('sig.array-no-element')
        if sig[pos + 1] == ord('{'):
            return _parse_dict(sig, pos + 1, adepth + 1, sdepth)
        return _parse_single(sig, pos + 1, adepth + 1, sdepth)
    if c == ord('('):
        if sdepth + 1 > 32:
            raise SigError('sig.struct-depth')
        p = pos + 1
        if p < len(sig) and sig[p] == ord(')'):
            raise SigError('sig.empty-struct')
        while True:
            if p >= len(sig):
                raise SigError('sig.struct-unterminated')
            if sig[p] == ord(')'):
                return p + 1
            p = _parse_single(sig, p, adepth, sdepth + 1)
    if c == ord('{'):
        raise SigError('sig.dict-not-in-array')
    if c == ord(')'):
        raise SigError('sig.bracket-mismatch')
    if c == ord('}'):
        raise SigError('sig.bracket-mismatch')
    raise SigError('sig.unknown-typecode')


def _parse_dict(sig, pos, adepth, sdepth):
    # sig[pos] == '{'
    if sdepth + 1 > 32:
        raise SigError('sig.struct-depth')
    p = pos + 1
    if p >= len(sig):
        raise SigError('sig.dict-unterminated')
    if sig[p] == ord('}'):
        raise SigError('sig.dict-arity')
    if not (sig[p] in BASIC):
        raise SigError('sig.dict-key-not-basic')
    p += 1
    if p >= len(sig):
        raise SigError('sig.dict-unterminated')
    if sig[p] == ord('}'):
        raise SigError('sig.dict-arity')
    p = _parse_single(sig, p, adepth, sdepth + 1)
    if p >= len(sig):
        raise SigError('sig.dict-unterminated')
    if sig[p] != ord('}'):
        if sig[p] == ord(')'):
            raise SigError('sig.bracket-mismatch')
        raise SigError('sig.dict-arity')
    return p + 1


def split_signature(sig: bytes):
    """Return the list of single complete types, or raise SigError."""
    if len(sig) > MAX_SIG:
        raise SigError('sig.too-long')
    out = []
    p = 0
    while p < len(sig):
        q = _parse_single(sig, p, 0, 0)
        out.append(sig[p:q])
        p = q
    return out


def sig_reason(sig: bytes):
    try:
        split_signature(sig)
        return None
    except SigError as e:
        return e.reason


def valid_signature(sig: bytes) -> bool:
    return sig_reason(sig) is None


def valid_single_signature(sig: bytes) -> bool:
    try:
        return len(split_signature(sig)) == 1
    except SigError:
        return False
