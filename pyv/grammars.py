"""Independent grammar predicates, transcribed from doc/dbus-specification.xml.

All predicates take *bytes*.  They never call libdbus.
"""
import re

MAX_NAME = 255
MAX_SIG = 255

_ELEM = rb'[A-Za-z_][A-Za-z0-9_]*'
_ELEM_BUS = rb'[A-Za-z_\-][A-Za-z0-9_\-]*'
_ELEM_UNIQ = rb'[A-Za-z0-9_\-]+'

_RE_INTERFACE = re.compile(rb'\A' + _ELEM + rb'(?:\.' + _ELEM + rb')+\Z')
_RE_MEMBER = re.compile(rb'\A' + _ELEM + rb'\Z')
_RE_WELLKNOWN = re.compile(rb'\A' + _ELEM_BUS + rb'(?:\.' + _ELEM_BUS + rb')+\Z')
# unique names: ':' then >= 2 non-empty elements, elements may start with a digit
_RE_UNIQUE = re.compile(rb'\A:' + _ELEM_UNIQ + rb'(?:\.' + _ELEM_UNIQ + rb')+\Z')
_RE_PATH = re.compile(rb'\A(?:/|(?:/[A-Za-z0-9_]+)+)\Z')


def valid_interface(b: bytes) -> bool:
    return len(b) <= MAX_NAME and _RE_INTERFACE.match(b) is not None


def valid_error_name(b: bytes) -> bool:
    return valid_interface(b)


def valid_member(b: bytes) -> bool:
    return 1 <= len(b) <= MAX_NAME and _RE_MEMBER.match(b) is not None


def valid_unique_name(b: bytes) -> bool:
    return len(b) <= MAX_NAME and _RE_UNIQUE.match(b) is not None


def valid_wellknown_name(b: bytes) -> bool:
    return len(b) <= MAX_NAME and _RE_WELLKNOWN.match(b) is not None


def valid_bus_name(b: bytes) -> bool:
    if b[:1] == b':':
        return valid_unique_name(b)
    return valid_wellknown_name(b)


def valid_path(b: bytes) -> bool:
    # no length limit for object paths in the specification
    return _RE_PATH.match(b) is not None


def valid_utf8(b: bytes) -> bool:
    """Valid UTF-8 per the spec's STRING definition: well-formed Unicode
    (no surrogates, <= U+10FFFF, shortest form), and no NUL bytes.
    Noncharacters are allowed (spec: 'noncharacters are allowed since 0.21')."""
    i, n = 0, len(b)
    while i < n:
        c = b[i]
        if c == 0:
            return False
        if c < 0x80:
            i += 1
            continue
        if 0xC2 <= c <= 0xDF:
            need, lo, hi = 1, 0x80, 0xBF
        elif c == 0xE0:
            need, lo, hi = 2, 0xA0, 0xBF
        elif 0xE1 <= c <= 0xEC or 0xEE <= c <= 0xEF:
            need, lo, hi = 2, 0x80, 0xBF
        elif c == 0xED:
            need, lo, hi = 2, 0x80, 0x9F
        elif c == 0xF0:
            need, lo, hi = 3, 0x90, 0xBF
        elif 0xF1 <= c <= 0xF3:
            need, lo, hi = 3, 0x80, 0xBF
        elif c == 0xF4:
            need, lo, hi = 3, 0x80, 0x8F
        else:
            return False
        if i + need > n - 1:
            return False
        if not (lo <= b[i + 1] <= hi):
            return False
        for k in range(2, need + 1):
            if not (0x80 <= b[i + k] <= 0xBF):
                return False
        i += need + 1
    return True


BASIC = b'ybnqiuxtdsogh'
FIXED_SIZE = {ord('y'): 1, ord('b'): 4, ord('n'): 2, ord('q'): 2, ord('i'): 4, ord('u'): 4,
              ord('x'): 8, ord('t'): 8, ord('d'): 8, ord('h'): 4}
ALIGN = {ord('y'): 1, ord('b'): 4, ord('n'): 2, ord('q'): 2, ord('i'): 4, ord('u'): 4,
         ord('x'): 8, ord('t'): 8, ord('d'): 8, ord('h'): 4, ord('s'): 4, ord('o'): 4,
         ord('g'): 1, ord('v'): 1, ord('a'): 4, ord('('): 8, ord('{'): 8}


class SigError(Exception):
    def __init__(self, reason):
        Exception.__init__(self, reason)
        self.reason = reason


def _parse_single(sig: bytes, pos: int, adepth: int, sdepth: int, ddepth: int = 0, strict: bool = True) -> int:
    """Parse one single complete type starting at pos; return position after it.
    adepth = array nesting so far, sdepth = struct/dict-entry nesting so far."""
    if pos >= len(sig):
        raise SigError('sig.missing-type')
    c = sig[pos]
    if c in BASIC or c == ord('v'):
        return pos + 1
    if c == ord('a'):
        if adepth + 1 > 32:
            raise SigError('sig.array-depth')
        if pos + 1 >= len(sig):
            raise SigError('sig.array-no-element')
        if sig[pos + 1] == ord('{'):
            return _parse_dict(sig, pos + 1, adepth + 1, sdepth, ddepth, strict)
        return _parse_single(sig, pos + 1, adepth + 1, sdepth, ddepth, strict)
    if c == ord('('):
        if sdepth + 1 > 32:
            raise SigError('sig.struct-depth')
        p = pos + 1
        if p < len(sig) and sig[p] == ord(')'):
            raise SigError('sig.empty-struct')
        while True:
            if p >= len(sig):
                raise SigError('sig.struct-unterminated')
            if sig[p] == ord(')'):
                return p + 1
            p = _parse_single(sig, p, adepth, sdepth + 1, ddepth, strict)
    if c == ord('{'):
        raise SigError('sig.dict-not-in-array')
    if c == ord(')'):
        raise SigError('sig.bracket-mismatch')
    if c == ord('}'):
        raise SigError('sig.bracket-mismatch')
    raise SigError('sig.unknown-typecode')


def _parse_dict(sig, pos, adepth, sdepth, ddepth, strict):
    # sig[pos] == '{'.  "A DICT_ENTRY works exactly like a struct": under the strict reading
    # it counts towards the 32 "open parentheses"; under the lenient reading it has its own
    # limit of 32 (the text only names parentheses).  Signatures on which the two readings
    # differ are reported as unspecified (see is_gray).
    if strict:
        if sdepth + 1 > 32:
            raise SigError('sig.struct-depth')
        sdepth += 1
    else:
        if ddepth + 1 > 32:
            raise SigError('sig.struct-depth')
        ddepth += 1
    p = pos + 1
    if p >= len(sig):
        raise SigError('sig.dict-unterminated')
    if sig[p] == ord('}'):
        raise SigError('sig.dict-arity')
    if not (sig[p] in BASIC):
        raise SigError('sig.dict-key-not-basic')
    p += 1
    if p >= len(sig):
        raise SigError('sig.dict-unterminated')
    if sig[p] == ord('}'):
        raise SigError('sig.dict-arity')
    p = _parse_single(sig, p, adepth, sdepth, ddepth, strict)
    if p >= len(sig):
        raise SigError('sig.dict-unterminated')
    if sig[p] != ord('}'):
        if sig[p] == ord(')'):
            raise SigError('sig.bracket-mismatch')
        raise SigError('sig.dict-arity')
    return p + 1


STRICT = True   # default reading of the dict-entry nesting rule (see _parse_dict)


def split_signature(sig: bytes, strict=None):
    """Return the list of single complete types, or raise SigError."""
    if strict is None:
        strict = STRICT
    if len(sig) > MAX_SIG:
        raise SigError('sig.too-long')
    out = []
    p = 0
    while p < len(sig):
        q = _parse_single(sig, p, 0, 0, 0, strict)
        out.append(sig[p:q])
        p = q
    return out


def sig_reason(sig: bytes):
    try:
        split_signature(sig)
        return None
    except SigError as e:
        return e.reason


def sig_is_gray(sig: bytes) -> bool:
    """True when the strict and the lenient reading of the nesting limit disagree."""
    if sig.count(b'{') == 0 or sig.count(b'(') + sig.count(b'{') <= 32:
        return False
    def ok(strict):
        try:
            split_signature(sig, strict)
            return True
        except SigError:
            return False
    return ok(True) != ok(False)


def valid_signature(sig: bytes) -> bool:
    return sig_reason(sig) is None


def valid_single_signature(sig: bytes) -> bool:
    try:
        return len(split_signature(sig)) == 1
    except SigError:
        return False


# --------------------------------------------------------------------------
# coarse "why invalid" reason codes (used only to fingerprint disagreements)

def _name_reason(b: bytes, allow_hyphen: bool, allow_digit_start: bool, min_elems: int):
    if len(b) == 0:
        return 'empty'
    if len(b) > MAX_NAME:
        return 'too-long'
    ok = b'ABCDEFGHIJKLMNOPQRSTUVWXYZabcdefghijklmnopqrstuvwxyz0123456789_' + (b'-' if allow_hyphen else b'')
    for ch in b:
        if ch != 0x2e and ch not in ok:
            return 'bad-char'
    elems = b.split(b'.')
    if any(len(e) == 0 for e in elems):
        return 'empty-element'
    if len(elems) < min_elems:
        return 'too-few-elements'
    if not allow_digit_start and any(e[0:1].isdigit() for e in elems):
        return 'digit-start'
    return None


def why_invalid(kind: str, b: bytes):
    """None if valid, else a coarse stable reason code."""
    if kind in ('iface', 'error'):
        return _name_reason(b, False, False, 2)
    if kind == 'member':
        if b'.' in b:
            return 'bad-char' if len(b) else 'empty'
        return _name_reason(b, False, False, 1)
    if kind == 'bus':
        if b[:1] == b':':
            r = _name_reason(b[1:], True, True, 2)
            if len(b) > MAX_NAME:
                return 'too-long'
            if r in ('empty', 'empty-element', 'too-few-elements'):
                return 'unique-name-elements'   # one defect class: ':' + fewer than two non-empty elements
            return ('unique-' + r) if r else None
        return _name_reason(b, True, False, 2)
    if kind == 'path':
        if len(b) == 0:
            return 'empty'
        if b[0:1] != b'/':
            return 'no-leading-slash'
        if b == b'/':
            return None
        if b.endswith(b'/'):
            return 'trailing-slash'
        if b'//' in b:
            return 'empty-element'
        for ch in b:
            if ch != 0x2f and ch not in b'ABCDEFGHIJKLMNOPQRSTUVWXYZabcdefghijklmnopqrstuvwxyz0123456789_':
                return 'bad-char'
        return None
    if kind == 'sig':
        return sig_reason(b)
    if kind == 'sig1':
        r = sig_reason(b)
        if r:
            return r
        n = len(split_signature(b))
        return None if n == 1 else ('sig.not-single-%s' % ('empty' if n == 0 else 'multiple'))
    if kind == 'utf8':
        return None if valid_utf8(b) else ('utf8.nul' if 0 in b else 'utf8.malformed')
    raise ValueError(kind)


def is_gray(kind: str, b: bytes) -> bool:
    """Inputs on which the specification text admits two readings: not judged."""
    if kind in ('sig', 'sig1'):
        return sig_is_gray(b)
    return False


def is_valid(kind: str, b: bytes) -> bool:
    return {'iface': valid_interface, 'error': valid_error_name, 'member': valid_member, 'bus': valid_bus_name,
            'path': valid_path, 'sig': valid_signature, 'sig1': valid_single_signature, 'utf8': valid_utf8}[kind](b)
