"""names — the specification's name-ownership algorithm, transcribed sentence
by sentence from doc/dbus-specification.xml (RequestName, ReleaseName,
"Owning names"), as an executable reference model.

State: queues[name] = list of [conn, allow_replacement, do_not_queue]; head = primary owner.
Connections are opaque hashable ids chosen by the caller."""
from .. import grammars as G

ALLOW_REPLACEMENT, REPLACE_EXISTING, DO_NOT_QUEUE = 1, 2, 4
PRIMARY_OWNER, IN_QUEUE, EXISTS, ALREADY_OWNER = 1, 2, 3, 4
RELEASED, NON_EXISTENT, NOT_OWNER = 1, 2, 3
BUS_NAME = b'org.freedesktop.DBus'


class Signals:
    """What an operation makes the bus emit: unicast NameLost/NameAcquired and broadcast NameOwnerChanged."""

    def __init__(self):
        self.lost = []        # (conn, name)
        self.acquired = []    # (conn, name)
        self.changed = []     # (name, old_conn_or_None, new_conn_or_None)


class Registry:
    def __init__(self):
        self.queues = {}

    def copy(self):
        r = Registry()
        r.queues = {n: [list(e) for e in q] for n, q in self.queues.items()}
        return r

    def owner(self, name):
        q = self.queues.get(name)
        return q[0][0] if q else None

    def queued(self, name):
        return [e[0] for e in self.queues.get(name, [])]

    def names_of(self, conn, primary_only=False):
        out = []
        for n, q in self.queues.items():
            for i, e in enumerate(q):
                if e[0] == conn and (i == 0 or not primary_only):
                    out.append(n)
        return sorted(out)

    @staticmethod
    def requestable(name: bytes):
        """May this name be requested / released at all?"""
        return G.valid_bus_name(name) and name[:1] != b':' and name != BUS_NAME

    def request(self, conn, name, flags):
        """-> (reply_code, Signals).  Precondition: requestable(name)."""
        sig = Signals()
        allow = bool(flags & ALLOW_REPLACEMENT)
        dnq = bool(flags & DO_NOT_QUEUE)
        q = self.queues.get(name)
        if not q:
            self.queues[name] = [[conn, allow, dnq]]
            sig.acquired.append((conn, name))
            sig.changed.append((name, None, conn))
            return PRIMARY_OWNER, sig
        # 1. caller is the primary owner: update flags, nothing further happens
        if q[0][0] == conn:
            q[0][1], q[0][2] = allow, dnq
            return ALREADY_OWNER, sig
        # 2. head allows replacement and caller asks for it: caller becomes head, old head second
        if q[0][1] and (flags & REPLACE_EXISTING):
            old = q[0]
            rest = [e for e in q[1:] if e[0] != conn]
            newq = [[conn, allow, dnq], old] + rest
            # 5. purge every non-head entry with DO_NOT_QUEUE
            newq = [newq[0]] + [e for e in newq[1:] if not e[2]]
            self.queues[name] = newq
            sig.lost.append((old[0], name))
            sig.acquired.append((conn, name))
            sig.changed.append((name, old[0], conn))
            return PRIMARY_OWNER, sig
        # 3./4. replacement not possible: update in place if queued, else append
        for e in q:
            if e[0] == conn:
                e[1], e[2] = allow, dnq
                break
        else:
            q.append([conn, allow, dnq])
        # 5. purge non-head DO_NOT_QUEUE entries (here: at most the caller)
        self.queues[name] = [q[0]] + [e for e in q[1:] if not e[2]]
        if dnq:
            return EXISTS, sig
        return IN_QUEUE, sig

    def release(self, conn, name):
        """-> (reply_code, Signals).  Precondition: requestable(name)."""
        sig = Signals()
        q = self.queues.get(name)
        if not q:
            return NON_EXISTENT, sig
        idx = [i for i, e in enumerate(q) if e[0] == conn]
        if not idx:
            return NOT_OWNER, sig
        i = idx[0]
        del q[i]
        if i == 0:
            sig.lost.append((conn, name))
            if q:
                sig.acquired.append((q[0][0], name))
                sig.changed.append((name, conn, q[0][0]))
            else:
                sig.changed.append((name, conn, None))
        if not q:
            del self.queues[name]
        return RELEASED, sig

    def drop_connection(self, conn):
        """Disconnect: every claim of conn is given up (no NameLost to a connection that is gone)."""
        sig = Signals()
        for name in sorted(self.queues):
            q = self.queues[name]
            idx = [i for i, e in enumerate(q) if e[0] == conn]
            if not idx:
                continue
            i = idx[0]
            del q[i]
            if i == 0:
                if q:
                    sig.acquired.append((q[0][0], name))
                    sig.changed.append((name, conn, q[0][0]))
                else:
                    sig.changed.append((name, conn, None))
            if not q:
                del self.queues[name]
        return sig

    def invariant(self):
        """None or a description of a broken structural invariant."""
        for n, q in self.queues.items():
            if not q:
                return 'empty queue kept for %r' % n
            conns = [e[0] for e in q]
            if len(set(conns)) != len(conns):
                return 'duplicate owner in queue of %r' % n
            if any(e[2] for e in q[1:]):
                return 'non-head DO_NOT_QUEUE entry in queue of %r' % n
        return None

    def key(self):
        return ';'.join('%s=%s' % (n.decode(), ','.join('%s%s%s' % (e[0], ':A' if e[1] else '', ':D' if e[2] else '') for e in q))
                        for n, q in sorted(self.queues.items()))
