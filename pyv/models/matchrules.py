"""matchrules — match-rule grammar, quoting and matching semantics transcribed
from doc/dbus-specification.xml ("Match Rules").

parse(text) -> ('valid', Rule) | ('invalid', reason) | ('unspecified', why)
matches(rule, msg_view, holder) -> bool
"""
from .. import grammars as G

TYPES = {b'signal': 4, b'method_call': 1, b'method_return': 2, b'error': 3}
MAX_RULE_LEN = 1024


class Rule:
    __slots__ = ('type', 'sender', 'interface', 'member', 'path', 'path_namespace', 'destination', 'args', 'eavesdrop', 'text')

    def __init__(self):
        self.type = None
        self.sender = None
        self.interface = None
        self.member = None
        self.path = None
        self.path_namespace = None
        self.destination = None
        self.args = {}        # index -> (kind, value) kind in 'str','path','namespace'
        self.eavesdrop = False
        self.text = None

    def canon(self):
        """Canonical identity of a rule: two rule texts are 'equal' iff this is equal."""
        return (self.type, self.sender, self.interface, self.member, self.path, self.path_namespace, self.destination,
                tuple(sorted(self.args.items())), self.eavesdrop)


def split_pairs(text: bytes):
    """Tokenise per the specification's quoting rules.
    -> list of (key bytes, value bytes) | raises ValueError(reason) ; sets flags for unspecified forms."""
    pairs = []
    notes = set()
    i, n = 0, len(text)
    if n == 0:
        notes.add('empty-rule')
    while i < n:
        # key: up to '='
        j = i
        while j < n and text[j:j + 1] not in (b'=', b','):
            j += 1
        key = text[i:j]
        if j < n and text[j:j + 1] == b'=' and len(key.strip(b' \t')) == 0:
            raise ValueError('empty-key')
        if j >= n or text[j:j + 1] == b',':
            if len(key.strip(b' \t')) == 0:
                notes.add('empty-item')
                i = j + 1
                if j >= n:
                    break
                if i >= n:
                    notes.add('trailing-comma')
                continue
            raise ValueError('key-without-equals')
        # value
        k = j + 1
        val = bytearray()
        inq = False
        while k < n:
            c = text[k:k + 1]
            if inq:
                if c == b"'":
                    inq = False
                else:
                    val += c
                k += 1
                continue
            if c == b',':
                break
            if c == b"'":
                inq = True
                k += 1
                continue
            if c == b'\\':
                if text[k + 1:k + 2] == b"'":
                    val += b"'"
                    k += 2
                    continue
                val += b'\\'
                k += 1
                continue
            if c in (b' ', b'\t'):
                notes.add('unquoted-whitespace')
            val += c
            k += 1
        if inq:
            raise ValueError('unterminated-quote')
        if key != key.strip(b' \t'):
            notes.add('whitespace-around-key')
        pairs.append((key.strip(b' \t'), bytes(val)))
        if k < n and k + 1 == n:
            notes.add('trailing-comma')
        i = k + 1
    return pairs, notes


def parse(text: bytes):
    if len(text) > MAX_RULE_LEN:
        return ('invalid', 'too-long')
    if b'\0' in text:
        return ('invalid', 'nul')
    try:
        pairs, notes = split_pairs(text)
    except ValueError as e:
        return ('invalid', str(e))
    r = Rule()
    r.text = text
    seen = set()
    unspecified = set(notes)
    for key, val in pairs:
        if key in seen:
            unspecified.add('duplicate-key')
        seen.add(key)
        if key == b'type':
            if val not in TYPES:
                return ('invalid', 'bad-type')
            r.type = TYPES[val]
        elif key == b'sender':
            if not G.valid_bus_name(val):
                if G.why_invalid('bus', val) == 'unique-name-elements':
                    unspecified.add('unique-name-elements')     # known validator finding (C16); not re-judged here
                else:
                    return ('invalid', 'bad-sender')
            r.sender = val
        elif key == b'interface':
            if not G.valid_interface(val):
                return ('invalid', 'bad-interface')
            r.interface = val
        elif key == b'member':
            if not G.valid_member(val):
                return ('invalid', 'bad-member')
            r.member = val
        elif key == b'path':
            if not G.valid_path(val):
                return ('invalid', 'bad-path')
            r.path = val
        elif key == b'path_namespace':
            if not G.valid_path(val):
                return ('invalid', 'bad-path-namespace')
            r.path_namespace = val
        elif key == b'destination':
            if not G.valid_bus_name(val):
                if G.why_invalid('bus', val) == 'unique-name-elements':
                    unspecified.add('unique-name-elements')
                else:
                    return ('invalid', 'bad-destination')
            r.destination = val
        elif key == b'eavesdrop':
            if val not in (b'true', b'false'):
                return ('invalid', 'bad-eavesdrop')
            r.eavesdrop = val == b'true'
        elif key[:3] == b'arg':
            rest = key[3:]
            digits = b''
            while rest[:1].isdigit():
                digits += rest[:1]
                rest = rest[1:]
            if not digits:
                return ('invalid', 'arg-without-number')
            if len(digits) > 1 and digits[:1] == b'0':
                unspecified.add('arg-leading-zero')
            idx = int(digits)
            if rest == b'':
                kind = 'str'
            elif rest == b'path':
                kind = 'path'
            elif rest == b'namespace':
                if idx != 0:
                    return ('invalid', 'argN-namespace')
                kind = 'namespace'
                # "Like a bus name, except that the string is not required to contain a '.'"
                if not (G.valid_bus_name(val) or G.valid_bus_name(val + b'.x') and b'.' not in val):
                    if val[:1] == b':':
                        unspecified.add('unique-namespace')
                    else:
                        return ('invalid', 'bad-namespace')
            else:
                return ('invalid', 'arg-junk')
            if idx > 63:
                return ('invalid', 'arg-index')
            if idx in r.args:
                unspecified.add('duplicate-arg')
            if not G.valid_utf8(val):
                return ('invalid', 'arg-not-utf8')
            r.args[idx] = (kind, val)
        else:
            return ('invalid', 'unknown-key')
    if r.path is not None and r.path_namespace is not None:
        return ('invalid', 'path-and-namespace')
    if unspecified:
        return ('unspecified', ','.join(sorted(unspecified)))
    return ('valid', r)


class MsgView:
    """What the matcher sees of a message on the bus."""

    def __init__(self, mtype, sender_names, dest_names, interface, member, path, body, has_destination):
        self.mtype = mtype
        self.sender_names = sender_names      # set of names the sender answers to (unique name + primary-owned names); {'org.freedesktop.DBus'} for the bus
        self.dest_names = dest_names          # same for the addressed recipient (empty for broadcasts)
        self.interface = interface
        self.member = member
        self.path = path
        self.body = body                      # list of (sig, payload)
        self.has_destination = has_destination


def matches(r: Rule, m: MsgView, holder_is_addressee=False):
    """Does rule r select message m (for a holder that is not the addressed recipient unless stated)?"""
    if m.has_destination and not holder_is_addressee and not r.eavesdrop:
        return False
    if r.type is not None and r.type != m.mtype:
        return False
    if r.sender is not None and r.sender not in m.sender_names:
        return False
    if r.destination is not None and r.destination not in m.dest_names:
        return False
    if r.interface is not None and m.interface != r.interface:
        return False
    if r.member is not None and m.member != r.member:
        return False
    if r.path is not None and m.path != r.path:
        return False
    if r.path_namespace is not None:
        if m.path is None:
            return False
        ns = r.path_namespace
        if not (m.path == ns or ns == b'/' or m.path.startswith(ns + b'/')):
            return False
    for idx, (kind, val) in r.args.items():
        if idx >= len(m.body):
            return False
        sig, payload = m.body[idx]
        if kind == 'str':
            if sig != b's' or payload != val:
                return False
        elif kind == 'path':
            if sig not in (b's', b'o'):
                return False
            a = payload
            if a == val:
                continue
            if val.endswith(b'/') and a.startswith(val):
                continue
            if a.endswith(b'/') and val.startswith(a):
                continue
            return False
        elif kind == 'namespace':
            if sig != b's':
                return False
            if not (payload == val or payload.startswith(val + b'.')):
                return False
    return True
