"""policy — the documented evaluation of <allow>/<deny> rules, transcribed
from doc/dbus-daemon.1.xml.in (section CONFIGURATION FILE, <policy>, <deny>,
<allow>).  Where the manual is silent or ambiguous the evaluator answers
UNSPEC and the probe is not judged.

A rule is a dict: {'action': 'allow'|'deny', 'context': 'default'|'user:<uid>'|'group:<gid>'|'mandatory', attr: value...}
"""

UNSPEC = 'unspecified'

SEND_ATTRS = ('send_interface', 'send_member', 'send_error', 'send_broadcast', 'send_destination', 'send_destination_prefix',
              'send_type', 'send_path', 'send_requested_reply')
RECV_ATTRS = ('receive_interface', 'receive_member', 'receive_error', 'receive_sender', 'receive_type', 'receive_path',
              'receive_requested_reply')
TYPE_NAMES = {1: 'method_call', 2: 'method_return', 3: 'error', 4: 'signal'}


def rule_kind(r):
    if any(k in r for k in SEND_ATTRS):
        return 'send'
    if any(k in r for k in RECV_ATTRS):
        return 'receive'
    if 'own' in r or 'own_prefix' in r:
        return 'own'
    if 'user' in r or 'group' in r:
        return 'connect'
    if 'eavesdrop' in r or 'min_fds' in r or 'max_fds' in r:
        return 'receive'      # "with the eavesdrop attribute and no others"
    return 'none'


def rules_for(rules, uid, gids):
    """Order of application: default, group (undefined among groups), user, mandatory."""
    out = [r for r in rules if r['context'] == 'default']
    out += [r for r in rules if r['context'].startswith('group:') and int(r['context'][6:]) in gids]
    out += [r for r in rules if r['context'] == 'user:%d' % uid]
    out += [r for r in rules if r['context'] == 'mandatory']
    return out


class Peer:
    """What a rule can know about the other end of a message."""

    def __init__(self, primary=(), queued=(), is_bus=False):
        self.primary = set(primary)       # names it is primary owner of (incl. its unique name)
        self.queued = set(queued)         # names it is only queued for
        self.is_bus = is_bus

    def owns(self, name):
        """True / False / UNSPEC (only queued: the manual says 'owner')."""
        if self.is_bus:
            return name == 'org.freedesktop.DBus'
        if name in self.primary:
            return True
        if name in self.queued:
            return UNSPEC
        return False

    def owns_under_prefix(self, prefix):
        for n in self.primary | self.queued:
            if n == prefix or n.startswith(prefix + '.'):
                return True
        return False


class Msg:
    def __init__(self, mtype, interface=None, member=None, path=None, error=None, has_destination=True,
                 requested_reply=False, nfds=0):
        self.mtype = mtype
        self.interface = interface
        self.member = member
        self.path = path
        self.error = error
        self.has_destination = has_destination
        self.requested_reply = requested_reply
        self.nfds = nfds

    @property
    def is_reply(self):
        return self.mtype in (2, 3)


def _field_match(rule, key, value, action):
    """Textual match of one header-field attribute. -> True/False/UNSPEC"""
    want = rule[key]
    if want == '*':
        return True
    if value is None:
        if key.endswith('_interface'):
            # the manual's explicit warning: a <deny> on an interface also blocks no-interface messages;
            # an <allow> is a by-value match and cannot match a missing field
            return action == 'deny'
        return UNSPEC
    return want == value


def match_send(rule, m: Msg, receiver: Peer):
    """Does send rule `rule` match message m going to `receiver` (None = no particular receiver)? True/False/UNSPEC"""
    action = rule['action']
    unspec = False
    for key, value in (('send_interface', m.interface), ('send_member', m.member), ('send_path', m.path), ('send_error', m.error)):
        if key in rule:
            r = _field_match(rule, key, value, action)
            if r is False:
                return False
            if r is UNSPEC:
                unspec = True
    if 'send_type' in rule and rule['send_type'] != '*' and rule['send_type'] != TYPE_NAMES.get(m.mtype):
        return False
    if 'send_broadcast' in rule:
        is_broadcast = (m.mtype == 4 and not m.has_destination)
        if (rule['send_broadcast'] == 'true') != is_broadcast:
            return False
    if 'send_destination' in rule and rule['send_destination'] != '*':
        if receiver is None:
            return UNSPEC if not m.has_destination else False
        o = receiver.owns(rule['send_destination'])
        if o is False:
            return False
        if o is UNSPEC:
            unspec = True
    if 'send_destination_prefix' in rule:
        if receiver is None:
            return UNSPEC if not m.has_destination else False
        if not receiver.owns_under_prefix(rule['send_destination_prefix']):
            return False
    if m.is_reply:
        rr = rule.get('send_requested_reply')
        if action == 'allow':
            if (rr or 'true') == 'true' and not m.requested_reply:
                if rule.get('eavesdrop') == 'true':
                    # the manual says an <allow> only covers requested replies unless requested_reply="false", but also that
                    # the session bus (whose only rules are <allow ... eavesdrop="true"/>) "allows sending any message":
                    # the two statements disagree for unrequested replies -> not judged
                    unspec = True
                else:
                    return False
        else:
            if (rr or 'false') == 'false' and m.requested_reply:
                return False
    if 'min_fds' in rule and m.nfds < int(rule['min_fds']):
        return False
    if 'max_fds' in rule and m.nfds > int(rule['max_fds']):
        return False
    return UNSPEC if unspec else True


def match_receive(rule, m: Msg, sender: Peer, eavesdropping=False):
    action = rule['action']
    unspec = False
    for key, value in (('receive_interface', m.interface), ('receive_member', m.member), ('receive_path', m.path), ('receive_error', m.error)):
        if key in rule:
            r = _field_match(rule, key, value, action)
            if r is False:
                return False
            if r is UNSPEC:
                unspec = True
    if 'receive_type' in rule and rule['receive_type'] != '*' and rule['receive_type'] != TYPE_NAMES.get(m.mtype):
        return False
    if 'receive_sender' in rule and rule['receive_sender'] != '*':
        o = sender.owns(rule['receive_sender'])
        if o is False:
            return False
        if o is UNSPEC:
            unspec = True
    ev = rule.get('eavesdrop')
    if action == 'allow':
        if eavesdropping and (ev or 'false') != 'true':
            return False
    else:
        if (ev or 'false') == 'true' and not eavesdropping:
            return False
    if m.is_reply:
        rr = rule.get('receive_requested_reply')
        if action == 'allow':
            if (rr or 'true') == 'true' and not m.requested_reply:
                if rule.get('eavesdrop') == 'true':
                    unspec = True      # same ambiguity as for send rules (session bus "allows receiving any message")
                else:
                    return False
        else:
            if (rr or 'false') == 'false' and m.requested_reply:
                return False
    if 'min_fds' in rule and m.nfds < int(rule['min_fds']):
        return False
    if 'max_fds' in rule and m.nfds > int(rule['max_fds']):
        return False
    return UNSPEC if unspec else True


def decide(rules, matcher):
    """Last matching rule decides; nothing is allowed by default.  If a rule whose match is UNSPEC could
    change the outcome, the decision is UNSPEC."""
    decision = False
    unsure = None
    for r in rules:
        mres = matcher(r)
        if mres is True:
            decision = (r['action'] == 'allow')
            unsure = None
        elif mres is UNSPEC:
            alt = (r['action'] == 'allow')
            if alt != decision:
                unsure = True
    # an unspecified match only matters if no later definite match overrode it
    if unsure:
        return UNSPEC
    return decision


def can_send(rules, uid, gids, m, receiver):
    rs = [r for r in rules_for(rules, uid, gids) if rule_kind(r) == 'send']
    return decide(rs, lambda r: match_send(r, m, receiver))


def can_receive(rules, uid, gids, m, sender, eavesdropping=False):
    rs = [r for r in rules_for(rules, uid, gids) if rule_kind(r) == 'receive']
    return decide(rs, lambda r: match_receive(r, m, sender, eavesdropping))


def can_own(rules, uid, gids, name):
    rs = [r for r in rules_for(rules, uid, gids) if rule_kind(r) == 'own']

    def mt(r):
        if 'own' in r:
            return r['own'] == '*' or r['own'] == name
        p = r['own_prefix']
        return name == p or name.startswith(p + '.')
    return decide(rs, mt)


def to_xml(rules):
    """Render rules as <policy> elements, preserving order within each context."""
    out = []
    ctxs = []
    for r in rules:
        if r['context'] not in ctxs:
            ctxs.append(r['context'])
    for c in ctxs:
        if c in ('default', 'mandatory'):
            out.append('  <policy context="%s">' % c)
        elif c.startswith('user:'):
            out.append('  <policy user="%s">' % c[5:])
        else:
            out.append('  <policy group="%s">' % c[6:])
        for r in rules:
            if r['context'] != c:
                continue
            attrs = ' '.join('%s="%s"' % (k, v) for k, v in r.items() if k not in ('action', 'context'))
            out.append('    <%s %s/>' % (r['action'], attrs))
        out.append('  </policy>')
    return '\n'.join(out) + '\n'
