#!/usr/bin/env python3
"""Regenerate /verif/MANIFEST.json from pyv/registry.py + pyv/checks/*."""
import json, os, sys, subprocess
V = os.path.dirname(os.path.dirname(os.path.abspath(__file__)))
sys.path.insert(0, V)
from pyv import registry
try:
    from pyv import checks  # noqa: populates registry.CHECKS
except ImportError:
    pass

def repo_hook_commits():
    try:
        out = subprocess.check_output(['git', '-C', '/repo', 'log', '--format=%H %s'], text=True)
    except Exception:
        return []
    return [l.split()[0] for l in out.splitlines() if 'verif hook' in l]

m = {
    'version': 1,
    'setup_cmd': './build.sh setup',
    'hooks': {
        'guard': 'DBUS_VERIF',
        'enable': 'build.sh configures /verif/.build/{asan,tsan} from /repo with CMAKE_C_FLAGS=-DDBUS_VERIF=1 plus sanitizers and rebuilds incrementally (ninja) on every check invocation',
        'baseline_off_cmd': 'cmake --build /repo/_build && ctest --test-dir /repo/_build -j8 --timeout 900',
        'source_commits': repo_hook_commits(),
        'add_only': True,
    },
    'engines': [
        {'name': 'vcheck', 'path': 'vcheck', 'serves_properties': sorted(registry.CHECKS),
         'kind_free_text': 'bounded exhaustive exploration (history BFS with canonical-state dedup, exhaustive product enumeration, deviation-bounded DFS) of the real code through harness/vbox*, judged by independent Python reference models (pyv/refdbus.py, pyv/models/*)'},
    ],
    'checks': [],
    'not_applicable': [],
    'notes': 'See DESIGN.md. known_findings.json lists recorded genuine defects; replay files are written under replays/.',
}
for pid in registry.ALL_IDS:
    c = registry.CHECKS.get(pid)
    if not c:
        m['not_applicable'].append({'property_id': pid, 'reason': registry.NOT_YET})
        continue
    m['checks'].append({
        'property_id': pid,
        'quick_cmd': './vcheck %s --tier quick' % pid,
        'thorough_cmd': './vcheck %s --tier thorough' % pid,
        'evidence_file': 'evidence/%s.json' % pid,
        'replay_cmd_template': './vcheck replay {path}',
        'engine': 'vcheck',
        'level_claimed': {'category': c['level'], 'text': c['text'], 'design_ref': c['design_ref']},
        'level_note': c['note'],
        'technique': c['technique'],
    })
json.dump(m, open(os.path.join(V, 'MANIFEST.json'), 'w'), indent=1)
print('MANIFEST.json: %d checks, %d not_applicable' % (len(m['checks']), len(m['not_applicable'])))
