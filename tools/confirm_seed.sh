#!/bin/bash
# confirm_seed.sh <seed-id> — independent confirmation of a seeded change: apply
# seeded/<id>/patch.diff to the scratch worktree ${CONFIRM_PREFIX:-/tmp/seed-}<CNN> (which has a
# pristine baseline-configured _build from the sub-agent), rebuild, run the
# project's own test suite, revert.  Writes seeded/<id>/confirm.txt.
id=$1; prop=${id%%-*}; W=${CONFIRM_PREFIX:-/tmp/seed-}$prop; V=$(cd "$(dirname "$0")/.." && pwd)
[ -d "$W/_build" ] || { echo "$id: no worktree build"; exit 2; }
git -C "$W" checkout -q -- . && git -C "$W" checkout -q --detach "$(git -C /repo rev-parse HEAD)" && git -C "$W" apply "$V/seeded/$id/patch.diff" || { echo "$id: patch does not apply"; exit 2; }
out=$V/seeded/$id/confirm.txt
{
  echo "confirmed in scratch worktree $W (baseline configuration, RelWithDebInfo), $(date -u +%FT%TZ)"
  echo "base: /repo HEAD $(git -C "$W" rev-parse --short HEAD)"
  echo "files: $(git -C "$W" diff --stat | tail -1)"
  if cmake --build "$W/_build" -j6 >/tmp/confirm-$id.build.log 2>&1; then echo "build: ok"; else echo "build: FAILED"; tail -5 /tmp/confirm-$id.build.log; fi
  ctest --test-dir "$W/_build" -j6 --timeout 900 2>&1 | tail -4
} > "$out" 2>&1
git -C "$W" checkout -q -- .
rm -f /tmp/confirm-$id.build.log
echo "$id: $(grep -E 'tests passed|tests failed' "$out")"
