#!/usr/bin/env python3
"""Summarise the runs of the checks against the seeded changes (tools/mutcheck.sh output collected in
.run/logs/mut_results.txt) into seeded/RESULTS.md and seeded/RESULTS.json.  Later lines override earlier ones
(a check that was strengthened after a miss is re-run)."""
import json, os, re, sys, glob
V = os.path.dirname(os.path.dirname(os.path.abspath(__file__)))
logs = sys.argv[1:] or [os.path.join(V, '.run/logs', n) for n in ('mut_results.txt', 'mut_results2.txt', 'mut_results3.txt', 'mut_results4.txt', 'mut_regress.txt', 'mut_results5.txt', 'mut_regress2.txt', 'mut_results6.txt')]
res, hist = {}, {}
lines = []
for log in logs:
    if os.path.exists(log):
        lines += open(log, errors='replace').read().split('\n')
for line in lines:
    m = re.match(r'^(\S+-[a-k]|self-\S+) (C\d\d) rc=(\d+)\s*(?:VIOLATION \S+ \S+\s+fingerprint: (.*?)\s+cases: (\d+))?', line)
    if not m:
        continue
    seed, chk, rc, fp, n = m.groups()
    r = {'rc': int(rc), 'fingerprint': fp, 'cases': int(n) if n else 0}
    hist.setdefault((seed, chk), []).append(r)
    res.setdefault(seed, {})[chk] = r
out = {}
rows = []
for d in sorted(glob.glob(os.path.join(V, 'seeded', '*'))):
    seed = os.path.basename(d)
    if not os.path.isdir(d) or seed not in res:
        continue
    meta = {}
    if os.path.exists(os.path.join(d, 'meta.json')):
        meta = json.load(open(os.path.join(d, 'meta.json')))
    own = seed.split('-')[0]
    r = res[seed]
    first = {c: hist[(seed, c)][0] for c in r}
    caught = sorted(c for c, x in r.items() if x['rc'] == 1 and x['fingerprint'])
    missed_first = sorted(c for c, x in first.items() if not (x['rc'] == 1 and x['fingerprint']) and c in caught)
    out[seed] = {'title': meta.get('title'), 'files': meta.get('files'), 'results': r, 'caught_by': caught, 'caught_only_after_strengthening': missed_first}
    own_r = r.get(own)
    rows.append('| %s | %s | %s | %s | %s |' % (
        seed, (meta.get('title') or '').replace('|', '/')[:120],
        ('**%s**: `%s`' % (own, own_r['fingerprint'])) if own_r and own_r['rc'] == 1 and own_r['fingerprint'] else ('%s: not detected' % own if own_r else '-'),
        ', '.join('%s' % c for c in caught if c != own) or '-',
        ('after strengthening ' + ', '.join(missed_first)) if missed_first else ''))
json.dump(out, open(os.path.join(V, 'seeded', 'RESULTS.json'), 'w'), indent=1, sort_keys=True)
with open(os.path.join(V, 'seeded', 'RESULTS.md'), 'w') as f:
    f.write('# Seeded property-breaking changes and which checks report them\n\n'
            'Each change was produced by an independent sub-agent that saw only the property text and a scratch worktree, passes the\n'
            'project\'s own test suite (`confirm.txt` in each directory), and was run against the quick tier of the listed checks with\n'
            '`tools/mutcheck.sh` (scratch worktree, never /repo).  "after strengthening" = the first run of that check missed it and\n'
            'the check was extended (see DESIGN.md section 7).  The last line of the logs is a regression run of every change against\n'
            'the final checks (own property).\n\n'
            '| seed | change | own property\'s check | also reported by | note |\n|---|---|---|---|---|\n')
    f.write('\n'.join(rows) + '\n')
n_own = sum(1 for s, o in out.items() if s.split('-')[0] in o['caught_by'])
print('%d seeds, %d caught by their own property check, %d caught by some check' % (len(out), n_own, sum(1 for o in out.values() if o['caught_by'])))
