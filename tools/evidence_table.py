#!/usr/bin/env python3
"""Print one line per evidence file: id, wall time, exhaustive flag and the main counters (for DESIGN.md section 0.3)."""
import json, glob, os
V = os.path.dirname(os.path.dirname(os.path.abspath(__file__)))
for f in sorted(glob.glob(os.path.join(V, 'evidence', 'C*.json'))):
    e = json.load(open(f)); c = e['coverage']
    keys = ('states', 'transitions', 'evaluations', 'configurations', 'probes', 'hostile_steps', 'loader_schedules', 'completed_depth', 'fixpoint')
    print('%s %s wall=%ss exhaustive=%s %s known=%d' % (e['property_id'], e['tier'], e['wall_s'], c.get('exhaustive'),
          ' '.join('%s=%s' % (k, c[k]) for k in keys if k in c), len(c.get('known_findings_seen', []))))
