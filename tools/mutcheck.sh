#!/bin/bash
# mutcheck.sh <name> <patch.diff> <CNN>... — run quick checks against a scratch
# worktree of /repo with <patch> applied, without touching /repo or /verif/evidence.
# Prints one line per check: <id> rc=<exit> <first VIOLATION line>.  Scratch
# trees live under /tmp and are removed unless KEEP=1.
set -u
name=$1; patch=$2; shift 2
V=$(cd "$(dirname "$0")/.." && pwd)
W=/tmp/mut-$name
git -C /repo worktree remove --force "$W" >/dev/null 2>&1; rm -rf "$W" "$W-build" "$W-out"
git -C /repo worktree add --detach "$W" HEAD >/dev/null 2>&1 || { echo "worktree failed"; exit 2; }
git -C "$W" apply "$patch" || { echo "patch does not apply"; git -C /repo worktree remove --force "$W"; exit 2; }
export VERIF_REPO=$W VERIF_BUILD_ROOT=$W-build VERIF_OUT=$W-out
mkdir -p "$W-out"
TIER=${TIER:-quick}
for id in "$@"; do
  "$V/vcheck" "$id" --tier "$TIER" > "$W-out/$id.log" 2>&1; rc=$?
  echo "$name $id rc=$rc $(grep -m1 '^VIOLATION' "$W-out/$id.log") $(grep -m1 -A1 '^VIOLATION' "$W-out/$id.log" | grep fingerprint | cut -c1-160)"
  [ $rc -ne 0 ] && [ $rc -ne 1 ] && tail -5 "$W-out/$id.log"
done
if [ "${KEEP:-0}" != 1 ]; then
  git -C /repo worktree remove --force "$W" >/dev/null 2>&1; rm -rf "$W" "$W-build" "$W-out"
fi
