#!/bin/bash
# coverage.sh [CNN...] — which lines of dbus do the quick tiers execute?  Builds /repo's working tree with gcov
# instrumentation instead of the sanitizers into a scratch build root (never /verif/.build), runs the named checks
# (default: all) against it with evidence/replays redirected to a scratch directory, and writes a per-file and
# per-function summary for the files anchored by the properties.  Diagnostic only: it decides nothing; it is how
# alphabets are audited for code the explorations never reach (DESIGN.md section 0.7).
V=$(cd "$(dirname "$0")/.." && pwd)
ROOT=${COV_ROOT:-/tmp/vcov}
export VERIF_BUILD_ROOT=$ROOT/build VERIF_OUT=$ROOT/out VERIF_ASAN_FLAGS="--coverage" VERIF_TSAN_FLAGS="--coverage"
export VERIF_DEADLINE_S=${VERIF_DEADLINE_S:-300}
mkdir -p "$ROOT/out" "$ROOT/logs"
cd "$V"
./build.sh setup > "$ROOT/logs/setup.log" 2>&1 || { echo "coverage build failed"; tail -20 "$ROOT/logs/setup.log"; exit 2; }
ids=("$@"); [ ${#ids[@]} -eq 0 ] && ids=($(seq -f 'C%02g' 1 20))
for id in "${ids[@]}"; do
  ./vcheck "$id" --tier "${TIER:-quick}" > "$ROOT/logs/$id.log" 2>&1
  echo "$id rc=$? $(grep -c '^VIOLATION' "$ROOT/logs/$id.log") violation lines"
done
cd "$ROOT/build/asan"
gcovr -r /repo --object-directory . --gcov-ignore-parse-errors -f '/repo/(dbus|bus)/' -e '.*test.*' --json "$ROOT/cov.json" > "$ROOT/logs/gcovr.log" 2>&1
gcovr -r /repo -a "$ROOT/cov.json" --txt "$ROOT/cov.txt" >> "$ROOT/logs/gcovr.log" 2>&1
echo "summary: $ROOT/cov.txt ; per-line data: $ROOT/cov.json"
